"""C01 — every CQL value survives an encode/decode round trip."""
from sx.run import Job
from harness import codec
from harness.codec import *       # noqa: harness functions are looked up on this module

META = dict(
    level='model_checking',
    level_text='values are symbolic over their full documented ranges (all ints of a width, all |varint| < 2^71, all UTF-8 code points, all element/null combinations, every protocol version as a forked choice); the real instrumented marshal/cqltypes/util code runs on them and z3 decides decode(encode(v)) == v for all values per path; bit-field/concatenation normalisation makes most integer round trips syntactic',
    level_note='strings <= 2-3 characters, collections <= 2 elements, nesting depth 3 in one fixed shape, decimals <= 3 digits; float/double are opaque bit patterns; timestamp decoding (floating point) is decided for bands of 2^12-2^20 ms around the listed instants with a QF_FP model of CPython timedelta arithmetic; uuid/Decimal constructors are modelled by stubs',
    technique='symbolic execution of the instrumented real codecs + z3 bit-vector (and QF_FP for timestamps) validity per path; counterexamples replayed on the real driver',
    bounds=dict(quick='see level_note; varint |v| <= 2^71; timestamp decode bands of 2^10 ms at epoch, now, 2^31 s and of 2^12 ms at 2^33 s (year 2242), year 9000',
                thorough='varint |v| <= 2^135, text 3 chars, collections <= 3 elements, more timestamp bands'),
    assumptions=['Decimal("<int>e<int>") denotes that unscaled value and exponent', 'uuid.UUID(bytes=b).bytes == b'],
    stubs=['decimal.Decimal, uuid.UUID -> data-holding stubs', 'struct/bytearray/BytesIO/str codecs -> engine models'],
    outside=['inet (C library text conversion)', 'geometric and DateRange types', 'datetime/date objects as timestamp/date inputs (C types)'],
)

encoded_functions = codec.encoded_functions


def jobs(tier):
    th = tier == 'thorough'
    o = dict(max_seconds=1500 if th else 280, timeout_ms=60000)
    js = []
    for t in ('tinyint', 'smallint', 'int', 'bigint', 'counter'):
        js.append(Job('int-' + t, 'h_fixed_int', dict(typ=t), o))
    js += [Job('varint', 'h_varint', dict(bits=135 if th else 71), o), Job('decimal-1', 'h_decimal', dict(ndigits=1), o),
           Job('decimal-2', 'h_decimal', dict(ndigits=2), o), Job('duration', 'h_duration', {}, o), Job('date', 'h_date', {}, o),
           Job('time', 'h_time', {}, o), Job('bool', 'h_bool', {}, o), Job('double', 'h_float', dict(code='d'), o),
           Job('float', 'h_float', dict(code='f'), o), Job('uuid', 'h_uuid', {}, o), Job('uvint', 'h_uvint', {}, o),
           Job('nested', 'h_nested', {}, o), Job('tuple', 'h_tuple', {}, o), Job('udt', 'h_tuple', dict(udt=True), o)]
    if th:
        js.append(Job('decimal-3', 'h_decimal', dict(ndigits=3), o))
    for n in range(0, 4 if th else 3):
        js.append(Job('text-%d' % n, 'h_text', dict(n=n), o))
        js.append(Job('ascii-%d' % n, 'h_text', dict(n=n, typ='ascii'), o))
        js.append(Job('blob-%d' % n, 'h_blob', dict(n=n), o))
    for kind in ('int', 'text', 'varint', 'blob'):
        js.append(Job('list-' + kind, 'h_list', dict(kind=kind, maxlen=3 if th else 2), o))
        js.append(Job('set-' + kind, 'h_list', dict(kind=kind, settype=True, maxlen=2), o))
    for kk, vk in (('int', 'text'), ('text', 'int'), ('varint', 'blob')):
        js.append(Job('map-%s-%s' % (kk, vk), 'h_map', dict(kkind=kk, vkind=vk), o))
    for kind in ('int', 'text', 'blob'):
        js.append(Job('vector-' + kind, 'h_vector', dict(kind=kind), o))
    W_ = 1 << (14 if th else 9)
    bands = [('epoch', -W_, W_), ('now', 1790000000000, 1790000000000 + 2 * W_), ('2^31s', (1 << 31) * 1000 - W_, (1 << 31) * 1000 + W_),
             ('2^33s', (1 << 33) * 1000, (1 << 33) * 1000 + 4096), ('year9000', 221845392000000, 221845392000000 + 4096)]
    for name, lo, hi in bands:
        js.append(Job('timestamp-decode-' + name, 'h_timestamp_decode', dict(lo=lo, hi=hi), dict(o, timeout_ms=120000)))
    return js
