"""C02 — value encodings are byte-exact with Cassandra's type serializers."""
from sx.run import Job
from harness import codec
from harness.codec import *       # noqa: harness functions are looked up on this module

META = dict(
    level='model_checking',
    level_text='values are symbolic over their full documented ranges (all ints of a width, all |varint| < 2^71, all UTF-8 code points, all element/null combinations, every protocol version as a forked choice); the real instrumented marshal/cqltypes/util code runs on them and z3 decides, per path and for all values, that the bytes equal those of an independent specification encoder (Java BigInteger minimal twos-complement, VIntCoding, 2^31-offset dates, -1 length for null, unsigned-vint vector element sizes), that arbitrary Cassandra-produced bytes decode to the value they denote, and that out-of-range values raise; bit-field/concatenation normalisation makes most integer round trips syntactic',
    level_note='strings <= 2-3 characters, collections <= 2 elements, nesting depth 3 in one fixed shape, decimals <= 3 digits; float/double are opaque bit patterns; timestamp decoding (floating point) is decided for bands of 2^12-2^20 ms around the listed instants with a QF_FP model of CPython timedelta arithmetic; uuid/Decimal constructors are modelled by stubs',
    technique='symbolic execution of the instrumented real codecs + z3 bit-vector (and QF_FP for timestamps) validity per path; counterexamples replayed on the real driver',
    bounds=dict(quick='see level_note; varint |v| <= 2^71; timestamp bands: epoch, now, 2^31 s, 2^33 s (year 2242), year 9000',
                thorough='varint |v| <= 2^135, text 3 chars, collections <= 3 elements, more timestamp bands'),
    assumptions=['Decimal("<int>e<int>") denotes that unscaled value and exponent', 'uuid.UUID(bytes=b).bytes == b'],
    stubs=['decimal.Decimal, uuid.UUID -> data-holding stubs', 'struct/bytearray/BytesIO/str codecs -> engine models'],
    outside=['inet (C library text conversion)', 'geometric and DateRange types', 'datetime/date objects as timestamp/date inputs (C types)'],
)

encoded_functions = codec.encoded_functions


def jobs(tier):
    th = tier == 'thorough'
    o = dict(max_seconds=1500 if th else 280, timeout_ms=60000)
    js = []
    for t in ('tinyint', 'smallint', 'int', 'bigint', 'counter'):
        js.append(Job('int-' + t, 'h_fixed_int', dict(typ=t), o))
    js += [Job('varint', 'h_varint', dict(bits=135 if th else 71), o), Job('decimal-1', 'h_decimal', dict(ndigits=1), o),
           Job('decimal-2', 'h_decimal', dict(ndigits=2), o), Job('duration', 'h_duration', {}, o), Job('date', 'h_date', {}, o),
           Job('time', 'h_time', {}, o), Job('bool', 'h_bool', {}, o), Job('double', 'h_float', dict(code='d'), o),
           Job('float', 'h_float', dict(code='f'), o), Job('uuid', 'h_uuid', {}, o), Job('uvint', 'h_uvint', {}, o),
           Job('nested', 'h_nested', {}, o), Job('tuple', 'h_tuple', {}, o), Job('udt', 'h_tuple', dict(udt=True), o),
           Job('timestamp-encode', 'h_timestamp_encode', {}, o)]
    for n in (1, 2, 3, 9):
        js.append(Job('varint-decode-%d' % n, 'h_varint_decode', dict(n=n), o))
    if th:
        js.append(Job('decimal-3', 'h_decimal', dict(ndigits=3), o))
    for n in range(0, 4 if th else 3):
        js.append(Job('text-%d' % n, 'h_text', dict(n=n), o))
        js.append(Job('ascii-%d' % n, 'h_text', dict(n=n, typ='ascii'), o))
        js.append(Job('blob-%d' % n, 'h_blob', dict(n=n), o))
    for kind in ('int', 'text', 'varint', 'blob'):
        js.append(Job('list-' + kind, 'h_list', dict(kind=kind, maxlen=3 if th else 2), o))
        js.append(Job('set-' + kind, 'h_list', dict(kind=kind, settype=True, maxlen=2), o))
    for kk, vk in (('int', 'text'), ('text', 'int'), ('varint', 'blob')):
        js.append(Job('map-%s-%s' % (kk, vk), 'h_map', dict(kkind=kk, vkind=vk), o))
    for kind in ('int', 'text', 'blob'):
        js.append(Job('vector-' + kind, 'h_vector', dict(kind=kind), o))
    return js
