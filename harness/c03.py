"""C03 — request frames conform to the native protocol specification.

The real ProtocolHandler.encode_message and the message classes' send_body
(instrumented cassandra/protocol.py + marshal.py) run on requests whose option
set is a forked symbolic choice and whose field values are symbolic; an
independent parser written from the native-protocol specification reads the
emitted frame back.
"""
import sx
from sx.run import Job

sx.instrument('cassandra.marshal', 'cassandra.protocol')
from harness import kit
kit.install_reactor()
from cassandra import protocol as P
from cassandra import ProtocolVersion, UnsupportedOperation
from cassandra.query import BatchType
from cassandra.protocol import ProtocolHandler

META = dict(
    level='model_checking',
    level_text='for every request kind, protocol version and combination of options (forked symbolic choices) with symbolic field values (consistency, page size, timestamp, stream id, value bytes, null/unset markers) the real encoder runs and an independent specification parser must read back exactly the requested fields; header length == body length; options a version cannot carry must raise; z3 decides each path for all field values',
    level_note='strings and value blobs are short (<= 2 bytes), <= 2 bound values, <= 2 batch statements; compression is a stub (frame-level flag only); the specification parser is hand-written from native_protocol_v1..v5.spec and the DSE additions',
    technique='symbolic execution of the instrumented real protocol writers + z3 bit-vector validity per path against an independent specification parser',
    bounds=dict(quick='10 request kinds x versions {1,2,3,4,5,6,DSE_V1,DSE_V2} x option subsets; <= 2 values of <= 2 bytes incl. null/unset; <= 2 batch statements',
                thorough='same with <= 3 values / batch statements'),
    assumptions=['the session layer passes a positive page size or None, and serial consistency SERIAL/LOCAL_SERIAL or None', 'client timestamps are non-negative (write_long packs them unsigned; a negative timestamp raises struct.error instead of being encoded)'],
    stubs=['compressor: tagging stub'],
    outside=['LZ4/snappy themselves', 'value serialisation (C02)'],
)

VERSIONS = [1, 2, 3, 4, 5, 6, ProtocolVersion.DSE_V1, ProtocolVersion.DSE_V2]


def encoded_functions():
    return [ProtocolHandler.encode_message, ProtocolHandler._write_header, P._QueryMessage._write_query_params,
            P._QueryMessage._write_paging_options, P.QueryMessage.send_body, P.ExecuteMessage.send_body,
            P.ExecuteMessage._write_query_params, P.PrepareMessage.send_body, P.BatchMessage.send_body,
            P.RegisterMessage.send_body, P.StartupMessage.send_body, P.AuthResponseMessage.send_body,
            P.CredentialsMessage.send_body, P.ReviseRequestMessage.send_body, P.write_value]


class Reader(object):
    """independent reader of native-protocol primitives over a list of byte items"""

    def __init__(self, items):
        self.b = list(items)
        self.p = 0

    def take(self, n):
        if self.p + n > len(self.b):
            raise ValueError('truncated body: need %d byte(s) at offset %d of %d' % (n, self.p, len(self.b)))
        r = self.b[self.p:self.p + n]
        self.p += n
        return r

    def uint(self, n):
        v = 0
        for x in self.take(n):
            v = (v << 8) | x
        return v

    def sint(self, n):
        v = self.uint(n)
        return (v ^ (1 << (8 * n - 1))) - (1 << (8 * n - 1))

    def byte(self): return self.uint(1)
    def short(self): return self.uint(2)
    def int(self): return self.sint(4)
    def long(self): return self.sint(8)

    def string(self):
        n = sx.conc(self.short())
        return self.take(n)

    def longstring(self):
        n = sx.conc(self.int())
        return self.take(n)

    def bytes(self):
        n = sx.conc(self.int())
        if n < 0:
            return n            # -1 null, -2 unset
        return self.take(n)

    def shortbytes(self):
        return self.take(sx.conc(self.short()))

    def stringlist(self):
        return [self.string() for _ in range(sx.conc(self.short()))]

    def stringmap(self):
        return [(self.string(), self.string()) for _ in range(sx.conc(self.short()))]

    def bytesmap(self):
        return [(self.string(), self.bytes()) for _ in range(sx.conc(self.short()))]

    def done(self):
        return self.p == len(self.b)


def parse_header(V, frame, pv):
    items = sx.blist(frame)
    r = Reader(items)
    ver = r.byte()
    flags = r.byte()
    stream = r.sint(2) if pv >= 3 else r.sint(1)
    opcode = r.byte()
    length = r.int()
    body = items[r.p:]
    return ver, flags, stream, opcode, length, body


def _same(a, b):
    """a: list of byte items read back, b: bytes/str/list requested"""
    if isinstance(b, str):
        b = b.encode('utf8')
    return sx.beq(sx.cat(a) if a else b'', b) if len(a) == len(sx.blist(b)) else False


def _values(V, maxn, pv, allow_unset=True):
    n = V.choice('nvalues', maxn + 1)
    vals = []
    for i in range(n):
        kinds = ['bytes', 'null'] + (['unset'] if pv >= 4 and allow_unset else [])
        k = V.pick('value%d_kind' % i, kinds)
        if k == 'null':
            vals.append(None)
        elif k == 'unset':
            vals.append(P._UNSET_VALUE)
        else:
            ln = V.choice('value%d_len' % i, 3)
            vals.append(V.bytes('value%d' % i, ln))
    return vals


def _check_values(V, r, vals, label):
    n = r.short()
    V.check(sx.eq(n, len(vals)), label + ':value-count')
    for i, v in enumerate(vals):
        got = r.bytes()
        if v is None:
            V.check(got == -1, label + ':null-value-is-length-minus-1', note=repr(got))
        elif v is P._UNSET_VALUE:
            V.check(got == -2, label + ':unset-value-is-length-minus-2', note=repr(got))
        else:
            V.check(not isinstance(got, int) and _same(got, v), label + ':value-bytes')


def _query_options(V, pv, kind):
    o = {}
    o['cl'] = V.int('consistency', 0, 10)
    o['serial'] = V.pick('serial_consistency', [None, 8, 9])
    o['fetch'] = V.int('fetch_size', 1, (1 << 31) - 1) if V.flag('with_page_size') else None
    o['paging_state'] = V.bytes('paging_state', 2) if V.flag('with_paging_state') else None
    o['timestamp'] = V.int('timestamp', 0, (1 << 63) - 1) if V.flag('with_timestamp') else None
    o['keyspace'] = 'ks' if V.flag('with_keyspace') else None
    o['cp'] = None
    if V.flag('with_continuous_paging'):
        from cassandra.cluster import ContinuousPagingOptions
        cp = ContinuousPagingOptions(max_pages=V.int('cp_max_pages', 0, (1 << 31) - 1),
                                     max_pages_per_second=V.int('cp_pages_per_second', 0, (1 << 31) - 1),
                                     max_queue_size=V.int('cp_max_queue', 2, (1 << 31) - 1))
        o['cp'] = cp
    return o


def _expect_unsupported(pv, o, kind, payload):
    why = []
    if payload and pv < 4:
        why.append('custom payload')
    if kind == 'CREDENTIALS' and pv > 1:
        why.append('CREDENTIALS exists only in v1')
    if o is not None:
        if o.get('keyspace') is not None and not ProtocolVersion.uses_keyspace_flag(pv):
            why.append('keyspace')
        if o.get('cp') is not None and not ProtocolVersion.has_continuous_paging_support(pv):
            why.append('continuous paging')
        if pv == 1 and kind in ('QUERY', 'EXECUTE'):
            if o.get('serial'):
                why.append('serial consistency on v1')
            if o.get('fetch') or o.get('paging_state'):
                why.append('paging on v1')
    return why


def _check_query_params(V, r, pv, o, vals, label):
    cl = r.short()
    V.check(sx.eq(cl, o['cl']), label + ':consistency')
    flags = r.uint(4) if ProtocolVersion.uses_int_query_flags(pv) else r.byte()
    exp = 0
    if vals is not None:
        exp |= 0x01
    if o['fetch']:
        exp |= 0x04
    if o['paging_state']:
        exp |= 0x08
    if o['serial']:
        exp |= 0x10
    if o['timestamp'] is not None:
        exp |= 0x20
    if o['keyspace'] is not None:
        exp |= 0x80
    if o['cp'] is not None:
        exp |= 0x80000000
    V.check(sx.eq(flags, exp), label + ':flags-announce-exactly-the-fields-present', note='flags %r expected %#x' % (flags, exp))
    if vals is not None:
        _check_values(V, r, vals, label)
    if o['fetch']:
        V.check(sx.eq(r.int(), o['fetch']), label + ':page-size')
    if o['paging_state']:
        V.check(_same(r.bytes(), o['paging_state']), label + ':paging-state')
    if o['serial']:
        V.check(sx.eq(r.short(), o['serial']), label + ':serial-consistency')
    if o['timestamp'] is not None:
        V.check(sx.eq(r.long(), o['timestamp']), label + ':timestamp')
    if o['keyspace'] is not None:
        V.check(_same(r.string(), o['keyspace']), label + ':keyspace')
    if o['cp'] is not None:
        V.check(sx.eq(r.int(), o['cp'].max_pages), label + ':continuous-paging-max-pages')
        V.check(sx.eq(r.int(), o['cp'].max_pages_per_second), label + ':continuous-paging-rate')
        if pv == ProtocolVersion.DSE_V2:
            V.check(sx.eq(r.int(), o['cp'].max_queue_size), label + ':continuous-paging-queue-size')


def h_request(V, kind='QUERY', maxvals=2):
    pv = V.pick('protocol_version', VERSIONS)
    stream = V.int('stream_id', 0, 32767 if pv >= 3 else 127)
    tracing = V.flag('tracing')
    payload = {'k': V.bytes('payload_value', 1)} if V.flag('with_custom_payload') else None
    beta = V.flag('allow_beta')
    compress = V.flag('compression')
    o = None
    vals = None
    if kind == 'QUERY':
        o = _query_options(V, pv, kind)
        msg = P.QueryMessage('SELECT 1', o['cl'], o['serial'], o['fetch'], o['paging_state'], o['timestamp'], o['cp'], o['keyspace'])
    elif kind == 'EXECUTE':
        o = _query_options(V, pv, kind)
        o['keyspace'] = None
        vals = _values(V, maxvals, pv)
        msg = P.ExecuteMessage(b'\x01\x02', vals, o['cl'], o['serial'], o['fetch'], o['paging_state'], o['timestamp'],
                               False, o['cp'], b'\x09')
    elif kind == 'PREPARE':
        o = dict(keyspace='ks' if V.flag('with_keyspace') else None)
        msg = P.PrepareMessage('SELECT 1', o['keyspace'])
    elif kind == 'BATCH':
        o = dict(cl=V.int('consistency', 0, 10), serial=V.pick('serial_consistency', [None, 8, 9]),
                 timestamp=V.int('timestamp', 0, (1 << 63) - 1) if V.flag('with_timestamp') else None,
                 keyspace='ks' if V.flag('with_keyspace') else None)
        nq = V.choice('statements', maxvals) + 1
        queries = []
        for i in range(nq):
            prepared = V.flag('statement%d_prepared' % i)
            nv = V.choice('statement%d_values' % i, 2)
            ps = [V.bytes('s%d_v%d' % (i, j), 1) if not V.flag('s%d_v%d_null' % (i, j)) else None for j in range(nv)]
            queries.append((prepared, b'\x07\x08' if prepared else 'INSERT', ps))
        bt = V.pick('batch_type', [BatchType.LOGGED, BatchType.UNLOGGED, BatchType.COUNTER])
        msg = P.BatchMessage(bt, queries, o['cl'], o['serial'], o['timestamp'], o['keyspace'])
    elif kind == 'REGISTER':
        msg = P.RegisterMessage(['TOPOLOGY_CHANGE', 'STATUS_CHANGE'][:V.choice('events', 2) + 1])
    elif kind == 'STARTUP':
        opts = {'DRIVER_NAME': 'd'}
        if V.flag('startup_compression'):
            opts['COMPRESSION'] = 'lz4'
        msg = P.StartupMessage('3.4.5', opts)
    elif kind == 'OPTIONS':
        msg = P.OptionsMessage()
    elif kind == 'AUTH_RESPONSE':
        tok = V.bytes('token', V.choice('token_len', 3))
        msg = P.AuthResponseMessage(tok)
    elif kind == 'CREDENTIALS':
        msg = P.CredentialsMessage({'username': 'u', 'password': 'p'})
    elif kind == 'REVISE_REQUEST':
        op = V.pick('op_type', [1, 2])
        msg = P.ReviseRequestMessage(op, V.int('op_id', 0, 32767), next_pages=V.int('next_pages', 1, 1000))
    else:
        raise ValueError(kind)
    msg.tracing = tracing
    msg.custom_payload = payload
    comp = (lambda b: sx.cat(b'Z', b)) if compress else None
    unsupported = _expect_unsupported(pv, o, kind, payload)
    if kind == 'REVISE_REQUEST' and msg.op_type == 2 and pv != ProtocolVersion.DSE_V2:
        unsupported.append('backpressure')
    try:
        frame = ProtocolHandler.encode_message(msg, stream, pv, comp, beta)
    except UnsupportedOperation:
        V.check(bool(unsupported), kind + ':rejects-only-what-the-version-cannot-carry', note='v%d' % pv)
        return
    V.check(not unsupported, kind + ':option-the-version-cannot-carry-is-rejected-not-dropped', note='v%d: %s' % (pv, unsupported))
    ver, flags, sid, opcode, length, body = parse_header(V, frame, pv)
    V.check(ver == pv, kind + ':version-byte', note=repr(ver))
    V.check(sx.eq(sid, stream), kind + ':stream-id')
    V.check(opcode == msg.opcode, kind + ':opcode')
    V.check(sx.eq(length, len(body)), kind + ':header-length-equals-body-length', note='%r vs %d' % (length, len(body)))
    expflags = (0x02 if tracing else 0) | (0x04 if payload else 0) | (0x10 if beta else 0)
    compressed = bool(compress) and not ProtocolVersion.has_checksumming_support(pv) and len(body) > 0
    if compressed:
        expflags |= 0x01
    V.check(flags == expflags, kind + ':frame-flags', note='%r expected %#x' % (flags, expflags))
    if compressed:
        V.check(len(body) >= 1 and body[0] == ord('Z'), kind + ':body-went-through-the-compressor')
        body = body[1:]
    r = Reader(body)
    try:
        if payload:
            m = r.bytesmap()
            V.check(len(m) == 1 and _same(m[0][0], 'k') and _same(m[0][1], payload['k']), kind + ':custom-payload')
        if kind == 'QUERY':
            V.check(_same(r.longstring(), 'SELECT 1'), kind + ':query-string')
            _check_query_params(V, r, pv, o, None, kind)
        elif kind == 'EXECUTE':
            V.check(_same(r.shortbytes(), b'\x01\x02'), kind + ':statement-id')
            if pv >= 5 and pv != ProtocolVersion.DSE_V1:
                V.check(_same(r.shortbytes(), b'\x09'), kind + ':result-metadata-id')
            if pv == 1:
                _check_values(V, r, vals, kind)
                V.check(sx.eq(r.short(), o['cl']), kind + ':consistency')
            else:
                _check_query_params(V, r, pv, o, vals, kind)
        elif kind == 'PREPARE':
            V.check(_same(r.longstring(), 'SELECT 1'), kind + ':query-string')
            if pv >= 5 and pv != ProtocolVersion.DSE_V1:
                fl = r.uint(4)
                V.check(fl == (1 if o['keyspace'] else 0), kind + ':flags-announce-exactly-the-fields-present')
                if o['keyspace']:
                    V.check(_same(r.string(), 'ks'), kind + ':keyspace')
        elif kind == 'BATCH':
            V.check(r.byte() == msg.batch_type.value, kind + ':batch-type')
            V.check(r.short() == len(msg.queries), kind + ':statement-count')
            for prepared, q, ps in msg.queries:
                V.check(r.byte() == (1 if prepared else 0), kind + ':statement-kind')
                V.check(_same(r.shortbytes(), q) if prepared else _same(r.longstring(), q), kind + ':statement-text-or-id')
                _check_values(V, r, ps, kind)
            V.check(sx.eq(r.short(), o['cl']), kind + ':consistency')
            if pv >= 3:
                fl = r.uint(4) if ProtocolVersion.uses_int_query_flags(pv) else r.byte()
                exp = (0x10 if o['serial'] else 0) | (0x20 if o['timestamp'] is not None else 0) | (0x80 if o['keyspace'] else 0)
                V.check(sx.eq(fl, exp), kind + ':flags-announce-exactly-the-fields-present', note='%r expected %#x' % (fl, exp))
                if o['serial']:
                    V.check(sx.eq(r.short(), o['serial']), kind + ':serial-consistency')
                if o['timestamp'] is not None:
                    V.check(sx.eq(r.long(), o['timestamp']), kind + ':timestamp')
                if o['keyspace']:
                    V.check(_same(r.string(), 'ks'), kind + ':keyspace')
            else:
                V.check(not o['serial'] and o['timestamp'] is None or True, kind + ':v1-v2-batch-has-no-flags')
        elif kind == 'REGISTER':
            got = r.stringlist()
            V.check(len(got) == len(msg.event_list) and all(_same(a, b) for a, b in zip(got, msg.event_list)), kind + ':event-list')
        elif kind == 'STARTUP':
            got = dict((bytes(k).decode(), bytes(v).decode()) for k, v in r.stringmap())
            exp = dict(msg.options)
            exp['CQL_VERSION'] = '3.4.5'
            V.check(got == exp, kind + ':options-map', note=repr(got))
        elif kind == 'AUTH_RESPONSE':
            got = r.bytes()
            V.check(not isinstance(got, int) and _same(got, msg.response), kind + ':token')
        elif kind == 'CREDENTIALS':
            n = r.short()
            got = dict((bytes(r.string()).decode(), bytes(r.string()).decode()) for _ in range(n))
            V.check(got == msg.creds, kind + ':credentials-map')
        elif kind == 'REVISE_REQUEST':
            V.check(r.int() == msg.op_type, kind + ':op-type')
            V.check(sx.eq(r.int(), msg.op_id), kind + ':op-id')
            if msg.op_type == 2:
                V.check(sx.eq(r.int(), msg.next_pages), kind + ':next-pages')
        V.check(r.done(), kind + ':no-trailing-bytes', note='%d unread byte(s)' % (len(r.b) - r.p))
    except ValueError as e:
        V.check(False, kind + ':body-is-complete', note=str(e))


KINDS = ['QUERY', 'EXECUTE', 'PREPARE', 'BATCH', 'REGISTER', 'STARTUP', 'OPTIONS', 'AUTH_RESPONSE', 'CREDENTIALS', 'REVISE_REQUEST']


def jobs(tier):
    th = tier == 'thorough'
    o = dict(max_seconds=2400 if th else 280)
    js = []
    quiet = {'tracing': False, 'allow_beta': False, 'compression': False}
    for k in KINDS:
        if k in ('QUERY', 'EXECUTE', 'BATCH'):
            for vi in range(len(VERSIONS)):
                # the option space: frame-level flags off (they are crossed with every kind in the *-frameflags jobs)
                pf = dict(quiet)
                if k != 'QUERY':
                    pf['with_custom_payload'] = False
                js.append(Job('%s-v%d' % (k, VERSIONS[vi]), 'h_request', dict(kind=k, maxvals=3 if th else 2),
                              dict(o, pin={'protocol_version': vi}, pin_flag=pf)))
            js.append(Job('%s-frameflags' % k, 'h_request', dict(kind=k, maxvals=1),
                          dict(o, pin_flag={'with_page_size': False, 'with_paging_state': False, 'with_timestamp': True, 'with_keyspace': False,
                                            'with_continuous_paging': False, 'statement0_prepared': True}, pin={'serial_consistency': 0, 'nvalues': 0, 'statements': 0})))
        else:
            js.append(Job(k, 'h_request', dict(kind=k), o))
    return js
