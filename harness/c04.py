"""C04 — response frames decode to exactly what the server sent.

An independent specification ENCODER (written from the native-protocol
documents) produces response bodies whose kinds / flag sets are forked
symbolic choices and whose numeric fields and row values are symbolic; the real
ProtocolHandler.decode_message (instrumented protocol / cqltypes / marshal)
decodes them.
"""
import struct
import uuid
import sx
from sx.run import Job

sx.instrument('cassandra.marshal', 'cassandra.cqltypes', 'cassandra.util', 'cassandra.protocol')
from harness import kit
kit.install_reactor()
from cassandra import protocol as P
from cassandra import ProtocolVersion
import cassandra
from cassandra.protocol import ProtocolHandler
from cassandra import cqltypes as ct

META = dict(
    level='model_checking',
    level_text='response bodies are produced by an independent specification encoder with symbolic numeric fields and row values and every combination of kind, metadata flags, tracing / warnings / custom payload and protocol version as forked choices; the real decoder must return exactly the encoded contents, and errors must surface as the documented exception types with their fields; z3 decides each path for all field values',
    level_note='identifiers and messages are short concrete strings; <= 2 columns x <= 2 rows of int/text; column types of depth <= 2; the specification encoder is hand-written from native_protocol_v1..v5.spec and the DSE additions',
    technique='symbolic execution of the instrumented real protocol readers + z3 bit-vector validity per path against an independent specification encoder',
    bounds=dict(quick='ERROR: 17 codes; RESULT: void, set_keyspace, rows (8 metadata flag sets, 0..2 rows), prepared, schema_change (4 targets); EVENT x 3; SUPPORTED/READY/AUTHENTICATE/AUTH_CHALLENGE/AUTH_SUCCESS; versions {1,2,3,4,5,DSE_V1,DSE_V2}; all 8 subsets of {tracing, warnings, payload}',
                thorough='same'),
    assumptions=['the server sends well-formed bodies', 'AUTH_CHALLENGE / AUTH_SUCCESS tokens are non-null (the driver reports a null token as an empty one)'],
    stubs=[],
    outside=['compressed bodies (codec library)', 'column encryption (C39)', 'Cython decoders (C07)'],
)

VERSIONS = [1, 2, 3, 4, 5, ProtocolVersion.DSE_V1, ProtocolVersion.DSE_V2]


def encoded_functions():
    R = P.ResultMessage
    return [ProtocolHandler.decode_message, P.ErrorMessage.recv_body, R.recv_body, R.recv_results_rows, R.recv_results_metadata,
            R.recv_results_prepared, R.recv_prepared_metadata, R.recv_results_schema_change, R.read_type,
            P.EventMessage.recv_body, P.SupportedMessage.recv_body, P.AuthenticateMessage.recv_body,
            P.AuthChallengeMessage.recv_body, P.AuthSuccessMessage.recv_body, P.UnavailableErrorMessage.recv_error_info,
            P.ReadTimeoutErrorMessage.recv_error_info, P.WriteTimeoutErrorMessage.recv_error_info,
            P.ReadFailureMessage.recv_error_info, P.WriteFailureMessage.recv_error_info]


# ---- specification encoder primitives (lists of byte items; ints may be symbolic)
def u(v, n):
    return [(v >> (8 * (n - 1 - i))) & 0xff for i in range(n)]


def s_string(s):
    b = s.encode('utf8')
    return u(len(b), 2) + list(b)


def s_longstring(s):
    b = s.encode('utf8')
    return u(len(b), 4) + list(b)


def s_bytes(b):
    if b is None:
        return u(-1, 4)
    items = sx.blist(b)
    return u(len(items), 4) + items


def s_shortbytes(b):
    return u(len(b), 2) + list(b)


def s_stringlist(xs):
    out = u(len(xs), 2)
    for x in xs:
        out += s_string(x)
    return out


def s_inet(addr, port=None):
    parts = [int(x) for x in addr.split('.')]
    out = [4] + parts
    if port is not None:
        out += u(port, 4)
    return out


TRACE = bytes(range(16))


def _envelope(V, pv):
    tracing = V.flag('tracing')
    warn = V.flag('warnings') if pv >= 4 else False
    payload = V.flag('custom_payload') if pv >= 4 else False
    flags = (0x02 if tracing else 0) | (0x08 if warn else 0) | (0x04 if payload else 0)
    pre = []
    if tracing:
        pre += list(TRACE)
    if warn:
        pre += s_stringlist(['w1', 'w2'])
    pval = None
    if payload:
        pval = V.bytes('payload', 2)
        pre += u(1, 2) + s_string('pk') + s_bytes(pval)
    return flags, pre, tracing, warn, pval


def _decode(pv, flags, opcode, body, result_metadata=None):
    return ProtocolHandler.decode_message(pv, {}, 7, flags, opcode, sx.cat(body) if body else b'', None, result_metadata)


def _check_envelope(V, msg, tracing, warn, pval, what):
    V.check(msg.stream_id == 7, what + ':stream-id')
    V.check((msg.trace_id == uuid.UUID(bytes=TRACE)) if tracing else msg.trace_id is None, what + ':trace-id')
    V.check(msg.warnings == (['w1', 'w2'] if warn else None), what + ':warnings', note=repr(msg.warnings))
    if pval is not None:
        cp = msg.custom_payload
        V.check(cp is not None and list(cp.keys()) == ['pk'] and sx.beq(cp['pk'], pval), what + ':custom-payload', note=repr(cp))
    else:
        V.check(msg.custom_payload is None, what + ':custom-payload')


ERRORS = [
    (0x0000, 'ServerError', None), (0x000A, 'ProtocolException', None), (0x0100, 'BadCredentials', None),
    (0x1000, 'UnavailableErrorMessage', 'unavailable'), (0x1001, 'OverloadedErrorMessage', None),
    (0x1002, 'IsBootstrappingErrorMessage', None), (0x1003, 'TruncateError', None),
    (0x1100, 'WriteTimeoutErrorMessage', 'write_timeout'), (0x1200, 'ReadTimeoutErrorMessage', 'read_timeout'),
    (0x1300, 'ReadFailureMessage', 'read_failure'), (0x1400, 'FunctionFailureMessage', 'function_failure'),
    (0x1500, 'WriteFailureMessage', 'write_failure'), (0x2000, 'SyntaxException', None),
    (0x2100, 'UnauthorizedErrorMessage', None), (0x2200, 'InvalidRequestException', None),
    (0x2300, 'ConfigurationException', None), (0x2400, 'AlreadyExistsException', 'already_exists'),
    (0x2500, 'PreparedQueryNotFound', 'unprepared'),
]
WRITE_TYPES = ['SIMPLE', 'BATCH', 'UNLOGGED_BATCH', 'COUNTER', 'BATCH_LOG', 'CAS', 'VIEW', 'CDC']


def h_error(V, idx=0):
    pv = V.pick('protocol_version', VERSIONS)
    code, clsname, shape = ERRORS[idx]
    flags, pre, tracing, warn, pval = _envelope(V, pv)
    body = pre + u(code, 4) + s_string('boom')
    cl = V.int('consistency', 0, 10)
    a = V.int('count_a', 0, (1 << 31) - 1)
    b = V.int('count_b', 0, (1 << 31) - 1)
    exp = {}
    if shape == 'unavailable':
        body += u(cl, 2) + u(a, 4) + u(b, 4)
        exp = dict(consistency=cl, required_replicas=a, alive_replicas=b)
    elif shape == 'write_timeout':
        wt = V.pick('write_type', WRITE_TYPES)
        body += u(cl, 2) + u(a, 4) + u(b, 4) + s_string(wt)
        exp = dict(consistency=cl, received_responses=a, required_responses=b, write_type=cassandra.policies.WriteType.name_to_value[wt])
    elif shape == 'read_timeout':
        dp = V.int('data_present', 0, 255)
        body += u(cl, 2) + u(a, 4) + u(b, 4) + [dp]
        exp = dict(consistency=cl, received_responses=a, required_responses=b, data_retrieved=(dp != 0))
    elif shape in ('read_failure', 'write_failure'):
        body += u(cl, 2) + u(a, 4) + u(b, 4)
        nf = V.choice('failures', 3)
        codemap = None
        if ProtocolVersion.uses_error_code_map(pv):
            body += u(nf, 4)
            codemap = {}
            for i in range(nf):
                rc = V.int('reason%d' % i, 0, 1)          # rendered into the exception text by the driver: kept small
                body += s_inet('10.0.0.%d' % (i + 1)) + u(rc, 2)
                codemap['10.0.0.%d' % (i + 1)] = rc
        else:
            body += u(nf, 4)
        exp = dict(consistency=cl, received_responses=a, required_responses=b, failures=nf, error_code_map=codemap)
        if shape == 'read_failure':
            dp = V.int('data_present', 0, 255)
            body += [dp]
            exp['data_retrieved'] = (dp != 0)
        else:
            wt = V.pick('write_type', WRITE_TYPES)
            body += s_string(wt)
            exp['write_type'] = cassandra.policies.WriteType.name_to_value[wt]
    elif shape == 'function_failure':
        body += s_string('ks') + s_string('fn') + s_stringlist(['int', 'text'])
        exp = dict(keyspace='ks', function='fn', arg_types=['int', 'text'])
    elif shape == 'already_exists':
        body += s_string('ks') + s_string('tbl')
        exp = dict(keyspace='ks', table='tbl')
    elif shape == 'unprepared':
        body += s_shortbytes(b'\x01\x02')
        exp = b'\x01\x02'
    msg = _decode(pv, flags, 0x00, body)
    V.check(type(msg).__name__ == clsname, 'ERROR:decodes-to-the-documented-message-type', note='%#x -> %s' % (code, type(msg).__name__))
    V.check(msg.code == code and msg.message == 'boom', 'ERROR:code-and-message')
    _check_envelope(V, msg, tracing, warn, pval, 'ERROR')
    if isinstance(exp, dict) and exp:
        info = msg.info
        for k, want in exp.items():
            got = info.get(k)
            if isinstance(want, dict):
                V.check(got is not None and set(got) == set(want) and sx.land(*[sx.eq(got[x], want[x]) for x in want]), 'ERROR:field-' + k, note=repr(got))
            elif want is None:
                V.check(got is None, 'ERROR:field-' + k)
            elif isinstance(want, bool) or hasattr(want, 'z'):
                V.check(sx.iff(got, want), 'ERROR:field-' + k)
            else:
                V.check(sx.eq(got, want) if not isinstance(want, (str, list)) else got == want, 'ERROR:field-' + k, note='%r vs %r' % (got, want))
    elif isinstance(exp, bytes):
        V.check(msg.info == exp, 'ERROR:field-statement-id')
    exc = msg.to_exception()
    expected_exc = {'unavailable': cassandra.Unavailable, 'write_timeout': cassandra.WriteTimeout, 'read_timeout': cassandra.ReadTimeout,
                    'read_failure': cassandra.ReadFailure, 'write_failure': cassandra.WriteFailure,
                    'function_failure': cassandra.FunctionFailure, 'already_exists': cassandra.AlreadyExists}.get(shape)
    if clsname == 'UnauthorizedErrorMessage':
        expected_exc = cassandra.Unauthorized
    if clsname == 'InvalidRequestException':
        expected_exc = cassandra.InvalidRequest
    if expected_exc is not None:
        V.check(isinstance(exc, expected_exc), 'ERROR:surfaces-as-the-documented-exception', note=repr(exc))
        if shape in ('unavailable', 'write_timeout', 'read_timeout', 'read_failure', 'write_failure'):
            V.check(sx.eq(exc.consistency, cl), 'ERROR:exception-keeps-its-fields')
    else:
        V.check(isinstance(exc, Exception), 'ERROR:surfaces-as-the-documented-exception')


CQLNAME = {'text': 'varchar'}          # type code 0x000D is varchar
TYPE_CODES = {'int': (0x0009, ct.Int32Type), 'text': (0x000D, ct.UTF8Type), 'bigint': (0x0002, ct.LongType)}


def s_type(kind):
    if kind in TYPE_CODES:
        return u(TYPE_CODES[kind][0], 2)
    if kind == 'list<int>':
        return u(0x0020, 2) + s_type('int')
    if kind == 'map<text,int>':
        return u(0x0021, 2) + s_type('text') + s_type('int')
    if kind == 'tuple<int,text>':
        return u(0x0031, 2) + u(2, 2) + s_type('int') + s_type('text')
    raise ValueError(kind)


def h_rows(V):
    pv = V.pick('protocol_version', VERSIONS)
    flags, pre, tracing, warn, pval = _envelope(V, pv)
    glob = V.flag('global_tables_spec')
    more = V.flag('has_more_pages')
    nometa = V.flag('no_metadata')
    newid = V.flag('metadata_changed') if (pv >= 5 and pv != ProtocolVersion.DSE_V1 and not nometa) else False
    ncols = V.choice('columns', 2) + 1
    kinds = [V.pick('coltype%d' % i, ['int', 'text', 'list<int>']) for i in range(ncols)]
    mflags = (1 if glob else 0) | (2 if more else 0) | (4 if nometa else 0) | (8 if newid else 0)
    body = pre + u(2, 4) + u(mflags, 4) + u(ncols, 4)
    ps = None
    if more:
        ps = V.bytes('paging_state', 2)
        body += s_bytes(ps)
    if newid:
        body += s_shortbytes(b'\x0a\x0b')
    if not nometa:
        if glob:
            body += s_string('ks') + s_string('tbl')
        for i, k in enumerate(kinds):
            if not glob:
                body += s_string('ks%d' % i) + s_string('t%d' % i)
            body += s_string('c%d' % i) + s_type(k)
    nrows = V.choice('rows', 3)
    body += u(nrows, 4)
    exp_rows = []
    for r in range(nrows):
        row = []
        for i, k in enumerate(kinds):
            if V.flag('null_r%d_c%d' % (r, i)):
                body += u(-1, 4)
                row.append(None)
            elif k == 'int':
                v = V.int('v_r%d_c%d' % (r, i), -(1 << 31), (1 << 31) - 1)
                body += u(4, 4) + u(v, 4)
                row.append(v)
            elif k == 'text':
                body += u(2, 4) + [0x68, 0x69]
                row.append('hi')
            else:
                v = V.int('v_r%d_c%d' % (r, i), -(1 << 31), (1 << 31) - 1)
                w = 4 if pv >= 3 else 2           # collection lengths are 16 bit before protocol v3
                inner = u(1, w) + u(4, w) + u(v, 4)
                body += u(len(inner), 4) + inner
                row.append([v])
        exp_rows.append(row)
    known = None
    if nometa:
        known = [('ks', 'tbl', 'c%d' % i, _coltype(k)) for i, k in enumerate(kinds)]
    msg = _decode(pv, flags, 0x08, body, known)
    _check_envelope(V, msg, tracing, warn, pval, 'ROWS')
    V.check(msg.kind == 2, 'ROWS:kind')
    V.check((sx.beq(msg.paging_state, ps) if more else msg.paging_state is None), 'ROWS:paging-state')
    V.check(msg.column_names == ['c%d' % i for i in range(ncols)], 'ROWS:column-names', note=repr(msg.column_names))
    expnames = [t[3].cql_parameterized_type() for t in known] if nometa else [CQLNAME.get(k, k) for k in kinds]
    V.check([t.cql_parameterized_type() for t in msg.column_types] == expnames, 'ROWS:column-types',
            note=repr([t.cql_parameterized_type() for t in msg.column_types]))
    if not nometa:
        md = msg.column_metadata
        V.check([(m[0], m[1]) for m in md] == [('ks', 'tbl') if glob else ('ks%d' % i, 't%d' % i) for i in range(ncols)], 'ROWS:table-spec')
    if newid:
        V.check(getattr(msg, 'result_metadata_id', None) == b'\x0a\x0b', 'ROWS:new-metadata-id')
    rows = msg.parsed_rows
    V.check(len(rows) == nrows, 'ROWS:row-count')
    for got, want in zip(rows, exp_rows):
        for g, w in zip(got, want):
            if w is None:
                V.check(g is None, 'ROWS:null-value')
            elif isinstance(w, list):
                V.check(g is not None and len(g) == 1 and sx.eq(g[0], w[0]), 'ROWS:collection-value')
            elif isinstance(w, str):
                V.check(g == w, 'ROWS:text-value')
            else:
                V.check(sx.eq(g, w), 'ROWS:int-value')


def _coltype(k):
    if k in TYPE_CODES:
        return TYPE_CODES[k][1]
    return ct.ListType.apply_parameters([ct.Int32Type])


def h_result_misc(V):
    pv = V.pick('protocol_version', VERSIONS)
    flags, pre, tracing, warn, pval = _envelope(V, pv)
    kind = V.pick('kind', ['void', 'set_keyspace', 'prepared', 'schema_keyspace', 'schema_table', 'schema_type', 'schema_function'])
    if kind == 'void':
        msg = _decode(pv, flags, 0x08, pre + u(1, 4))
        V.check(msg.kind == 1, 'RESULT:void')
    elif kind == 'set_keyspace':
        msg = _decode(pv, flags, 0x08, pre + u(3, 4) + s_string('ks9'))
        V.check(msg.kind == 3 and msg.new_keyspace == 'ks9', 'RESULT:set-keyspace')
    elif kind == 'prepared':
        body = pre + u(4, 4) + s_shortbytes(b'\x11\x22')
        has_mid = pv >= 5 and pv != ProtocolVersion.DSE_V1
        if has_mid:
            body += s_shortbytes(b'\x33')
        nb = V.choice('bind_columns', 3)
        glob = V.flag('global_tables_spec')
        body += u(1 if glob else 0, 4) + u(nb, 4)
        pk = None
        if pv >= 4:
            npk = V.choice('pk_count', nb + 1)
            pk = [V.int('pk%d' % i, 0, 32767) for i in range(npk)]
            body += u(npk, 4)
            for x in pk:
                body += u(x, 2)
        if glob:
            body += s_string('ks') + s_string('tbl')
        for i in range(nb):
            if not glob:
                body += s_string('ks') + s_string('tbl')
            body += s_string('b%d' % i) + s_type(['int', 'text', 'bigint'][i])
        if pv >= 2:
            # result metadata: one int column, global spec
            body += u(1, 4) + u(1, 4) + s_string('ks') + s_string('tbl') + s_string('r0') + s_type('int')
        msg = _decode(pv, flags, 0x08, body)
        V.check(msg.kind == 4 and msg.query_id == b'\x11\x22', 'RESULT:prepared-id')
        V.check(msg.result_metadata_id == (b'\x33' if has_mid else None), 'RESULT:prepared-result-metadata-id')
        V.check([(c.keyspace_name, c.table_name, c.name, c.type.cql_parameterized_type()) for c in msg.bind_metadata] ==
                [('ks', 'tbl', 'b%d' % i, ['int', 'varchar', 'bigint'][i]) for i in range(nb)], 'RESULT:prepared-bind-metadata')
        if pk is not None:
            V.check(len(msg.pk_indexes) == len(pk) and sx.land(*[sx.eq(a, b) for a, b in zip(msg.pk_indexes, pk)]), 'RESULT:prepared-pk-indexes')
        else:
            V.check(msg.pk_indexes is None, 'RESULT:prepared-pk-indexes')
        if pv >= 2:
            V.check([c[2] for c in msg.column_metadata] == ['r0'], 'RESULT:prepared-result-metadata')
    else:
        target = kind.split('_')[1].upper()
        body = pre + u(5, 4) + s_string('UPDATED')
        if pv >= 3:
            body += s_string(target) + s_string('ks')
            if target != 'KEYSPACE':
                body += s_string('obj')
                if target == 'FUNCTION':
                    body += s_stringlist(['int'])
        else:
            body += s_string('ks') + s_string('' if target == 'KEYSPACE' else 'obj')
            if target in ('TYPE', 'FUNCTION'):
                target = 'TABLE'
        msg = _decode(pv, flags, 0x08, body)
        ev = msg.schema_change_event
        V.check(msg.kind == 5 and ev['change_type'] == 'UPDATED' and ev['keyspace'] == 'ks' and ev['target_type'] == target,
                'RESULT:schema-change', note=repr(ev))
        if target == 'TABLE':
            V.check(ev.get('table') == 'obj', 'RESULT:schema-change-target')
        if target == 'TYPE':
            V.check(ev.get('type') == 'obj', 'RESULT:schema-change-target')
        if target == 'FUNCTION':
            V.check(ev['function'].name == 'obj' and ev['function'].argument_types == ['int'], 'RESULT:schema-change-target', note=repr(ev))
    _check_envelope(V, msg, tracing, warn, pval, 'RESULT')


def h_other(V):
    pv = V.pick('protocol_version', VERSIONS)
    flags, pre, tracing, warn, pval = _envelope(V, pv)
    kind = V.pick('kind', ['READY', 'SUPPORTED', 'AUTHENTICATE', 'AUTH_CHALLENGE', 'AUTH_SUCCESS', 'EVENT_STATUS', 'EVENT_TOPOLOGY', 'EVENT_SCHEMA'])
    if kind == 'READY':
        msg = _decode(pv, flags, 0x02, pre)
        V.check(type(msg).__name__ == 'ReadyMessage', 'READY')
    elif kind == 'SUPPORTED':
        body = pre + u(2, 2) + s_string('CQL_VERSION') + s_stringlist(['3.4.5']) + s_string('COMPRESSION') + s_stringlist(['lz4', 'snappy'])
        msg = _decode(pv, flags, 0x06, body)
        V.check(msg.cql_versions == ['3.4.5'] and msg.options == {'COMPRESSION': ['lz4', 'snappy']}, 'SUPPORTED', note=repr(msg.options))
    elif kind == 'AUTHENTICATE':
        msg = _decode(pv, flags, 0x03, pre + s_string('a.b.Auth'))
        V.check(msg.authenticator == 'a.b.Auth', 'AUTHENTICATE')
    elif kind in ('AUTH_CHALLENGE', 'AUTH_SUCCESS'):
        if kind == 'AUTH_CHALLENGE':
            tok = V.bytes('token', 2)
            msg = _decode(pv, flags, 0x0E, pre + s_bytes(tok))
            V.check(sx.beq(msg.challenge, tok), kind + ':token', note=repr(msg.challenge))
        else:
            msg = _decode(pv, flags, 0x10, pre + s_bytes(b'ok'))
            V.check(msg.token in ('ok', b'ok'), kind + ':token', note=repr(msg.token))
    else:
        port = V.int('port', 0, 65535)
        if kind == 'EVENT_STATUS':
            msg = _decode(pv, flags, 0x0C, pre + s_string('STATUS_CHANGE') + s_string('DOWN') + s_inet('10.1.2.3', port))
            a = msg.event_args
            V.check(msg.event_type == 'STATUS_CHANGE' and a['change_type'] == 'DOWN' and a['address'][0] == '10.1.2.3' and sx.eq(a['address'][1], port) is not False,
                    'EVENT:status-change', note=repr(a))
            V.check(sx.eq(a['address'][1], port), 'EVENT:port')
        elif kind == 'EVENT_TOPOLOGY':
            msg = _decode(pv, flags, 0x0C, pre + s_string('TOPOLOGY_CHANGE') + s_string('NEW_NODE') + s_inet('10.1.2.4', port))
            a = msg.event_args
            V.check(msg.event_type == 'TOPOLOGY_CHANGE' and a['change_type'] == 'NEW_NODE' and a['address'][0] == '10.1.2.4', 'EVENT:topology-change')
            V.check(sx.eq(a['address'][1], port), 'EVENT:port')
        else:
            if pv >= 3:
                body = s_string('SCHEMA_CHANGE') + s_string('CREATED') + s_string('TABLE') + s_string('ks') + s_string('t')
            else:
                body = s_string('SCHEMA_CHANGE') + s_string('CREATED') + s_string('ks') + s_string('t')
            msg = _decode(pv, flags, 0x0C, pre + body)
            a = msg.event_args
            V.check(msg.event_type == 'SCHEMA_CHANGE' and a['change_type'] == 'CREATED' and a['keyspace'] == 'ks' and a.get('table') == 't', 'EVENT:schema-change', note=repr(a))
    _check_envelope(V, msg, tracing, warn, pval, kind.split('_')[0])


def jobs(tier):
    o = dict(max_seconds=1500 if tier == 'thorough' else 280)
    js = []
    for i, (code, name, shape) in enumerate(ERRORS):
        oo = o
        if shape in ('read_failure', 'write_failure'):
            # the tracing/warnings/payload envelope is crossed with every other error; keep these two smaller
            oo = dict(o, pin_flag={'tracing': False, 'warnings': False, 'custom_payload': True})
        js.append(Job('error-%04x' % code, 'h_error', dict(idx=i), oo))
    for vi in range(len(VERSIONS)):
        js.append(Job('rows-v%d' % VERSIONS[vi], 'h_rows', {}, dict(o, pin={'protocol_version': vi}, pin_flag={'tracing': False, 'warnings': False, 'custom_payload': False})))
    js.append(Job('rows-envelope', 'h_rows', {}, dict(o, pin={'columns': 0, 'rows': 1, 'coltype0': 0}, pin_flag={'global_tables_spec': True, 'has_more_pages': False, 'no_metadata': False, 'metadata_changed': False})))
    js.append(Job('result-misc', 'h_result_misc', {}, o))
    js.append(Job('other', 'h_other', {}, o))
    return js
