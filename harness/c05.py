"""C05 — incoming frames are reassembled exactly under any TCP chunking (protocol v1-v4)."""
import sx
from sx.run import Job

sx.instrument('cassandra.protocol', 'cassandra.marshal', 'cassandra.connection')
from harness import kit
kit.install_reactor()
import cassandra.connection as cconn
from cassandra.connection import Connection

META = dict(
    level='model_checking',
    level_text='the byte stream of 1..3 frames (versions, stream ids incl. negative event ids, opcodes, body lengths and bodies symbolic) is delivered in reads cut at every position; the real (instrumented) Connection.process_io_buffer/_read_frame_header run on the symbolic bytes and z3 decides that each frame reaches the handler of its own stream exactly once, in order, with its body unchanged',
    level_note='decoding of the body is replaced by an identity decoder (C04 covers decoding); registered handlers are plain recorders; transport faked',
    technique='symbolic execution of the instrumented real connection buffer code over solver-enumerated split positions + z3 bit-vector validity per path',
    bounds=dict(quick='1..2 frames, protocol versions 1..4 symbolic per frame, body length 0..2, <= 3 reads (1 frame) / 2 reads (2 frames), every cut position; stream ids: full signed range of the version',
                thorough='1..3 frames, <= 4 reads, body length 0..3'),
    assumptions=['the peer sends well-formed frames'],
    stubs=['transport: harness kit', 'body decoder: identity'],
    outside=['v5 segments (C06)', 'malformed frames'],
)


def encoded_functions():
    return [Connection.process_io_buffer, Connection._read_frame_header, Connection.process_msg, Connection.handle_pushed]


def _identity_decoder(version, user_type_map, stream_id, flags, opcode, body, decompressor, result_metadata):
    return ('decoded', version, stream_id, flags, opcode, body)


class Event(object):
    def __init__(self, body):
        self.event_type = 'STATUS_CHANGE'
        self.event_args = body


def _event_decoder(version, user_type_map, stream_id, flags, opcode, body, decompressor, result_metadata):
    return Event(('decoded', version, stream_id, flags, opcode, body))


def _frame(V, i, maxbody):
    ver = V.pick('version%d' % i, [1, 2, 3, 4])
    blen = V.choice('blen%d' % i, maxbody + 1)
    body = V.bytes('body%d' % i, blen)
    flags = V.int('flags%d' % i, 0, 255)
    opcode = V.pick('opcode%d' % i, [0x08, 0x00])
    is_event = V.flag('event%d' % i)
    if ver >= 3:
        stream = -1 if is_event else V.int('stream%d' % i, 0, 32767)
        sb = [(stream >> 8) & 0xff, stream & 0xff]
    else:
        stream = -1 if is_event else V.int('stream%d' % i, 0, 127)
        sb = [stream & 0xff]
    hdr = [0x80 | ver, flags] + sb + [0x0C if is_event else opcode, 0, 0, 0, blen]
    return dict(version=ver, stream=stream, flags=flags, opcode=0x0C if is_event else opcode, body=body,
                event=is_event, wire=sx.cat(hdr, body))


def h_reassembly(V, nframes=1, nreads=2, maxbody=2):
    kit.World()
    conn = kit.FakeConnection('10.0.0.1', protocol_version=4)
    frames = [_frame(V, i, maxbody) for i in range(nframes)]
    got = []          # (slot, response)
    pushed = []
    conn._push_watchers['STATUS_CHANGE'].add(lambda args: pushed.append(args))
    # a handler is registered for every non-event stream (concrete id needed as dict key)
    conn._requests = kit.SymDict()
    conn._continuous_paging_sessions = kit.SymDict()
    conn.orphaned_request_ids = kit.SymSet()
    for i, f in enumerate(frames):
        if not f['event']:
            sid = f['stream']
            f['sid'] = sid
            for g in frames[:i]:
                if not g['event']:
                    V.assume(sx.lnot(sx.eq(g['stream'], sid)))    # outstanding requests never share a stream id (C09)
            conn._requests[sid] = (lambda resp, i=i: got.append((i, resp)), _identity_decoder, None)
    orig = cconn.ProtocolHandler.decode_message
    cconn.ProtocolHandler.decode_message = staticmethod(_event_decoder)
    try:
        stream = sx.cat(*[f['wire'] for f in frames])
        n = len(stream)
        cuts = []
        prev = 0
        for r in range(nreads - 1):
            c = sx.conc(V.int('cut%d' % r, 0, n))
            V.assume(c >= prev)
            prev = c
            cuts.append(c)
        cuts.append(n)
        items = sx.blist(stream)
        pos = 0
        for c in cuts:
            if c > pos:
                conn._iobuf.write(sx.cat(items[pos:c]))
                conn.process_io_buffer()
                # nothing is delivered for a frame that is not complete yet
                complete = 0
                off = 0
                for f in frames:
                    off += len(f['wire'])
                    if off <= c:
                        complete += 1
                V.check(len(got) + len(pushed) == complete, 'delivered-exactly-the-complete-frames',
                        note='%d delivered, %d complete after %d bytes' % (len(got) + len(pushed), complete, c))
            pos = c
        V.tag('cuts', cuts)
        V.check(not conn.is_defunct, 'valid-stream-does-not-defunct', note=repr(conn.last_error))
        order = []
        for i, f in enumerate(frames):
            if f['event']:
                mine = [p for p in pushed if p[5] is not None]
            else:
                mine = [r for (slot, r) in got if slot == i]
                V.check(len(mine) == 1, 'each-frame-reaches-its-own-handler-exactly-once', note='frame %d: %d deliveries' % (i, len(mine)))
                if mine:
                    r = mine[0]
                    V.check(r[1] == f['version'] and sx.eq(r[2], f['stream']) is not False, 'header-fields-delivered')
                    V.check(sx.eq(r[3], f['flags']), 'flags-delivered')
                    V.check(r[4] == f['opcode'], 'opcode-delivered')
                    V.check(sx.beq(r[5], f['body']), 'body-delivered-unchanged')
        nev = sum(1 for f in frames if f['event'])
        V.check(len(pushed) == nev, 'events-reach-push-watchers', note='%d pushed, %d event frames' % (len(pushed), nev))
        evs = [f for f in frames if f['event']]
        for p, f in zip(pushed, evs):
            V.check(sx.beq(p[5], f['body']) and p[2] == -1, 'event-body-delivered-unchanged')
        V.check([slot for slot, r in got] == [i for i, f in enumerate(frames) if not f['event']], 'frames-delivered-in-order')
        for i, f in enumerate(frames):
            if not f['event']:
                V.check(f['sid'] not in conn._requests, 'handler-removed-after-delivery')
    finally:
        cconn.ProtocolHandler.decode_message = orig


def jobs(tier):
    th = tier == 'thorough'
    o = dict(max_seconds=1500 if th else 280)
    js = []
    cfgs = [(1, 1, 2), (1, 2, 2), (1, 3, 1), (2, 2, 1)] + ([(1, 4, 2), (2, 3, 2), (3, 2, 1)] if th else [])
    for nf, nr, mb in cfgs:
        for v in range(4):
            js.append(Job('f%d-r%d-v%d' % (nf, nr, v + 1), 'h_reassembly', dict(nframes=nf, nreads=nr, maxbody=mb),
                          dict(o, pin={'version0': v}, conc_cap=300)))
    return js
