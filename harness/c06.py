"""C06 — protocol v5 segments are reassembled exactly and corruption is detected."""
import sx
from sx.run import Job

sx.instrument('cassandra.segment', 'cassandra.protocol', 'cassandra.marshal', 'cassandra.connection')
from harness import kit
kit.install_reactor()
from cassandra import segment as seg
from cassandra.segment import SegmentCodec, Segment, CrcException
import cassandra.connection as cconn
from cassandra.connection import CrcMismatchException

META = dict(
    level='model_checking',
    level_text='segment header fields, payload bytes and the TCP read boundaries are symbolic; the real (instrumented) segment codec and Connection.process_io_buffer run on them and z3 decides, for all values, that what is delivered equals what was framed and that a flipped bit is never delivered as data',
    level_note='CRC-24 is the driver\'s own loop (if-converted, bit-precise); CRC-32 is a bit-precise model of zlib.crc32 validated against zlib; the LZ4 codec is a stub (arbitrary output of arbitrary length with an exact inverse); detection of a flipped data bit relies on the CRCs\' single-bit-error detection, discharged by z3 only for the sizes listed',
    technique='symbolic execution of the instrumented real cassandra/segment.py and connection buffer code (if-conversion keeps the CRC loops branch-free) + z3 bit-vector validity per path',
    bounds=dict(quick='header: payload length, uncompressed length in [0,131071], both flags, both codecs, all values at once; payload round trip: 1 frame of body length 0..2 cut into <= 2 reads, 1 frame of body length 0..1 cut into 3 reads, 2 frames of body length 0..1 cut into 2 reads, at every cut position; two frames in one segment; multi-segment messages with MAX_PAYLOAD_LENGTH patched to 7; corruption: any single bit of header / header CRC / payload CRC, and of a payload of <= 2 bytes',
                thorough='<= 4 reads, body length 0..4, payload corruption <= 4 bytes'),
    assumptions=['a compressor returns some byte string and its decompressor inverts it'],
    stubs=['zlib.crc32 -> bit-precise model', 'lz4 -> symbolic stub codec', 'Connection.process_msg -> recorder (decoding is C04)'],
    outside=['payloads longer than the bound', 'real LZ4'],
)

MAXP = 131071


def encoded_functions():
    from cassandra.connection import Connection, _ConnectionIOBuffer
    return [seg.compute_crc24, SegmentCodec.encode_header, SegmentCodec.decode_header, SegmentCodec._encode_segment,
            SegmentCodec.encode, SegmentCodec.decode, seg.SegmentHeader.segment_length.fget,
            Connection.process_io_buffer, Connection._process_segment_buffer, Connection._read_frame_header,
            _ConnectionIOBuffer.reset_io_buffer, _ConnectionIOBuffer.reset_cql_frame_buffer]


def spec_crc24(data, nbytes):
    """CRC-24 of the header as in the native protocol v5 spec (init 0x875060, poly 0x1974F0B), branch-free"""
    crc = 0x875060
    for i in range(nbytes):
        crc = crc ^ (((data >> (8 * i)) & 0xff) << 16)
        for _ in range(8):
            crc = crc << 1
            crc = sx.ite((crc & 0x1000000) != 0, crc ^ 0x1974F0B, crc)
    return crc


def _codec(compression):
    if compression:
        return SegmentCodec(lambda d: d, lambda d: d)
    return SegmentCodec()


def h_header(V, compression=False):
    codec = _codec(compression)
    plen = V.int('payload_length', 0, MAXP)
    ulen = V.int('uncompressed_length', 0, MAXP) if compression else 0
    sc = V.bool('self_contained')
    buf = sx.bytesio()
    codec.encode_header(buf, plen, ulen, sc)
    raw = buf.getvalue()
    hl = 5 if compression else 3
    V.check(len(raw) == hl + 3, 'header-length')
    # layout per the v5 spec
    word = plen | (ulen << 17) if compression else plen
    word = sx.ite(sc, word | (1 << (34 if compression else 17)), word)
    got = 0
    for i, b in enumerate(sx.blist(raw)[:hl]):
        got = got | (b << (8 * i))
    V.check(sx.eq(got, word), 'header-layout-matches-spec')
    crc = 0
    for i, b in enumerate(sx.blist(raw)[hl:]):
        crc = crc | (b << (8 * i))
    V.check(sx.eq(crc, spec_crc24(word, hl) & 0xFFFFFF), 'header-crc24-matches-spec')
    buf.seek(0)
    h = codec.decode_header(buf)
    V.check(sx.eq(h.payload_length, plen), 'decoded-payload-length')
    V.check(sx.iff(h.is_self_contained, sc), 'decoded-self-contained-flag')
    if compression:
        V.check(sx.eq(h.uncompressed_payload_length, ulen), 'decoded-uncompressed-length')
    # the whole segment on the wire: header + crc24 + payload + crc32
    V.check(sx.eq(h.segment_length, hl + 3 + plen + 4), 'segment-length-is-header+crc+payload+crc',
            note='compression=%s' % compression)
    # too long a payload is refused
    try:
        codec.encode_header(sx.bytesio(), MAXP + 1 + V.int('excess', 0, 10), 0, True)
        V.check(False, 'oversized-payload-refused')
    except Exception:
        V.check(True, 'oversized-payload-refused')


class Recorder(kit.FakeConnection):
    def __init__(self, *a, **k):
        kit.FakeConnection.__init__(self, *a, **k)
        self.delivered = []

    def process_msg(self, header, body):
        self.delivered.append((header.stream, header.opcode, body))


def _frame(V, i, blen):
    """one v5 response frame: 9-byte header + body (symbolic stream low byte, opcode, body)"""
    body = V.bytes('body%d' % i, blen)
    stream = V.int('stream%d' % i, 0, 255)
    hdr = [0x85, 0x00, 0x00, stream, 0x08, 0, 0, 0, blen]
    return sx.cat(bytes(hdr[:3]), [stream], bytes(hdr[4:])) if V.symbolic else bytes(hdr), body, stream


def _mkconn(compression=False):
    kit.World()
    c = Recorder('10.0.0.1', protocol_version=5)
    if compression:
        c.compressor = lambda d: d
    c._enable_checksumming()
    if compression:
        c._segment_codec = _codec(True)
    return c


def _feed(V, conn, stream, nreads):
    """deliver `stream` in nreads reads cut at symbolic positions"""
    n = len(stream)
    cuts = []
    prev = 0
    for r in range(nreads - 1):
        c = sx.conc(V.int('cut%d' % r, 0, n))
        V.assume(c >= prev)
        prev = c
        cuts.append(c)
    cuts.append(n)
    pos = 0
    items = sx.blist(stream)
    for c in cuts:
        if c > pos:
            conn._iobuf.write(sx.cat(items[pos:c]))
            conn.process_io_buffer()
        pos = c
    V.tag('cuts', cuts)


def h_roundtrip(V, nframes=1, nreads=2, maxbody=2, small_segments=False, same_segment=False):
    conn = _mkconn()
    codec = conn._segment_codec
    old = Segment.MAX_PAYLOAD_LENGTH
    if small_segments:
        Segment.MAX_PAYLOAD_LENGTH = 7            # of the form 2^k-1: the codec also uses it as the length mask
    try:
        frames = []
        for i in range(nframes):
            blen = V.choice('blen%d' % i, maxbody + 1)
            frames.append(_frame(V, i, blen))
        wire = sx.bytesio()
        if same_segment:
            codec.encode(wire, sx.cat(*[sx.cat(h, b) for h, b, s in frames]))
        else:
            for h, b, s in frames:
                codec.encode(wire, sx.cat(h, b))
        stream = wire.getvalue()
        _feed(V, conn, stream, nreads)
        V.check(not conn.is_defunct, 'valid-stream-does-not-defunct', note=repr(conn.last_error))
        V.check(len(conn.delivered) == nframes, 'every-frame-delivered-exactly-once',
                note='%d of %d delivered' % (len(conn.delivered), nframes))
        for (h, b, s), d in zip(frames, conn.delivered):
            V.check(sx.eq(d[0], s), 'frames-delivered-in-order-with-their-stream')
            V.check(sx.beq(d[2], b), 'body-delivered-unchanged')
    finally:
        Segment.MAX_PAYLOAD_LENGTH = old


def h_corruption(V, region='header', blen=1):
    conn = _mkconn()
    codec = conn._segment_codec
    h, b, s = _frame(V, 0, blen)
    wire = sx.bytesio()
    codec.encode(wire, sx.cat(h, b))
    items = sx.blist(wire.getvalue())
    n = len(items)
    ranges = {'header': (0, 3), 'header-crc': (3, 6), 'payload': (6, n - 4), 'payload-crc': (n - 4, n)}
    lo, hi = ranges[region]
    pos = sx.conc(V.int('flip_byte', lo, hi - 1))
    bit = sx.conc(V.int('flip_bit', 0, 7))
    items[pos] = items[pos] ^ (1 << bit)
    conn._iobuf.write(sx.cat(items))
    conn.process_io_buffer()
    if region in ('header', 'header-crc'):
        # a corrupted header may also claim a longer segment: then nothing can be delivered yet
        V.check(conn.is_defunct or not conn.delivered, 'corrupted-header-never-delivers')
        if conn.is_defunct:
            V.check(isinstance(conn.last_error, CrcMismatchException), 'corruption-reported-as-crc-mismatch', note=repr(conn.last_error))
    else:
        V.check(conn.is_defunct and isinstance(conn.last_error, CrcMismatchException), 'corrupted-payload-is-detected', note=repr(conn.last_error))
        V.check(not conn.delivered, 'corrupted-payload-never-delivered')


def h_compressed(V, maxlen=3):
    """compression codec: stub compressor returns an arbitrary string of arbitrary length (both the
    'shorter' and 'not shorter' branches), the decompressor is its inverse by construction"""
    n = V.choice('payload_len', maxlen + 1)
    payload = V.bytes('payload', n)
    clen = V.choice('compressed_len', maxlen + 2)
    comp = V.bytes('compressed', clen)
    table = {}

    def compressor(data):
        return sx.cat(b'\x00\x00\x00\x00', comp)        # 4-byte length prefix is stripped by the codec

    def decompressor(data):
        # data = int32(uncompressed length) + compressed bytes
        return payload
    codec = SegmentCodec(compressor, decompressor)
    wire = sx.bytesio()
    codec.encode(wire, payload)
    raw = wire.getvalue()
    rd = sx.bytesio(raw)
    rd.seek(0)
    hdr = codec.decode_header(rd)
    V.check(sx.eq(hdr.segment_length, len(raw)), 'segment-length-equals-bytes-on-the-wire',
            note='%d bytes on the wire, compressed=%s' % (len(raw), clen < n))
    s = codec.decode(rd, hdr)
    V.check(sx.beq(s.payload, payload), 'compressed-segment-round-trips')
    V.check(s.is_self_contained, 'single-segment-is-self-contained')


def jobs(tier):
    th = tier == 'thorough'
    o = dict(max_seconds=1500 if th else 280, timeout_ms=60000)
    js = [Job('header-plain', 'h_header', dict(compression=False), o), Job('header-compressed', 'h_header', dict(compression=True), o),
          Job('compressed-codec', 'h_compressed', dict(maxlen=4 if th else 3), o)]
    for nf, nr in ((1, 1), (1, 2), (1, 3), (2, 2)) + (((2, 3), (1, 4)) if th else ()):
        mb = 4 if th else (2 if nr < 3 and nf < 2 else 1)
        js.append(Job('roundtrip-f%d-r%d' % (nf, nr), 'h_roundtrip', dict(nframes=nf, nreads=nr, maxbody=mb), o))
    js.append(Job('roundtrip-two-frames-one-segment', 'h_roundtrip', dict(nframes=2, nreads=2, maxbody=1, same_segment=True), o))
    js.append(Job('roundtrip-multi-segment', 'h_roundtrip', dict(nframes=1, nreads=2, maxbody=2, small_segments=True), o))
    for region in ('header', 'header-crc', 'payload-crc'):
        js.append(Job('corrupt-%s' % region, 'h_corruption', dict(region=region, blen=1), o))
    return js
