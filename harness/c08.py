"""C08 — partition tokens equal those of Cassandra's partitioners.

The pure-Python murmur3 (re-compiled from /repo with the instrumenter) runs on
a key whose every byte is symbolic; the oracle is Cassandra's
MurmurHash.hash3_x64_128 (first word, signed-byte tail) written independently
in explicit 64-bit modular arithmetic.  Both sides become bit-vector terms and
z3 decides their equality for ALL keys of the given length at once.
"""
import hashlib
import sx
from sx.run import Job

sx.instrument('cassandra.murmur3', 'cassandra.marshal', 'cassandra.metadata')
from cassandra import murmur3 as m3
from cassandra import metadata

META = dict(
    level='model_checking',
    level_text='for each key length, every byte of the key is symbolic and the driver token is proved equal to the specification token for all 256^n keys by one z3 validity query per path (bit-vector encoding; wide Python ints are lowered demand-driven to 64-bit terms)',
    level_note='per key length (listed in bounds); the specification is an independent transcription of Cassandra MurmurHash.hash3_x64_128 / RandomPartitioner / ByteOrderedPartitioner; MD5 itself is a stub returning 16 arbitrary bytes (the property must hold for any digest); the compiled cmurmur3 extension is not analysed (not built here)',
    technique='symbolic execution of the instrumented real cassandra/murmur3.py and metadata token classes + z3 bit-vector equivalence against an independent specification',
    bounds=dict(quick='murmur3: key lengths 0..17, 24, 31, 32, 33, 48 (all tail sizes 0..15, 0..3 blocks), all byte values; hash-to-token mapping for an arbitrary 64-bit hash; MD5 token for an arbitrary 16-byte digest; bytes token lengths 0..4',
                thorough='murmur3: key lengths 0..80'),
    assumptions=['hashlib.md5 returns some 16-byte digest (functional in the key)'],
    stubs=['hashlib.md5 -> 16 symbolic bytes', 'struct.unpack_from -> byte model'],
    outside=['key lengths beyond the bound', 'cassandra/cmurmur3.c (C extension, not built in this sandbox)'],
)

M = (1 << 64) - 1
C1 = 0x87c37b91114253d5
C2 = 0x4cf5ad432745937f
MIN_LONG = -(1 << 63)
MAX_LONG = (1 << 63) - 1


def encoded_functions():
    return [m3._murmur3, m3.body_and_tail, m3.rotl64, m3.fmix, m3.truncate_int64,
            metadata.Murmur3Token.hash_fn, metadata.MD5Token.hash_fn, metadata.BytesToken.hash_fn]


# ---- specification (Cassandra MurmurHash.hash3_x64_128, seed 0), unsigned 64-bit modular arithmetic
def _rotl(x, r):
    return ((x << r) | (x >> (64 - r))) & M


def _mul(a, b):
    return (a * b) & M


def _fmix(k):
    k = k ^ (k >> 33)
    k = _mul(k, 0xff51afd7ed558ccd)
    k = k ^ (k >> 33)
    k = _mul(k, 0xc4ceb9fe1a85ec53)
    k = k ^ (k >> 33)
    return k


def _sbyte(b):
    """(long) of a signed Java byte, as an unsigned 64-bit pattern"""
    return ((b ^ 0x80) - 0x80) & M


def spec_hash(key):
    n = len(key)
    nblocks = n // 16
    h1 = h2 = 0
    for i in range(nblocks):
        k1 = 0
        k2 = 0
        for j in range(8):
            k1 = k1 | (key[i * 16 + j] << (8 * j))
            k2 = k2 | (key[i * 16 + 8 + j] << (8 * j))
        k1 = _mul(k1, C1); k1 = _rotl(k1, 31); k1 = _mul(k1, C2); h1 = h1 ^ k1
        h1 = _rotl(h1, 27); h1 = (h1 + h2) & M; h1 = (h1 * 5 + 0x52dce729) & M
        k2 = _mul(k2, C2); k2 = _rotl(k2, 33); k2 = _mul(k2, C1); h2 = h2 ^ k2
        h2 = _rotl(h2, 31); h2 = (h2 + h1) & M; h2 = (h2 * 5 + 0x38495ab5) & M
    off = nblocks * 16
    t = n & 15
    k1 = k2 = 0
    if t > 8:
        for j in range(t - 1, 7, -1):
            k2 = k2 ^ ((_sbyte(key[off + j]) << ((j - 8) * 8)) & M)
        k2 = _mul(k2, C2); k2 = _rotl(k2, 33); k2 = _mul(k2, C1); h2 = h2 ^ k2
    if t > 0:
        for j in range(min(7, t - 1), -1, -1):
            k1 = k1 ^ ((_sbyte(key[off + j]) << (j * 8)) & M)
        k1 = _mul(k1, C1); k1 = _rotl(k1, 31); k1 = _mul(k1, C2); h1 = h1 ^ k1
    h1 = h1 ^ n
    h2 = h2 ^ n
    h1 = (h1 + h2) & M
    h2 = (h2 + h1) & M
    h1 = _fmix(h1)
    h2 = _fmix(h2)
    h1 = (h1 + h2) & M
    return (h1 ^ (1 << 63)) - (1 << 63)          # as a signed long


def h_murmur(V, n=0):
    key = V.bytes('key', n)
    got = m3._murmur3(key)
    want = spec_hash(list(key) if n else [])
    V.check(sx.eq(got, want), 'murmur3-equals-cassandra-hash3_x64_128')
    V.check(sx.land(got >= MIN_LONG, got <= MAX_LONG), 'hash-fits-a-signed-long')


def h_selftest(V):
    """the specification reproduces the repository's own test vectors (and the instrumented twin agrees)"""
    vectors = [(b'123', -7468325962851647638), (b'\x00\xff\x10\xfa\x99' * 10, 5837342703291459765),
               (b'\xfe' * 8, -8927430733708461935), (b'\x10' * 8, 1446172840243228796),
               (b'9223372036854775807', 7162290910810015547)]
    for k, tok in vectors:
        V.check(spec_hash(list(k)) == tok, 'specification-matches-repository-vectors', note=repr(k))
        V.check(m3._murmur3(k) == tok, 'instrumented-twin-matches-repository-vectors', note=repr(k))


def h_token_mapping(V):
    """Murmur3Token.hash_fn for an ARBITRARY 64-bit hash value (the MIN_LONG corner cannot be found by search)"""
    h = V.int('hash', MIN_LONG, MAX_LONG)
    if V.symbolic:
        from sx import hooks
        hooks.register(metadata.murmur3, lambda key: h)
    else:
        metadata.murmur3 = lambda key: h
    tok = metadata.Murmur3Token.hash_fn(b'k')
    V.check(sx.eq(tok, sx.ite(h == MIN_LONG, MAX_LONG, h)), 'token-is-hash-except-min-long-maps-to-max-long')
    V.check(sx.land(tok > MIN_LONG, tok <= MAX_LONG), 'token-in-murmur3-partitioner-range')


class _Md5(object):
    def __init__(self, dig):
        self._d = dig

    def digest(self):
        return self._d


def h_md5(V):
    dig = V.bytes('digest', 16)
    if V.symbolic:
        from sx import hooks
        hooks.register(metadata.md5, lambda key: _Md5(dig))
    else:
        metadata.md5 = lambda key: _Md5(dig)
    tok = metadata.MD5Token.hash_fn(b'key')
    v = 0
    for b in dig:
        v = (v << 8) | b
    signed = sx.ite(dig[0] >= 128, v - (1 << 128), v)
    want = sx.ite(signed < 0, -signed, signed)
    V.check(sx.eq(tok, want), 'md5-token-is-abs-of-signed-big-endian-digest')
    V.check(sx.land(tok >= 0, tok <= (1 << 127)), 'md5-token-in-random-partitioner-range')


def h_bytes(V, n=2):
    key = V.bytes('key', n)
    tok = metadata.BytesToken.hash_fn(key)
    V.check(sx.eq(tok, key) if n else tok == b'', 'bytes-token-is-the-key')
    t = metadata.BytesToken(tok if not V.symbolic or n == 0 else bytes(n))
    V.check(isinstance(t.value, bytes), 'bytes-token-holds-bytes')


def jobs(tier):
    th = tier == 'thorough'
    lens = list(range(0, 81)) if th else list(range(0, 18)) + [24, 31, 32, 33, 48]
    js = [Job('selftest', 'h_selftest'), Job('token-mapping', 'h_token_mapping'), Job('md5', 'h_md5')]
    for n in range(0, 5):
        js.append(Job('bytes-%d' % n, 'h_bytes', dict(n=n)))
    for n in lens:
        js.append(Job('murmur3-len%02d' % n, 'h_murmur', dict(n=n), dict(pcfree_first=True, timeout_ms=120000, max_seconds=900)))
    return js
