"""C09 — multiplexed requests never receive another request's response.

Real ResponseFuture + HostConnection + Connection.  The connection starts in an
arbitrary state satisfying the representation invariant (a window of symbolic
`highest_request_id` / `max_request_id` values, a few free ids, the rest in use
by requests that stay pending), then a symbolic interleaving of send / respond
/ client timeout / late response / defunct / executor-task events runs.
"""
import sx
from sx.run import Job
from harness import rfworld as W
from harness.rfworld import RFWorld

META = dict(
    level='model_checking',
    level_text='bounded histories (every interleaving of the enabled events is a forked symbolic choice) of the real ResponseFuture/HostConnection/Connection code from a symbolic initial id-allocator state; z3 decides each path; one explored path covers all id-state values that follow it',
    level_note='task-level schedules (the granularity the driver serialises with its locks and executor); transport, codec and timers are harness fakes; pre-emption inside a critical section is outside the claim',
    technique='symbolic execution (sx proxies, LIA encoding) of the real request/response path over solver-enumerated event interleavings + z3 validity per path',
    bounds=dict(quick='<= 3 requests, histories of <= 5 events (<= 6 events / 2 requests when the server may also answer with a retryable read-timeout error); highest_request_id in windows [0,2],[297,301],[125,127],[32765,32767] with max_request_id = highest + 0..2 (capped at the protocol maximum), 0..2 free ids',
                thorough='<= 3 requests, histories of <= 7 events, same windows'),
    assumptions=['race jobs: a timer (client-side timeout, speculative execution) may fire on a thread other than the event loop\'s, so it can overlap the handling of a response - Connection.create_timer does not promise otherwise and the driver itself guards _on_timeout with the connection lock; with the bundled reactors timers run on the event-loop thread, for which these schedules are an over-approximation; two responses are never handled at the same time', 'the server answers each stream at most once, with the response belonging to the request it received on that stream',
                 'requests already in flight in the initial state never complete within the history'],
    stubs=['transport/timers/executor: harness kit', 'protocol codec: identity (request tag travels with the frame)'],
    outside=['HostConnectionPool (v1/v2 pools) — covered for accounting in C12', 'OS-thread pre-emption'],
)

WINDOWS = {'low': (0, 2, 4), 'init': (297, 301, 4), 'v2max': (125, 127, 2), 'max': (32765, 32767, 4)}


def encoded_functions():
    from cassandra.connection import Connection
    from cassandra.cluster import ResponseFuture
    from cassandra.pool import HostConnection
    return [Connection.get_request_id, Connection.send_msg, Connection.process_msg, Connection.error_all_requests,
            Connection.defunct, ResponseFuture._on_timeout, ResponseFuture._query, ResponseFuture.send_request,
            ResponseFuture._set_result, HostConnection.borrow_connection, HostConnection.return_connection]


def h_history(V, window='low', steps=5, nreq=3, retries=False, race=False):
    lo, hi, pv = WINDOWS[window]
    world = RFWorld(V, n_hosts=1, protocol_version=pv)
    pool = world.pools[world.hosts[0]]
    conn = pool._connection
    current = [None]            # kind of the history event being executed
    if race:
        # one pre-emption: while a thread is at a lock acquire/release of driver code (holding no lock), the event loop
        # thread delivers a pending response or a client timeout fires
        from harness import kit

        def other(*a):
            # (the event-loop thread delivers one response at a time: no response inside the handling of a response)
            ev = ([('respond',) + p for p in world.pending()] if current[0] != 'respond' else []) + [('timer', t) for t in world.timers()]
            e = ev[V.choice('pre_ev', len(ev))]
            V.tag('preempted_with', e[0])
            if e[0] == 'respond':
                world.respond(e[1], e[2], world.rows(e[3]))
            else:
                e[1].fire()
        pre = kit.Preempter(V, None, other, only_unlocked=True, enabled=lambda: bool((world.pending() and current[0] != 'respond') or world.timers()))
        conn.lock = kit.SchedLock('connection.lock', pre)
        pool._lock = kit.SchedLock('pool._lock', pre)
        pool._stream_available_condition = kit.VirtualCondition(pool._lock)
    proto_max = 127 if pv < 3 else 32767
    highest = V.int('highest', lo, hi)
    nfree = V.choice('nfree', 3)
    V.assume(nfree <= highest + 1)
    free = list(range(nfree))                       # ids 0..nfree-1 are free, the rest in use
    headroom = V.int('headroom', 0, 2)
    maxid = sx.ite(highest + headroom <= proto_max, highest + headroom, proto_max)
    W.set_id_state(conn, free, highest, maxid)
    in_flight0 = conn.in_flight
    conn.orphaned_threshold = 1000000
    defuncted = [False]
    ntag = [0]
    for step in range(steps):
        ev = []
        if ntag[0] < nreq:
            ev.append(('send',))
        for (c, stream, tag, msg) in world.pending():
            ev.append(('respond', c, stream, tag))
        for t in world.timers():
            ev.append(('timer', t))
        for i in range(len(world.tasks())):
            ev.append(('task', i))
        if not defuncted[0] and world.server.received:
            ev.append(('defunct',))
        if not ev:
            break
        e = ev[V.choice('ev%d' % step, len(ev))]
        V.tag('e%d' % step, e[0])
        current[0] = e[0]
        if e[0] == 'send':
            ntag[0] += 1
            rf = world.new_future(ntag[0])
            rf.send_request()
        elif e[0] == 'respond':
            kind = V.choice('kind%d' % step, 2) if retries else 0
            V.tag('k%d' % step, kind)
            if kind == 0:
                world.respond(e[1], e[2], world.rows(e[3]))
            else:
                # coordinator read timeout with enough digests: the default policy retries on the same connection
                world.respond(e[1], e[2], W.ReadTimeoutErrorMessage(0x1200, 'read timeout', dict(
                    consistency=W.ConsistencyLevel.QUORUM, required_responses=2, received_responses=2, data_retrieved=False)))
        elif e[0] == 'timer':
            e[1].fire()
        elif e[0] == 'task':
            world.executor.run_one(e[1])
        else:
            defuncted[0] = True
            conn.defunct(OSError('socket error'))
        _invariants(V, world)
    # drain: answer everything still outstanding, run queued tasks
    for _ in range(12):
        p = world.pending()
        if p:
            c, stream, tag, msg = p[0]
            current[0] = 'respond'
            world.respond(c, stream, world.rows(tag))
        elif world.tasks():
            current[0] = 'task'
            world.executor.run_one(0)
        else:
            break
        _invariants(V, world)
    # quiescence: every sent request answered
    if not conn.is_closed and not conn.is_defunct:
        V.check(sx.eq(conn.in_flight, in_flight0), 'in-flight-back-to-initial-at-quiescence')
        ids = [sx.conc(x) for x in conn.request_ids]
        V.check(len(set(ids)) == len(ids), 'no-id-free-twice')
        V.check(sx.eq(len(ids) + in_flight0, conn.highest_request_id + 1), 'all-ids-accounted-for')
        V.check(len(conn.orphaned_request_ids) == 0, 'no-orphans-left-after-all-answers')
    V.tag('sent', len(world.server.received))


def _invariants(V, world):
    V.check(not world.dup_stream, 'stream-id-never-shared-by-two-outstanding-requests')
    V.check(not world.over_max, 'stream-id-within-maximum')
    for rf in world.futures:
        for r in rf.results:
            V.check(r == [rf.tag], 'response-delivered-to-its-own-request')
        V.check(len(rf.results) + len(rf.errors_seen) <= 1, 'one-outcome-per-request')
        for h, err in rf._errors.items():
            V.check(not isinstance(err, (AssertionError, LookupError, TypeError, AttributeError, ValueError, NameError)),
                    'no-internal-error-while-sending', note=repr(err))


def jobs(tier):
    steps = 7 if tier == 'thorough' else 5
    js = []
    for w in WINDOWS:
        for first in range(2):
            js.append(Job('history-%s-f%d' % (w, first), 'h_history', dict(window=w, steps=steps),
                          dict(arith='int', pin={'nfree': first}, max_seconds=900 if tier == 'thorough' else 200)))
        js.append(Job('history-%s-f2' % w, 'h_history', dict(window=w, steps=steps),
                      dict(arith='int', pin={'nfree': 2}, max_seconds=900 if tier == 'thorough' else 200)))
    # histories in which the server may also answer with a retryable error (same-connection retry)
    for w in ('low', 'v2max'):
        for first in range(3):
            js.append(Job('retry-%s-f%d' % (w, first), 'h_history', dict(window=w, steps=steps + 1, nreq=2, retries=True),
                          dict(arith='int', pin={'nfree': first}, max_seconds=900 if tier == 'thorough' else 200)))
    # one pre-emption by the event-loop thread at a lock acquire/release (no lock held)
    for first in range(3):
        js.append(Job('race-low-f%d' % first, 'h_history', dict(window='low', steps=4 if tier == 'quick' else 5, nreq=2, retries=True, race=True),
                      dict(arith='int', pin={'nfree': first}, max_seconds=900 if tier == 'thorough' else 200, max_paths=300000)))
    return js
