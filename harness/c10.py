"""C10 — a failed connection fails every pending request exactly once.

Real Connection (transport faked).  Up to 3 plain requests and one continuous
paging session are outstanding; a failure of a symbolic kind is injected at a
symbolic point of a symbolic send / respond history; afterwards responses that
were already on the wire may still be processed.
"""
import sx
from sx.run import Job
from harness import kit
kit.install_reactor()
import cassandra.connection as cconn
from cassandra.connection import (Connection, ConnectionShutdown, ConnectionException, ConnectionBusy, _Frame,
                                  ContinuousPagingState)
from cassandra.protocol import ResultMessage, RESULT_KIND_ROWS, RESULT_KIND_VOID, ProtocolException, ErrorMessage
from harness.rfworld import Wire

META = dict(
    level='model_checking',
    level_text='every interleaving of send / respond / failure / late-response events (bounded) on the real Connection code, with the failure kind and point symbolic and the number of pending requests crossing the thread-offload threshold; z3 decides each path',
    level_note='task-level schedules, plus (race-* jobs) one pre-emption by another thread - a send, a failure of the connection from a non-event-loop thread, the offloaded error thread - at any acquire/release of the connection lock reached while no lock is held; event-loop work (responses, pages, first-response handling, decode/protocol errors) never overlaps itself; the failure is otherwise injected between events, not between two bytecodes of send_msg; the offloaded error thread is run as a deferred task; transport and codec are harness fakes',
    technique='symbolic execution (sx proxies) of the real Connection.defunct/error_all_requests/process_msg/send_msg over solver-enumerated event histories + z3 validity per path',
    bounds=dict(quick='<= 3 requests + <= 1 continuous paging session, histories of <= 5 events, failure kinds {socket error, socket error while a send is inside push(), decode error, ProtocolException response, close()}, CALLBACK_ERR_THREAD_THRESHOLD patched to 2; race jobs: 2 requests, histories of <= 4 events + 1 pre-emption',
                thorough='<= 4 requests, histories of <= 8 events; race jobs: <= 3 requests, <= 6 events + 1 pre-emption; race2 jobs: 2 requests, <= 4 events + 2 pre-emptions'),
    assumptions=['a reactor reports a socket error by calling defunct(); close() behaves like the asyncore/libev reactors (errors all requests with ConnectionShutdown unless already defunct)'],
    stubs=['transport: harness kit', 'protocol codec: identity', 'threading.Thread in cassandra.connection: deferred task'],
    outside=['failure between two statements of send_msg (sync-point-level schedules)', 'heartbeat-detected failures (C44)'],
)


def encoded_functions():
    return [Connection.defunct, Connection.error_all_requests, Connection.error_all_cp_sessions, Connection.send_msg,
            Connection.process_msg, cconn.defunct_on_error]


class DeferredThread(object):
    pending = []

    def __init__(self, target=None, args=(), kwargs=None, **kw):
        self.target = target
        self.args = args
        self.daemon = True

    def start(self):
        DeferredThread.pending.append(self)

    def run_now(self):
        self.target(*self.args)


_RealCPS = cconn.ContinuousPagingSession


class CPSession(_RealCPS):
    def __init__(self, *a, **k):
        _RealCPS.__init__(self, *a, **k)
        self.errors = []
        self.pages = 0

    @property
    def errors(self):
        # what the consumer of results() will see: error entries queued for it
        return [e for (_n, _r, e) in self._page_queue if e is not None]

    @errors.setter
    def errors(self, v):
        pass

    def on_page(self, result):
        self.pages += 1
        return _RealCPS.on_page(self, result)


def _rows(tag, last=False):
    r = ResultMessage(RESULT_KIND_ROWS)
    r.column_names = ['t']
    r.parsed_rows = [(tag,)]
    r.continuous_paging_last = last
    r.tag = tag
    return r


def h_history(V, steps=5, nreq=3, with_cp=True, race=False, budget=1):
    world = kit.World()
    DeferredThread.pending = []
    cconn.Thread = DeferredThread
    old_thr = Connection.CALLBACK_ERR_THREAD_THRESHOLD
    Connection.CALLBACK_ERR_THREAD_THRESHOLD = 2
    cconn.ContinuousPagingSession = CPSession
    try:
        return _run(V, world, steps, nreq, with_cp, race, budget)
    finally:
        Connection.CALLBACK_ERR_THREAD_THRESHOLD = old_thr


def _run(V, world, steps, nreq, with_cp, race=False, budget=1):
    conn = kit.FakeConnection('10.0.0.1', protocol_version=4)
    wire = Wire(world)
    got = {}         # tag -> list of things delivered to its callback
    outstanding = {}  # stream -> tag (server side: received, not answered)
    sent = [0]
    failed = [None]
    cp = [None]

    def cb_for(tag):
        got[tag] = []
        return lambda resp: got[tag].append(resp)

    def frame(stream):
        return _Frame(4, 0, stream, 8, 9, 9)

    running = []

    def do(step):
        ev = []
        if sent[0] < nreq:
            ev.append('send')
        if with_cp and cp[0] is None and not failed[0] and sent[0] >= 1:
            ev.append('cp-start')
        for s in sorted(outstanding):
            ev.append(('respond', s))
        if cp[0] is not None and not cp[0].released_by_server:
            ev.append('cp-page')
        if not failed[0]:
            ev.append('fail')
        if DeferredThread.pending:
            ev.append('thread')
        if running:
            # a pre-empting event belongs to another thread: what the event-loop thread does (deliver a response or a
            # page, start a paging session from a first response, hit a decode/protocol error) never overlaps itself
            if any(r in LOOP_EVENTS for r in running):
                ev = [x for x in ev if (x if isinstance(x, str) else x[0]) not in LOOP_EVENTS]
        if not ev:
            return
        e = ev[V.choice('ev%s' % step, len(ev))]
        running.append(e if isinstance(e, str) else e[0])
        try:
            _event(step, e)
        finally:
            running.pop()

    def _event(step, e):
        V.tag('e%s' % step, e if isinstance(e, str) else e[0])
        if e == 'send':
            sent[0] += 1
            tag = sent[0]
            try:
                with conn.lock:
                    rid = conn.get_request_id()
                    conn.in_flight += 1
                if not failed[0] and not any(r in LOOP_EVENTS for r in running) and V.flag('socket_error_during_push_%d' % tag):
                    # the event-loop thread hits a socket error while this thread is inside push()
                    def fault(c, data, _t=tag):
                        world.push_fault = None
                        failed[0] = 'socket-error-during-push'
                        c.defunct(OSError(32, 'broken pipe'))
                        return None
                    world.push_fault = fault
                # (race jobs: `failed` is set when the failing thread starts; what send_msg can know is whether the
                # connection was already marked at the moment it was entered)
                was_dead = (conn.is_defunct or conn.is_closed) if race else failed[0]
                conn.send_msg(('msg', tag), rid, cb_for(tag), encoder=wire.encode_message, decoder=wire.decode_message)
                if failed[0] == 'socket-error-during-push':
                    outstanding.pop(rid, None)
                    V.tag('failure_kind', failed[0])
                    return
                V.check(not was_dead, 'send-refused-after-failure')
                outstanding[rid] = tag
            except ConnectionShutdown:
                V.check(bool(failed[0]), 'send-only-refused-after-failure')
                got.pop(tag, None)
        elif e == 'cp-start':
            # a continuous paging session takes over the stream of a fresh request
            with conn.lock:
                rid = conn.get_request_id()
                conn.in_flight += 1
            s = conn.new_continuous_paging_session(rid, wire.decode_message, lambda n, r: r, ContinuousPagingState(4))
            s.released_by_server = False
            cp[0] = s
        elif e == 'cp-page':
            conn.process_msg(frame(cp[0].stream_id), _rows('page'))
        elif e == 'thread':
            DeferredThread.pending.pop(0).run_now()
        elif e == 'fail':
            loop_busy = any(r in LOOP_EVENTS for r in running[:-1])
            kind = V.pick('failure', ['socket-error', 'decode-error', 'protocol-error', 'close'])
            victims = sorted(outstanding) + ([cp[0].stream_id] if cp[0] is not None else [])
            if kind in ('decode-error', 'protocol-error') and (not victims or loop_busy):
                kind = 'socket-error'       # (from another thread, e.g. a failed heartbeat, when the event loop is in the middle of something)
            failed[0] = kind
            V.tag('failure_kind', kind)
            if kind == 'socket-error':
                conn.defunct(OSError(104, 'connection reset'))
            elif kind == 'close':
                conn.close()
            else:
                s = victims[V.choice('victim', len(victims))]
                V.tag('victim_is_paging_session', s not in outstanding)
                outstanding.pop(s, None)
                if kind == 'decode-error':
                    exc = ValueError('cannot decode')
                    exc._raise_in_decoder = True
                    conn.process_msg(frame(s), exc)
                else:
                    conn.process_msg(frame(s), ProtocolException(0x000A, 'bad frame', None))
        else:
            s = e[1]
            tag = outstanding.pop(s)
            conn.process_msg(frame(s), _rows(tag))

    if race:
        # at any acquire/release of the connection's lock reached while the running thread holds no lock, another
        # thread performs one event of its own: a send, a response, a failure of the connection, the offloaded error thread
        pre = kit.Preempter(V, None, lambda *a: do('_pre%d' % pre.used), only_unlocked=True, budget=budget)
        conn.lock = kit.SchedLock('connection.lock', pre)
    for step in range(steps):
        do(step)
        _checks(V, conn, got, failed, cp, final=False)
    while DeferredThread.pending:
        DeferredThread.pending.pop(0).run_now()
    # responses already in the socket buffer when the connection failed are still parsed
    running.append('respond')           # (the event-loop thread)
    for s in sorted(outstanding):
        conn.process_msg(frame(s), _rows(outstanding[s]))
    if cp[0] is not None and failed[0]:
        conn.process_msg(frame(cp[0].stream_id), _rows('late-page'))
    running.pop()
    _checks(V, conn, got, failed, cp, final=True)
    if failed[0]:
        try:
            conn.send_msg(('msg', 99), 0, lambda r: None, encoder=wire.encode_message, decoder=wire.decode_message)
            V.check(False, 'send-refused-after-failure')
        except ConnectionShutdown:
            V.check(True, 'send-refused-after-failure')


LOOP_EVENTS = ('respond', 'cp-page', 'cp-start')


def _is_conn_error(x):
    return isinstance(x, (ConnectionException, ErrorMessage, Exception))


def _checks(V, conn, got, failed, cp, final):
    for tag, deliveries in got.items():
        V.check(len(deliveries) <= 1, 'handler-invoked-at-most-once', note='request %s got %r' % (tag, deliveries))
        if final and failed[0]:
            V.check(len(deliveries) == 1, 'every-pending-handler-invoked-exactly-once', note='request %s got %r' % (tag, deliveries))
        for d in deliveries:
            if isinstance(d, ResultMessage):
                V.check(d.tag == tag, 'response-belongs-to-request')
    if failed[0] and final:
        late = [t for t, ds in got.items() for d in ds if isinstance(d, ResultMessage) and getattr(d, 'late', False)]
        V.check(not late, 'no-response-after-failure')
    if cp[0] is not None and failed[0]:
        s = cp[0]
        V.check(len(s.errors) <= 1, 'paging-session-errored-at-most-once', note=repr(s.errors))
        if s.errors:
            if not hasattr(s, 'pages_at_error'):
                s.pages_at_error = s.pages
            V.check(s.pages == s.pages_at_error, 'no-page-delivered-to-paging-session-after-its-error')
        if final:
            V.check(len(s.errors) == 1, 'paging-session-errored-exactly-once', note=repr(s.errors))
            V.tag('cp_pages_after', s.pages)


def h_late(V):
    """responses that arrive after the failure are not delivered to handlers that were already errored"""
    return None


def jobs(tier):
    th = tier == 'thorough'
    o = dict(max_seconds=1500 if th else 250)
    js = []
    for first in range(2):
        js.append(Job('history-f%d' % first, 'h_history', dict(steps=8 if th else 5, nreq=4 if th else 3),
                      dict(o, pin={'ev1': first})))
    js.append(Job('history-rest', 'h_history', dict(steps=8 if th else 5, nreq=4 if th else 3), dict(o, pin_not={'ev1': [0, 1]})))
    for first in range(3):
        js.append(Job('race-f%d' % first, 'h_history', dict(steps=6 if th else 4, nreq=3 if th else 2, with_cp=False, race=True), dict(o, pin={'ev1': first})))
    js.append(Job('race-cp', 'h_history', dict(steps=6 if th else 4, nreq=2, with_cp=True, race=True), dict(o, pin={'ev0': 0})))
    if th:
        # two pre-emptions per history
        for first in range(3):
            js.append(Job('race2-f%d' % first, 'h_history', dict(steps=4, nreq=2, with_cp=False, race=True, budget=2), dict(o, pin={'ev1': first})))
        js.append(Job('race2-cp', 'h_history', dict(steps=4, nreq=2, with_cp=True, race=True, budget=2), dict(o, pin={'ev0': 0})))
    js.append(Job('no-cp', 'h_history', dict(steps=6 if th else 5, nreq=3, with_cp=False), o))
    return js
