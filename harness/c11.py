"""C11 — messages pushed concurrently reach the socket whole and in order.

The real AsyncioConnection.push / _push_msg / handle_write (and TwistedConnection.push) run against a
small cooperative model of their event loop: coroutines are driven step by step, the loop runs ready
callbacks in FIFO order (as asyncio and Twisted do for call_soon_threadsafe / callFromThread), a lock
and a queue with asyncio's documented behaviour, and a socket whose sock_sendall may be suspended part
way.  What the solver chooses: how many messages each of two threads pushes and how large they are
relative to the output buffer (chunking), and the interleaving - at every step either a thread
performs its next push() or the loop runs one step.  The bytes that reach the socket must be the
concatenation of the pushed messages, each whole, in an order that keeps every thread's own order.
"""
import types
import warnings
import sx
from sx.run import Job

warnings.simplefilter('ignore')
from harness import kit                       # noqa: E402
kit.install_reactor()
import cassandra.io.asyncioreactor as aio     # noqa: E402

META = dict(
    level='model_checking',
    level_text='every interleaving, within the bounds, of two pushing threads and the event loop (solver-forked scheduler choices: which thread pushes next or whether the loop runs a step, and whether a socket send is suspended part way) runs through the real push/_push_msg/handle_write code over a cooperative event-loop model; the bytes written are compared per path with every order that respects each thread\'s push order',
    level_note='the event loop is a model (FIFO ready queue, asyncio.Lock/Queue semantics incl. that a Lock is not awaitable, sock_sendall that can yield between partial sends): the claim is about the driver coroutines on top of it; 2 threads x <= 2 messages, sizes around the output buffer size; Twisted: callFromThread modelled as a FIFO queue drained by the reactor thread',
    technique='symbolic execution (sx, solver-forked scheduler variables) of the real cassandra.io.asyncioreactor.AsyncioConnection.push/_push_msg/handle_write coroutines and TwistedConnection.push over a cooperative event-loop model',
    bounds=dict(quick='2 threads, 1..2 messages each, message sizes {1, buffer+1, 2*buffer+1} with buffer = 2, histories of <= 6 scheduler steps (then the remaining pushes and a drain), the first three socket sends may be split',
                thorough='3 messages for the first thread, <= 8 scheduler steps'),
    assumptions=['asyncio / Twisted run thread-safe callbacks in the order they were submitted', 'asyncio.Lock and asyncio.Queue behave as documented for Python >= 3.9 (a Lock is used with `async with`, it is not awaitable)'],
    stubs=['event loop, Lock, Queue, run_coroutine_threadsafe, create_task, sock_sendall: cooperative model in this file', 'twisted reactor.callFromThread: FIFO queue'],
    outside=['the other reactors (libev, asyncore, gevent, eventlet: C extension or not importable here)', 'socket errors during send', 'TLS'],
)


def encoded_functions():
    out = [aio.AsyncioConnection.push, aio.AsyncioConnection._push_msg, aio.AsyncioConnection.handle_write]
    try:
        import cassandra.io.twistedreactor as tw
        out.append(tw.TwistedConnection.push)
    except Exception:
        pass
    return out


# ---- cooperative event-loop model ----------------------------------------------------------------------
class _Wait(object):
    """awaitable that suspends the coroutine until `ready()` is true"""
    def __init__(self, ready, result=lambda: None):
        self.ready, self.result = ready, result

    def __await__(self):
        while not self.ready():
            yield self
        return self.result()


class Lock(object):
    """asyncio.Lock: `async with lock:` / `await lock.acquire()`; the object itself is not awaitable"""
    def __init__(self):
        self.locked_by = None

    async def acquire(self):
        await _Wait(lambda: self.locked_by is None)
        self.locked_by = True
        return True

    def release(self):
        self.locked_by = None

    async def __aenter__(self):
        await self.acquire()

    async def __aexit__(self, *a):
        self.release()


class Queue(object):
    def __init__(self):
        self.items = []

    def put_nowait(self, x):
        self.items.append(x)

    async def get(self):
        await _Wait(lambda: bool(self.items))
        return self.items.pop(0)


class Loop(object):
    """asyncio's ready queue: callbacks run FIFO, one loop iteration runs the callbacks that were ready when it
    started; a Task's first step is itself scheduled with call_soon when the Task is created, and
    run_coroutine_threadsafe creates the Task from a call_soon_threadsafe callback (two hops, as in asyncio)"""
    def __init__(self, V):
        self.V = V
        self.ready = []
        self.sock = []
        self.errors = []

    def call_soon(self, fn, *a):
        self.ready.append(lambda: fn(*a))
    call_soon_threadsafe = call_soon

    def create_task(self, coro):
        self.call_soon(self._step, coro)
        return coro

    def run_coroutine_threadsafe(self, coro):
        self.call_soon(self.create_task, coro)
        return coro

    def _step(self, coro):
        try:
            coro.send(None)
        except StopIteration:
            return
        except Exception as e:
            self.errors.append(e)
            return
        self.call_soon(self._step, coro)        # suspended: polled again on a later iteration

    async def sock_sendall(self, sock, data):
        # a send may go out in two parts with other callbacks running in between
        data = bytes(data)
        if len(data) > 1 and len(self.sock) < 3 and self.V.flag('partial_send_%d' % len(self.sock)):
            self.sock.append(data[:1])
            await _Wait(_Once())
            self.sock.append(data[1:])
        else:
            self.sock.append(data)

    def step(self):
        """one loop iteration; True if the socket or the set of live callbacks changed"""
        batch, self.ready = self.ready, []
        before = len(self.sock)
        for cb in batch:
            cb()
        return len(self.sock) != before or len(self.ready) != len(batch)


class _Once(object):
    def __init__(self):
        self.n = 0

    def __call__(self):
        self.n += 1
        return self.n > 1


SIZES = [1, 3, 5]              # buffer = 2: one chunk, two chunks, three chunks


def h_asyncio(V, max_first=2, steps=6):
    loop = Loop(V)
    fake_asyncio = types.SimpleNamespace(
        Lock=Lock, Queue=Queue, CancelledError=aio.asyncio.CancelledError,
        run_coroutine_threadsafe=lambda coro, loop=None: loop.run_coroutine_threadsafe(coro))
    orig = aio.asyncio
    aio.asyncio = fake_asyncio
    try:
        c = aio.AsyncioConnection.__new__(aio.AsyncioConnection)
        c._loop = loop
        c._loop_thread = types.SimpleNamespace(ident=-1)        # pushes come from other threads
        c._write_queue = Queue()
        c._write_queue_lock = Lock()
        c.out_buffer_size = 2
        c._socket = object()
        c.is_defunct = False
        loop.create_task(c.handle_write())
        n1 = V.choice('thread1_messages', max_first) + 1
        n2 = V.choice('thread2_messages', 2) + 1
        msgs = {}
        tag = 0
        for th, n in ((1, n1), (2, n2)):
            lst = []
            for k in range(n):
                size = V.pick('size_t%d_m%d' % (th, k), SIZES)
                tag += 1
                lst.append(bytes([16 * tag + j for j in range(size)]))
            msgs[th] = lst
        nxt = {1: 0, 2: 0}
        trace = []
        for step in range(steps):
            can = [th for th in (1, 2) if nxt[th] < len(msgs[th])]
            if not can:
                break
            opts = ['push%d' % th for th in can] + ['loop']
            e = V.pick('sched%d' % step, opts)
            trace.append(e)
            if e == 'loop':
                loop.step()
            else:
                th = int(e[-1])
                c.push(msgs[th][nxt[th]])
                nxt[th] += 1
        # whatever the bounded schedule left un-pushed is pushed now, then the loop runs until idle
        for th in (1, 2):
            while nxt[th] < len(msgs[th]):
                c.push(msgs[th][nxt[th]])
                nxt[th] += 1
        idle = 0
        for _ in range(200):
            idle = 0 if loop.step() else idle + 1
            if idle >= 3:
                break
    finally:
        aio.asyncio = orig
    written = b''.join(loop.sock)
    V.tag('trace', '/'.join(trace))
    V.check(not loop.errors, 'asyncio:push-does-not-fail', note=repr(loop.errors[:1]))
    total = b''.join(msgs[1] + msgs[2])
    V.check(len(written) == len(total), 'asyncio:every-byte-written-once', note='%d of %d bytes' % (len(written), len(total)))
    V.check(_is_merge(written, msgs[1], msgs[2]), 'asyncio:messages-whole-and-in-per-thread-order', note=written.hex())


def _is_merge(written, a, b):
    """written is an interleaving of the whole messages of a and b keeping each list's order"""
    if not a and not b:
        return written == b''
    if a and written.startswith(a[0]) and _is_merge(written[len(a[0]):], a[1:], b):
        return True
    if b and written.startswith(b[0]) and _is_merge(written[len(b[0]):], a, b[1:]):
        return True
    return False


def h_twisted(V):
    """two threads push through TwistedConnection.push; every reactor.callFromThread is a call into the environment at
    which the other thread may run its own push (solver flag); the reactor thread drains its queue in FIFO order"""
    import cassandra.io.twistedreactor as tw
    calls = []
    written = []
    state = dict(other=None, depth=0, n=0)

    def call_from_thread(fn, *a):
        calls.append((fn, a))
        k = state['n']
        state['n'] += 1
        if state['other'] is not None and state['depth'] == 0 and V.flag('other_thread_runs_at_call_%d' % k):
            state['depth'] += 1
            try:
                other, state['other'] = state['other'], None
                other()
            finally:
                state['depth'] -= 1
    orig = tw.reactor
    tw.reactor = types.SimpleNamespace(callFromThread=call_from_thread)
    try:
        c = tw.TwistedConnection.__new__(tw.TwistedConnection)
        c.transport = types.SimpleNamespace(write=lambda data: written.append(bytes(data)))
        c.out_buffer_size = 2
        sizes = [1, 3, 5]
        a = bytes([0x10 + j for j in range(V.pick('size_a', sizes))])
        b = bytes([0x20 + j for j in range(V.pick('size_b', sizes))])
        state['other'] = lambda: c.push(b)
        c.push(a)
        if state['other'] is not None:
            state['other'] = None
            c.push(b)
        while calls:
            fn, args = calls.pop(0)
            fn(*args)
    finally:
        tw.reactor = orig
    V.check(_is_merge(b''.join(written), [a], [b]), 'twisted:messages-whole-and-in-per-thread-order', note=b''.join(written).hex())
    V.check(len(b''.join(written)) == len(a) + len(b), 'twisted:every-byte-written-once')


def jobs(tier):
    J = []
    for first in range(3):
        J.append(Job('asyncio/s%d' % first, 'h_asyncio', dict(max_first=2 if tier == 'quick' else 3, steps=6 if tier == 'quick' else 8), dict(pin={'sched0': first}, max_paths=600000)))
    J.append(Job('twisted', 'h_twisted', {}))
    return J
