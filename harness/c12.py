"""C12 — connection pools keep exact accounting and close what they open."""
import sx
from sx.run import Job
from harness import kit, poolhist
from harness import rfworld as W

META = dict(
    level='model_checking',
    level_text='bounded histories of the real HostConnection / HostConnectionPool code driven by real ResponseFutures: every interleaving of send / respond / client timeout / late response / defunct / replacement task / shutdown (and shutdown during a blocking connect, and shutdown at any lock acquire/release inside _replace) is a forked symbolic choice, each path decided by z3; accounting steps of both pool classes from symbolic counter states',
    level_note='task-level schedules plus pre-emption at the blocking connection_factory call; transport, timers, executor are harness fakes; request capacity is made small (2-3 streams) so that capacity limits are reached within the bound',
    technique='symbolic execution (sx proxies, LIA) of the real pool code over solver-enumerated event interleavings + z3 validity per path; inductive accounting steps from symbolic counter states',
    bounds=dict(quick='<= 3 requests, histories of <= 7 events + drain, stream capacity 2..3, orphan threshold 1..2; borrow/return steps with in_flight, max_request_id in [0, 32767] symbolic; job replace-use-rejected: the session has a keyspace and the server may reject USE (InvalidRequest) on each of the first 3 replacement connections; v1/v2 pool: 2 connections with 0..3 free ids each, <= 4 borrow/return/shutdown/task events, and the same with one shutdown() or return_connection() by another thread at any boundary of the pool or connection locks (v2-pool-race)',
                thorough='<= 3 requests, histories of <= 8 events + drain'),
    assumptions=['race jobs: a timer (client-side timeout, speculative execution) may fire on a thread other than the event loop\'s, so it can overlap the handling of a response - Connection.create_timer does not promise otherwise and the driver itself guards _on_timeout with the connection lock; with the bundled reactors timers run on the event-loop thread, for which these schedules are an over-approximation; two responses are never handled at the same time', 'each server answer arrives at most once per stream'],
    stubs=['job replace-use-rejected: set_keyspace_blocking of the connections the pool opens follows the contract read from /repo (InvalidRequest is raised and leaves the connection open)', 'transport/timers/executor: harness kit', 'protocol codec: identity'],
    outside=['OS-thread pre-emption inside critical sections'],
)


def encoded_functions():
    from cassandra.pool import HostConnection, HostConnectionPool
    return [HostConnection.borrow_connection, HostConnection.return_connection, HostConnection._replace,
            HostConnection.shutdown, HostConnection._get_connection,
            HostConnectionPool.borrow_connection, HostConnectionPool.return_connection, HostConnectionPool.shutdown]


def h_history(V, steps=5, preempt=False, race=None, use_fault=False):
    return poolhist.run_history(V, 'C12', steps=steps, factory_preempt=preempt, race=race, use_fault=use_fault)


def h_borrow_step(V):
    """one borrow from an arbitrary accounting state (HostConnection)"""
    world = W.RFWorld(V, n_hosts=1, protocol_version=4)
    pool = world.pools[world.hosts[0]]
    c = pool._connection
    maxid = V.int('max_request_id', 0, 32767)
    highest = V.int('highest', 0, 32767)
    V.assume(highest <= maxid)
    nfree = V.choice('nfree', 2)
    W.set_id_state(c, list(range(nfree)), highest, maxid)
    V.assume(c.in_flight >= 0)
    before = c.in_flight
    try:
        conn, rid = pool.borrow_connection(timeout=0)
    except W.NoConnectionsAvailable:
        V.check(before >= maxid, 'C12:borrow-refused-only-at-capacity')
        V.check(sx.eq(c.in_flight, before), 'C12:failed-borrow-leaves-count')
        return
    V.check(sx.eq(conn.in_flight, before + 1), 'C12:borrow-counts-one')
    V.check(conn.in_flight <= maxid + 1, 'C12:never-beyond-request-capacity')
    V.check(sx.land(rid >= 0, rid <= maxid), 'C12:stream-id-within-capacity')
    pool.return_connection(conn)
    V.check(sx.eq(conn.in_flight, before), 'C12:return-restores-count')


def h_v2_pool(V, steps=4, race=False):
    """HostConnectionPool (protocol v1/v2): borrow / return / shutdown accounting"""
    world = W.RFWorld(V, n_hosts=1, protocol_version=2, pool_class=W.HostConnectionPool)
    pool = world.pools[world.hosts[0]]
    for c in pool._connections:
        # each connection nearly full: 0..3 free stream ids (ids 0..127 exist)
        nfree = V.choice('nfree%d' % c.idx, 4)
        W.set_id_state(c, list(range(nfree)), c.max_request_id, c.max_request_id)
    base = {c.idx: c.in_flight for c in pool._connections}
    held = []
    nwait = [0]
    if race:
        # another thread shuts the pool down at any acquire/release of the pool lock reached while no lock is held
        # (e.g. while a task is about to open, or has just opened, an additional connection)
        from harness import kit
        def other_thread(*a):
            acts = ([] if pool.is_shutdown else ['shutdown']) + (['return'] if held else [])
            act = acts[V.choice('pre_act', len(acts))]
            V.tag('preempted_with', act)
            if act == 'shutdown':
                pool.shutdown()
            else:
                give_back(held.pop())
        pre = kit.Preempter(V, None, other_thread, only_unlocked=True, enabled=lambda: bool(held) or not pool.is_shutdown)
        pool._lock = kit.SchedLock('pool._lock', pre)
        for c in pool._connections:
            c.lock = kit.SchedLock('connection.lock', pre)

    def on_wait(cond, timeout):
        # a borrower is blocked: other threads may return a connection and / or shut the pool down
        if nwait[0] >= 1 or W.World_cur() is None:
            return False
        nwait[0] += 1
        acted = False
        if held and V.flag('return_while_blocked'):
            give_back(held.pop())
            acted = True
        if not pool.is_shutdown and V.flag('shutdown_while_blocked'):
            pool.shutdown()
            acted = True
        return acted
    world.w.on_wait = on_wait

    def give_back(cr):
        # the response arrived (process_msg recycles the stream id), then the request returns the connection
        conn, rid = cr
        with conn.lock:
            conn.request_ids.append(rid)
        pool.return_connection(conn)
    for step in range(steps):
        ev = ['borrow']
        if held:
            ev.append('return')
        if not pool.is_shutdown:
            ev.append('shutdown')
        if world.tasks():
            ev.append('task')
        e = ev[V.choice('ev%d' % step, len(ev))]
        V.tag('e%d' % step, e)
        if e == 'borrow':
            was_shut = pool.is_shutdown         # (a shutdown that overlaps the borrow may come too late to refuse it)
            try:
                conn, rid = pool.borrow_connection(timeout=1.0)
                V.check(not (was_shut if race else pool.is_shutdown), 'C12:borrow-after-shutdown-fails')
                V.check(conn.in_flight <= conn.max_request_id + 1, 'C12:never-beyond-request-capacity')
                held.append((conn, rid))
            except (W.NoConnectionsAvailable, W.ConnectionException):
                pass
        elif e == 'return':
            give_back(held.pop())
        elif e == 'shutdown':
            pool.shutdown()
        else:
            world.executor.run_one(0)
        for c in world.w.conns:
            V.check(c.in_flight >= 0, 'C12:in-flight-never-negative')
    while held:
        give_back(held.pop())
    world.executor.run_all(10)
    for c in world.w.conns:
        if c.idx in base:
            V.check(sx.eq(c.in_flight, base[c.idx]), 'C12:return-restores-count')
    if pool.is_shutdown:
        for c in world.w.conns:
            V.check(c.is_closed, 'C12:every-connection-closed-after-shutdown')


def jobs(tier):
    th = tier == 'thorough'
    steps = 8 if th else 7
    o = dict(arith='int', max_seconds=1500 if th else 250)
    js = [Job('borrow-step', 'h_borrow_step', {}, dict(arith='int')),
          Job('v2-pool', 'h_v2_pool', dict(steps=6 if th else 4), dict(arith='int')),
          Job('v2-pool-race', 'h_v2_pool', dict(steps=5 if th else 4, race=True), dict(arith='int'))]
    for cap in range(2):
        for thr in range(2):
            js.append(Job('history-c%d-t%d' % (cap, thr), 'h_history', dict(steps=steps),
                          dict(o, pin={'max_in_flight': cap, 'orphan_threshold': thr})))
            js.append(Job('preempt-c%d-t%d' % (cap, thr), 'h_history', dict(steps=steps - 1, preempt=True),
                          dict(o, pin={'max_in_flight': cap, 'orphan_threshold': thr})))
    if th:
        # general pre-emption (thorough): any other-thread event at any lock acquire/release while no lock is held
        js.append(Job('any-race', 'h_history', dict(steps=4, race='any'),
                      dict(o, pin={'max_in_flight': 0, 'orphan_threshold': 0}, max_paths=400000)))
    # the session has a keyspace and the server may reject USE on a replacement connection (the keyspace was dropped)
    js.append(Job('replace-use-rejected', 'h_history', dict(steps=steps - 1, use_fault=True),
                  dict(o, pin={'max_in_flight': 0, 'orphan_threshold': 0})))
    # one pre-emption by a thread calling shutdown() at a lock acquire/release inside HostConnection._replace
    js.append(Job('replace-shutdown-race', 'h_history', dict(steps=steps - 1, race='replace-shutdown'),
                  dict(o, pin={'max_in_flight': 0, 'orphan_threshold': 0})))
    return js
