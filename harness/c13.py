"""C13 — replacing an overloaded connection never abandons live requests."""
import sx
from sx.run import Job
from harness import kit, poolhist
from harness import rfworld as W

META = dict(
    level='model_checking',
    level_text='bounded histories of the real HostConnection replacement logic driven by real ResponseFutures (orphaning past the threshold, replacement task, responses, late responses, borrows in every order); every interleaving is a forked symbolic choice decided by z3; plus one-step checks of the trash/close decision from symbolic counters',
    level_note='task-level schedules; transport/timers/executor faked; stream capacity 2-3 and orphan threshold 1-2 so that replacement happens within the bound',
    technique='symbolic execution (sx proxies, LIA) of the real pool/connection/future code over solver-enumerated event interleavings + z3 validity per path',
    bounds=dict(quick='<= 3 requests, histories of <= 5 events + drain; capacity 2..3 streams, orphan threshold 1..2; replace step: in_flight, orphan count in [0, 32767] symbolic',
                thorough='<= 4 requests, histories of <= 7 events + drain'),
    assumptions=['race jobs: a timer (client-side timeout, speculative execution) may fire on a thread other than the event loop\'s, so it can overlap the handling of a response - Connection.create_timer does not promise otherwise and the driver itself guards _on_timeout with the connection lock; with the bundled reactors timers run on the event-loop thread, for which these schedules are an over-approximation; two responses are never handled at the same time', 'each server answer arrives at most once per stream'],
    stubs=['transport/timers/executor: harness kit', 'protocol codec: identity'],
    outside=['pre-emption between the two lock regions of one pool method (sync-point-level schedules)'],
)


def encoded_functions():
    from cassandra.pool import HostConnection
    from cassandra.connection import Connection
    from cassandra.cluster import ResponseFuture
    return [HostConnection.borrow_connection, HostConnection.return_connection, HostConnection._replace,
            HostConnection.on_orphaned_stream_released, Connection.process_msg, ResponseFuture._on_timeout]


def h_history(V, steps=5, nreq=3, race=None):
    return poolhist.run_history(V, 'C13', steps=steps, nreq=nreq, race=race)


def h_replace_step(V):
    """_replace on a connection in an arbitrary counter state: closed iff only orphans remain, else trashed;
    then the last live request returns: closed exactly then"""
    world = W.RFWorld(V, n_hosts=1, protocol_version=4)
    pool = world.pools[world.hosts[0]]
    old = pool._connection
    n_orph = V.choice('orphans', 3)
    live = V.choice('live', 3)
    old.orphaned_request_ids = set(range(100, 100 + n_orph))
    extra = V.int('other_in_flight', 0, 0)
    old.in_flight = n_orph + live
    old.orphaned_threshold_reached = V.flag('threshold_reached')
    pool._is_replacing = True
    pool._replace(old)
    new = pool._connection
    V.check(new is not old and new is not None, 'C13:new-requests-move-to-fresh-connection')
    c2, rid = pool.borrow_connection(timeout=0)
    V.check(c2 is new, 'C13:new-requests-move-to-fresh-connection')
    if old.orphaned_threshold_reached:
        V.check(old.is_closed == (live == 0), 'C13:closed-iff-only-orphans-remain')
        for i in range(live):
            V.check(not old.is_closed, 'C13:not-closed-while-live-requests-pending')
            pool.return_connection(old)
        V.check(old.is_closed, 'C13:replaced-connection-closed-once-only-orphans-remain')
    else:
        V.check(not old.is_closed, 'C13:not-closed-while-live-requests-pending')


def jobs(tier):
    th = tier == 'thorough'
    steps = 7 if th else 5
    o = dict(arith='int', max_seconds=1500 if th else 250)
    js = [Job('replace-step', 'h_replace_step', {}, dict(arith='int'))]
    for cap in range(2):
        for thr in range(2):
            js.append(Job('history-c%d-t%d' % (cap, thr), 'h_history', dict(steps=steps, nreq=4 if th else 3),
                          dict(o, pin={'max_in_flight': cap, 'orphan_threshold': thr})))
    if th:
        # general pre-emption (thorough): any other-thread event at any lock acquire/release while no lock is held
        js.append(Job('any-race', 'h_history', dict(steps=4, nreq=3, race='any'),
                      dict(o, pin={'max_in_flight': 0, 'orphan_threshold': 0}, max_paths=400000)))
    # one pre-emption: the late response is delivered while _on_timeout is between popping the request and
    # recording the stream as orphaned (before it takes the connection lock)
    for cap in range(2):
        js.append(Job('timeout-response-race-c%d' % cap, 'h_history', dict(steps=steps + 2, nreq=3, race='timeout-response'),
                      dict(o, pin={'max_in_flight': cap, 'orphan_threshold': 0})))
    return js
