"""C14 — every request completes exactly once."""
import sx
from sx.run import Job
from harness import rfhist
from harness.rfhist import Run, RETRY, RETHROW, IGNORE, NEXT

META = dict(
    level='model_checking',
    level_text='bounded histories of one execution through the real ResponseFuture over real pools: the order of responses, timer firings, executor tasks and connection failures, the kind of each response and every retry decision are symbolic choices; z3 decides each path; after the history every outstanding request is answered (late responses) and the outcome count and result() are checked',
    level_note='task-level schedules (callbacks run atomically); transport, timers, executor faked; histories bounded',
    technique='symbolic execution (sx proxies) of the real ResponseFuture/HostConnection/Connection code over solver-enumerated event and decision sequences + z3 validity per path',
    bounds=dict(quick='2-3 hosts, <= 2 speculative executions, <= 2 policy consultations, responses {rows, read-timeout error, syntax error}, histories of <= 4 events then drain',
                thorough='3 hosts, <= 2 speculative executions, <= 3 policy consultations, + unavailable/overloaded responses, histories of <= 6 events then drain'),
    assumptions=['each stream is answered at most once by the server'],
    stubs=['transport/timers/executor: harness kit', 'codec: identity', 'retry policy: decision oracle (every decision explored)'],
    outside=['callbacks that raise', 'registering callbacks concurrently with completion (add_callback race)', 'paging (C18), re-prepare (C19)'],
)


def encoded_functions():
    from cassandra.cluster import ResponseFuture as R
    return [R._set_result, R._set_final_result, R._set_final_exception, R._handle_retry_decision, R._retry, R._retry_task,
            R._on_timeout, R._on_speculative_execute, R.send_request, R._query, R.result, R.add_callback, R.add_errback]


def h_history(V, steps=4, spec=0, hosts=2, responses=('rows', 'read_timeout', 'syntax'), calls=2, defunct=True):
    run = Run(V, n_hosts=hosts, responses=responses, decisions=(RETRY, RETHROW, IGNORE, NEXT), levels=(None,),
              spec_attempts=spec, idempotent=spec > 0, allow_defunct=defunct, max_policy_calls=calls)
    rf = run.rf
    rf.send_request()
    fired_timeout = [False]
    for i in range(steps):
        k = run.step('ev%d' % i)
        if k is None:
            break
        V.check(run.outcomes() <= 1, 'never-more-than-one-outcome', note=' / '.join(run.trace))
    # every request still outstanding is answered (late responses), queued work runs
    for _ in range(12):
        p = run.world.pending()
        if p:
            c, stream, tag, msg = p[0]
            run.world.respond(c, stream, run.world.rows(tag))
        elif run.world.tasks():
            run.world.executor.run_one(0)
        else:
            break
        V.check(run.outcomes() <= 1, 'never-more-than-one-outcome', note=' / '.join(run.trace) + ' / drain')
    V.tag('trace', list(run.trace))
    if run.settled():
        V.check(run.outcomes() == 1, 'outcome-delivered-once-everything-answered', note=' / '.join(run.trace))
    kind, val = run.result_outcome()
    if rf.results:
        V.check(kind == 'ok', 'result()-agrees-with-callback')
    elif rf.errors_seen:
        V.check(kind == 'error' and val is rf.errors_seen[0], 'result()-agrees-with-errback')
    V.tag('outcome', kind)


def jobs(tier):
    th = tier == 'thorough'
    steps = 6 if th else 4
    resp = ('rows', 'read_timeout', 'syntax', 'unavailable', 'overloaded') if th else ('rows', 'read_timeout', 'syntax')
    o = dict(max_seconds=2400 if th else 280)
    js = []
    for spec in (0, 1, 2):
        for first in range(4):
            js.append(Job('spec%d-f%d' % (spec, first), 'h_history',
                          dict(steps=steps, spec=spec, hosts=3 if (th or spec == 2) else 2, responses=resp, calls=3 if th else 2),
                          dict(o, pin={'ev0': first})))
    return js
