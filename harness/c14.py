"""C14 — every request completes exactly once."""
import sx
from sx.run import Job
from harness import rfhist
from harness.rfhist import Run, RETRY, RETHROW, IGNORE, NEXT

META = dict(
    level='model_checking',
    level_text='bounded histories of one execution through the real ResponseFuture over real pools: the order of responses, timer firings, executor tasks and connection failures, the kind of each response and every retry decision are symbolic choices; z3 decides each path; after the history every outstanding request is answered (late responses) and the outcome count and result() are checked',
    level_note='task-level schedules (callbacks run atomically), plus one pre-emption by the delivering thread at any lock acquire/release of add_callback/add_errback (job callback-race) and one pre-emption by another thread (timer, queued task, connection failure, response when no response is being handled) at any lock boundary of short histories (jobs any-race-f*); transport, timers, executor faked; histories bounded',
    technique='symbolic execution (sx proxies) of the real ResponseFuture/HostConnection/Connection code over solver-enumerated event and decision sequences + z3 validity per path',
    bounds=dict(quick='2-3 hosts, <= 2 speculative executions, <= 2 policy consultations, responses {rows, read-timeout error, syntax error}, histories of <= 4 events then drain',
                thorough='3 hosts, <= 2 speculative executions, <= 3 policy consultations, + unavailable/overloaded responses, histories of <= 6 events then drain; any-race2 jobs: 3 events + 2 pre-emptions'),
    assumptions=['race jobs: a timer (client-side timeout, speculative execution) may fire on a thread other than the event loop\'s, so it can overlap the handling of a response - Connection.create_timer does not promise otherwise and the driver itself guards _on_timeout with the connection lock; with the bundled reactors timers run on the event-loop thread, for which these schedules are an over-approximation; two responses are never handled at the same time', 'each stream is answered at most once by the server'],
    stubs=['transport/timers/executor: harness kit', 'codec: identity', 'retry policy: decision oracle (every decision explored)'],
    outside=['callbacks that raise', 'pre-emption inside lock-free regions other than the sync points of add_callback/add_errback', 'paging (C18), re-prepare (C19)'],
)


def encoded_functions():
    from cassandra.cluster import ResponseFuture as R
    return [R._set_result, R._set_final_result, R._set_final_exception, R._handle_retry_decision, R._retry, R._retry_task,
            R._on_timeout, R._on_speculative_execute, R.send_request, R._query, R.result, R.add_callback, R.add_errback]


def h_history(V, steps=4, spec=0, hosts=2, responses=('rows', 'read_timeout', 'syntax'), calls=2, defunct=True, race=False, budget=1):
    run = Run(V, n_hosts=hosts, responses=responses, decisions=(RETRY, RETHROW, IGNORE, NEXT), levels=(None,),
              spec_attempts=spec, idempotent=spec > 0, allow_defunct=defunct, max_policy_calls=calls)
    rf = run.rf
    if race:
        # general pre-emption: at any lock acquire/release of any driver function, while the running thread holds no
        # lock, another thread performs one of the enabled events (a response, a timer, a queued task, a socket error)
        from harness import kit
        rfhist.arm_race(V, run, budget)
    rf.send_request()
    fired_timeout = [False]
    for i in range(steps):
        k = run.step('ev%d' % i)
        if k is None:
            break
        V.check(run.outcomes() <= 1, 'never-more-than-one-outcome', note=' / '.join(run.trace))
    # every request still outstanding is answered (late responses), queued work runs
    for _ in range(12):
        p = run.world.pending()
        if p:
            c, stream, tag, msg = p[0]
            run.world.respond(c, stream, run.world.rows(tag))
        elif run.world.tasks():
            run.world.executor.run_one(0)
        else:
            break
        V.check(run.outcomes() <= 1, 'never-more-than-one-outcome', note=' / '.join(run.trace) + ' / drain')
    V.tag('trace', list(run.trace))
    if run.settled():
        V.check(run.outcomes() == 1, 'outcome-delivered-once-everything-answered', note=' / '.join(run.trace))
    kind, val = run.result_outcome()
    if rf.results:
        V.check(kind == 'ok', 'result()-agrees-with-callback')
    elif rf.errors_seen:
        V.check(kind == 'error' and val is rf.errors_seen[0], 'result()-agrees-with-errback')
    V.tag('outcome', kind)


def h_callback_race(V):
    """callbacks registered while the response (or an error, or the client timeout) is being delivered by another
    thread: every sync point of add_callback / add_errback / add_callbacks (before taking and after releasing the
    callback lock) is a point where the delivering thread may run; each registered function runs exactly once"""
    from harness import kit
    from harness.rfworld import RFWorld
    from cassandra.protocol import SyntaxException
    world = RFWorld(V, n_hosts=1)
    rf = world.new_future(1)
    rf.send_request()
    kind = V.pick('completion', ['rows', 'error', 'client-timeout'])
    when = V.pick('registered', ['before-completion', 'during', 'after-completion'])

    def deliver(*a):
        if kind == 'client-timeout':
            rf._on_timeout()
        else:
            c, stream, tag, m = world.pending()[0]
            world.respond(c, stream, world.rows(1) if kind == 'rows' else SyntaxException(0x2000, 'bad', None))

    calls = []
    cb = lambda r: calls.append(('cb', r))
    eb = lambda e: calls.append(('eb', e))
    pre = kit.Preempter(V, ('add_callback', 'add_errback', 'add_callbacks'), deliver) if when == 'during' else (lambda *a: None)
    rf._callback_lock = kit.SchedLock('callback_lock', pre)
    api = V.pick('api', ['add_callbacks', 'add_callback-then-add_errback'])
    if when == 'after-completion':
        deliver()
    if api == 'add_callbacks':
        rf.add_callbacks(cb, eb)
    else:
        rf.add_callback(cb)
        rf.add_errback(eb)
    delivered_in_between = when == 'during' and pre.used > 0
    if when == 'before-completion' or (when == 'during' and not delivered_in_between):
        deliver()
    V.tag('scenario', '%s/%s/%s/%s' % (kind, when, api, getattr(pre, 'log', None)))
    want = 'cb' if kind == 'rows' else 'eb'
    got = [c[0] for c in calls]
    V.check(got.count(want) == 1, 'registered-function-runs-exactly-once', note='%s ran %d times (%r)' % (want, got.count(want), got))
    V.check(got.count('cb' if want == 'eb' else 'eb') == 0, 'only-the-matching-function-runs', note=repr(got))
    V.check(len(rf.results) + len(rf.errors_seen) == 1, 'never-more-than-one-outcome')


def jobs(tier):
    th = tier == 'thorough'
    steps = 6 if th else 4
    resp = ('rows', 'read_timeout', 'syntax', 'unavailable', 'overloaded') if th else ('rows', 'read_timeout', 'syntax')
    o = dict(max_seconds=2400 if th else 280)
    js = []
    for spec in (0, 1, 2):
        for first in range(4):
            js.append(Job('spec%d-f%d' % (spec, first), 'h_history',
                          dict(steps=steps, spec=spec, hosts=3 if (th or spec == 2) else 2, responses=resp, calls=3 if th else 2),
                          dict(o, pin={'ev0': first})))
    js.append(Job('callback-race', 'h_callback_race', {}))
    if th:
        for first in range(3):
            js.append(Job('any-race-f%d' % first, 'h_history', dict(steps=4, spec=1, hosts=2, responses=('rows', 'read_timeout'), calls=2, race=True),
                          dict(max_seconds=1200, pin={'ev0': first}, max_paths=300000)))
            js.append(Job('any-race2-f%d' % first, 'h_history', dict(steps=3, spec=1, hosts=2, responses=('rows', 'read_timeout'), calls=2, race=True, budget=2),
                          dict(max_seconds=1200, pin={'ev0': first}, max_paths=300000)))
    else:
        # quick: one pre-emption in short histories with a speculative execution in flight
        for first in range(3):
            js.append(Job('any-race-f%d' % first, 'h_history', dict(steps=3, spec=1, hosts=2, responses=('rows', 'read_timeout'), calls=2, race=True),
                          dict(max_seconds=250, pin={'ev0': first}, max_paths=300000)))
    return js
