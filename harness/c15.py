"""C15 — requests with a timeout always finish in bounded time.

Servers may stay silent for ever.  The virtual clock only moves when a timer
fires, so "finishes within the timeout" is decided as: whenever the execution
is not finished and nothing is queued for immediate execution, a timer is
pending whose deadline is not later than start + timeout (so the reactor will
wake the request up in time), and when that timer chain is followed the
execution is finished at a virtual time <= start + timeout.
"""
import sx
from sx.run import Job
from harness import rfhist
from harness.rfhist import Run, RETRY, RETHROW, IGNORE, NEXT, CL
from cassandra import OperationTimedOut

META = dict(
    level='model_checking',
    level_text='bounded histories with silent / late / failing servers through the real ResponseFuture timer logic on a virtual clock: every event order, response kind and retry decision is a forked symbolic choice; the invariant "an unfinished execution always has a wake-up scheduled no later than start+timeout" is decided on every path, for the first page and for later pages',
    level_note='task-level schedules; plus, in the *-race jobs, one pre-emption by another thread (a response, a timer, a queued task or a connection failure) at any lock acquire/release reached while the running thread holds no lock; timers are the harness reactor (fire at their deadline, in deadline order); plans finite',
    technique='symbolic execution (sx proxies) of the real ResponseFuture timer/timeout path over solver-enumerated histories + z3 validity per path',
    bounds=dict(quick='3 hosts, timeout 10 s, speculative executions 0..2 (delay 1 s), <= 4 events + following the timer chain; one later page',
                thorough='<= 6 events, 2 later pages'),
    assumptions=['race jobs: a timer (client-side timeout, speculative execution) may fire on a thread other than the event loop\'s, so it can overlap the handling of a response - Connection.create_timer does not promise otherwise and the driver itself guards _on_timeout with the connection lock; with the bundled reactors timers run on the event-loop thread, for which these schedules are an over-approximation; two responses are never handled at the same time', 'the reactor fires a timer at its deadline', 'query plans are finite'],
    stubs=['transport/timers/executor: harness kit', 'codec: identity', 'retry policy: decision oracle'],
    outside=['timeout=None', 'schema-agreement waits after DDL'],
)

EPS = 0.5      # the virtual clock ticks by 1 ms per time() call; slack for that


def encoded_functions():
    from cassandra.cluster import ResponseFuture as R
    return [R._start_timer, R._cancel_timer, R._on_timeout, R._on_speculative_execute, R._time_remaining.fget,
            R.start_fetching_next_page, R._set_final_result, R._set_final_exception]


def _liveness(V, run, start, label):
    rf = run.rf
    if rf._event.is_set() or run.world.tasks():
        return
    ts = [t for t in run.world.timers()]
    ok = any(t.at <= start + run.timeout + EPS for t in ts)
    V.check(ok, label, note='trace %s; pending timers at %r, deadline %r' % (' / '.join(run.trace), [round(t.at - start, 3) for t in ts], run.timeout))


def _follow_timers(V, run, start, label):
    """servers stay silent from now on: let time pass"""
    rf = run.rf
    for _ in range(12):
        if rf._event.is_set():
            break
        if run.world.tasks():
            run.world.executor.run_one(0)
            continue
        ts = sorted(run.world.timers(), key=lambda t: t.at)
        if not ts:
            break
        ts[0].fire()
    V.check(rf._event.is_set(), label, note='never finishes: ' + ' / '.join(run.trace))
    if rf._event.is_set():
        V.check(run.world.w.clock <= start + run.timeout + EPS, 'finished-within-the-timeout',
                note='finished at +%.3f s' % (run.world.w.clock - start))


def h_first_page(V, steps=4, spec=0, race=False):
    run = Run(V, n_hosts=3, responses=('read_timeout', 'unavailable'), decisions=(RETRY, NEXT), levels=(None,),
              spec_attempts=spec, idempotent=spec > 0, allow_defunct=True, max_policy_calls=2, timeout=10.0)
    start = run.start
    if race:
        # at any lock acquire/release while no lock is held, another thread delivers a response, fires a timer,
        # runs a queued task or fails a connection; the liveness condition is evaluated once both have finished
        rfhist.arm_race(V, run)
    run.rf.send_request()
    _liveness(V, run, start, 'unfinished-execution-has-a-wake-up-before-the-deadline')
    for i in range(steps):
        if run.step('ev%d' % i) is None:
            break
        _liveness(V, run, start, 'unfinished-execution-has-a-wake-up-before-the-deadline')
    V.tag('trace', list(run.trace))
    _follow_timers(V, run, start, 'silent-servers-still-lead-to-completion')


def h_next_page(V, pages=1, spec=0, steps=2):
    run = Run(V, n_hosts=3, responses=('read_timeout',), decisions=(RETRY, NEXT), levels=(None,),
              spec_attempts=spec, idempotent=spec > 0, allow_defunct=False, max_policy_calls=1, timeout=10.0)
    rf = run.rf
    world = run.world
    rf.send_request()
    for p in range(pages):
        # the current page arrives (possibly after some time), with a paging state
        c, stream, tag, msg = world.pending()[0]
        r = world.rows(tag)
        r.paging_state = b'ps%d' % p
        world.respond(c, stream, r)
        V.check(rf._event.is_set() and rf.has_more_pages, 'page-delivered')
        world.w.clock += V.pick('think_time_%d' % p, [0.0, 3.0, 30.0])     # the application consumes the page
        start = world.w.clock
        rf.start_fetching_next_page()
        _liveness(V, run, start, 'page-fetch-has-a-wake-up-before-its-deadline')
        for i in range(steps):
            if not world.pending() or rf._event.is_set():
                break
            if p == pages - 1:
                break
    # servers silent for the last page fetch
    _follow_timers(V, run, start, 'silent-servers-still-lead-to-completion-of-the-page-fetch')


def jobs(tier):
    th = tier == 'thorough'
    o = dict(max_seconds=2400 if th else 280)
    js = []
    for spec in (0, 1, 2):
        js.append(Job('first-page-spec%d' % spec, 'h_first_page', dict(steps=6 if th else 4, spec=spec), o))
        js.append(Job('next-page-spec%d' % spec, 'h_next_page', dict(pages=2 if th else 1, spec=spec), o))
    for spec in (0, 1):
        js.append(Job('first-page-race-spec%d' % spec, 'h_first_page', dict(steps=4 if th else 3, spec=spec, race=True), o))
    return js
