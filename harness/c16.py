"""C16 — retries do exactly what the retry policy decided."""
import sx
from sx.run import Job
from harness import rfhist
from harness.rfhist import Run, RETRY, RETHROW, IGNORE, NEXT, POLICY_KIND, CL

META = dict(
    level='model_checking',
    level_text='bounded error sequences through the real ResponseFuture with a decision-oracle retry policy: every (decision, consistency) answer, every error kind and every event order is a forked symbolic choice; after each consultation the next message sent / the outcome is compared with the fold of the decisions; z3 decides each path',
    level_note='task-level schedules; plus, in the *-race jobs, one pre-emption by another thread (a response, a timer, a queued task or a connection failure) at any lock acquire/release reached while the running thread holds no lock; single logical execution (no speculative interleaving except in the idempotence job); transport/timers/executor faked',
    technique='symbolic execution (sx proxies) of the real ResponseFuture retry path over solver-enumerated error/decision sequences + z3 validity per path',
    bounds=dict(quick='3 hosts, <= 2 policy consultations, error kinds {read timeout, write timeout, unavailable, overloaded, connection error(defunct)}, decisions x levels {None, ONE}, histories of <= 5 events',
                thorough='3 hosts, <= 3 policy consultations, + bootstrapping / server error, histories of <= 7 events; retries-race2 jobs: 3 events + 2 pre-emptions'),
    assumptions=['race jobs: a timer (client-side timeout, speculative execution) may fire on a thread other than the event loop\'s, so it can overlap the handling of a response - Connection.create_timer does not promise otherwise and the driver itself guards _on_timeout with the connection lock; with the bundled reactors timers run on the event-loop thread, for which these schedules are an over-approximation; two responses are never handled at the same time', 'each stream is answered at most once'],
    stubs=['transport/timers/executor: harness kit', 'codec: identity', 'retry policy: decision oracle'],
    outside=['speculative executions racing with retries (C14 covers outcome uniqueness)'],
)


def encoded_functions():
    from cassandra.cluster import ResponseFuture as R
    return [R._set_result, R._handle_retry_decision, R._retry, R._retry_task, R._query, R.send_request, R._start_timer]


def h_retries(V, steps=5, calls=2, responses=('rows', 'read_timeout', 'write_timeout', 'unavailable', 'overloaded'), race=False, budget=1):
    run = Run(V, n_hosts=3, responses=responses, decisions=(RETRY, RETHROW, IGNORE, NEXT), levels=(None, CL.ONE),
              spec_attempts=0, idempotent=False, allow_defunct=True, max_policy_calls=calls)
    rf = run.rf
    pre = rfhist.arm_race(V, run, budget) if race else None
    rf.send_request()
    for i in range(steps):
        ncalls = len(run.policy.calls)
        nsent = len(run.sent())
        ndef = len(run.defuncted)
        used = pre.used if pre else 0
        k = run.step('ev%d' % i)
        if k is None:
            break
        if pre and pre.used != used:
            continue            # two events overlapped in this step: only the end-of-history checks apply
        new_calls = run.policy.calls[ncalls:]
        if k == 'respond':
            rk = run.consumed[-1]
            if rk in POLICY_KIND and not rf._event.is_set() or (rk in POLICY_KIND and new_calls):
                V.check(len(new_calls) == 1, 'policy-consulted-exactly-once-per-error', note=rk)
                V.check(new_calls[0]['kind'] == POLICY_KIND[rk], 'policy-method-matches-error-kind', note='%s -> %s' % (rk, new_calls[0]['kind']))
            elif rk == 'rows':
                V.check(not new_calls, 'policy-not-consulted-on-success')
        if k == 'defunct' and run.outcomes() == 0:
            V.check(len(new_calls) == 1 and new_calls[0]['kind'] == 'request_error', 'policy-consulted-on-connection-error')
        for c in new_calls:
            idx = run.policy.calls.index(c)
            V.check(c['retry_num'] == sum(1 for p in run.policy.calls[:idx] if p['decision'] in (RETRY, NEXT)),
                    'retry-count-passed-equals-retries-performed', note=repr(run.policy.calls))
    # let queued retry tasks run so that the message decided upon is actually sent
    run.world.executor.run_all(10)
    sent = run.sent()
    calls = run.policy.calls
    # fold of the decisions: expected (host, level) sequence.  A same-host retry whose pool has no usable
    # connection any more (its connection was failed in this history) legitimately moves on to the next host.
    got = [(h, l) for (h, l, m) in sent]
    dead_hosts = set(run.host_of(i) for i in run.defuncted)
    exp = [(0, CL.QUORUM)]
    host, level = 0, CL.QUORUM
    outcome = None
    for c in calls:
        if outcome is not None:
            break
        d, lvl = c['decision'], c['level']
        if d == RETHROW:
            outcome = 'error'
        elif d == IGNORE:
            outcome = 'empty'
        else:
            if lvl is not None:
                level = lvl
            if d == NEXT:
                host = host + 1
            elif host in dead_hosts and len(got) > len(exp) and got[len(exp)][0] != host:
                host = host + 1
            while host in dead_hosts and d == NEXT and host <= 2 and len(got) > len(exp) and got[len(exp)][0] != host:
                host = host + 1
            if host > 2:
                outcome = 'nohost'
                break
            exp.append((host, level))
    V.tag('sent', got)
    V.tag('decisions', [(rfhist.DEC_NAMES[c['decision']], c['level']) for c in calls])
    V.check(got == exp[:len(got)] and len(got) >= len(exp) - (1 if rf._event.is_set() and outcome is None else 0),
            'messages-sent-follow-the-decisions', note='sent %r expected %r' % (got, exp))
    V.check(len(got) <= len(exp), 'nothing-sent-beyond-the-decisions', note='sent %r expected %r' % (got, exp))
    if outcome == 'error':
        V.check(len(rf.errors_seen) == 1 and not rf.results, 'rethrow-raises-the-servers-error')
    if outcome == 'empty' and not rf.errors_seen:
        V.check(rf.results == [None], 'ignore-returns-empty-result')


def h_spec_retry(V):
    """a retry decided while a speculative execution is in flight goes to the host whose error was judged"""
    run = Run(V, n_hosts=3, responses=('read_timeout', 'unavailable'), decisions=(RETRY, NEXT), levels=(None, CL.ONE),
              spec_attempts=1, idempotent=True, allow_defunct=False, max_policy_calls=1)
    rf = run.rf
    rf.send_request()
    ts = sorted(run.world.timers(), key=lambda t: t.at)
    ts[0].fire()                       # speculative execution goes to the next host of the plan
    V.check([h for (h, l, m) in run.sent()] == [0, 1], 'speculative-execution-uses-next-host')
    pend = run.world.pending()
    which = V.choice('error_from', len(pend))
    c, stream, tag, msg = pend[which]
    errhost = run.host_of(c.idx)
    kind = run.responses[V.choice('kind', 2)]
    run.world.respond(c, stream, rfhist.make_response(run.world, kind, tag))
    V.check(len(run.policy.calls) == 1, 'policy-consulted-exactly-once-per-error')
    run.world.executor.run_all(5)
    call = run.policy.calls[0]
    sent = run.sent()
    V.tag('sent', [(h, l) for (h, l, m) in sent])
    V.check(len(sent) == 3, 'one-message-per-retry-decision', note=repr([(h, l) for (h, l, m) in sent]))
    exp_level = call['level'] if call['level'] is not None else CL.QUORUM
    if call['decision'] == RETRY:
        V.check(sent[-1][0] == errhost, 'same-host-retry-goes-to-the-host-that-failed', note='error from host %d, retried on %r' % (errhost, sent[-1][0]))
    else:
        V.check(sent[-1][0] == 2, 'next-host-retry-continues-the-plan', note=repr(sent[-1][0]))
    V.check(sent[-1][1] == exp_level, 'retry-uses-the-chosen-consistency')


def h_idempotence(V, idempotent=False):
    """statements not marked idempotent are never executed speculatively"""
    run = Run(V, n_hosts=3, responses=('rows',), spec_attempts=2, idempotent=idempotent, allow_defunct=False)
    rf = run.rf
    rf.send_request()
    for i in range(3):
        ts = sorted(run.world.timers(), key=lambda t: t.at)
        if not ts:
            break
        ts[0].fire()
    n = len(run.sent())
    V.tag('sent', n)
    if idempotent:
        V.check(n == 3, 'idempotent-statement-is-executed-speculatively')
    else:
        V.check(n == 1, 'non-idempotent-never-speculative', note='%d messages sent' % n)


def h_speculative_gate(V):
    """the real Session._create_response_future: a speculative plan (and the speculative timer) only for statements
    marked idempotent, whatever the execution profile's speculative policy"""
    import types
    import cassandra.cluster as cc
    from cassandra import query as cq
    from cassandra.policies import RetryPolicy, ConstantSpeculativeExecutionPolicy, RoundRobinPolicy, NoSpeculativeExecutionPlan
    from cassandra.encoder import Encoder
    timers = []
    idem = V.flag('statement_is_idempotent')
    kind = V.pick('statement', ['simple', 'bound', 'batch'])
    prof = cc.ExecutionProfile(load_balancing_policy=RoundRobinPolicy(), retry_policy=RetryPolicy(), request_timeout=10.0,
                               speculative_execution_policy=ConstantSpeculativeExecutionPolicy(0.1, 2))
    cluster = types.SimpleNamespace(
        _config_mode=cc._ConfigMode.PROFILES, _default_load_balancing_policy=RoundRobinPolicy(), timestamp_generator=lambda: 1,
        allow_beta_protocol_version=False, profile_manager=types.SimpleNamespace(profiles={cc.EXEC_PROFILE_DEFAULT: prof}),
        connection_class=types.SimpleNamespace(create_timer=lambda t, cb: timers.append((t, cb.__name__)) or types.SimpleNamespace(cancel=lambda: None)))
    sess = types.SimpleNamespace(cluster=cluster, row_factory=cq.named_tuple_factory, _protocol_version=4, default_fetch_size=5000,
                                 use_client_timestamp=True, encoder=Encoder(), _metrics=None, keyspace='ks')
    sess._maybe_get_execution_profile = lambda ep: cc.Session._maybe_get_execution_profile(sess, ep)
    sess.get_execution_profile = lambda name: cc.Session.get_execution_profile(sess, name)
    if kind == 'simple':
        q = cq.SimpleStatement('SELECT 1', is_idempotent=idem)
    elif kind == 'batch':
        q = cq.BatchStatement()
        q.is_idempotent = idem
    else:
        ps = cq.PreparedStatement([], b'id', None, 'q', 'ks', 4, None, None)
        ps.is_idempotent = idem
        q = ps
    rf = cc.Session._create_response_future(sess, q, [] if kind == 'bound' else None, False, None, 10.0, cc.EXEC_PROFILE_DEFAULT)
    speculative = not isinstance(rf._spec_execution_plan, NoSpeculativeExecutionPlan)
    V.tag('shape', '%s/%s' % (kind, idem))
    V.check(speculative == idem, 'non-idempotent-never-speculative', note='%s statement, is_idempotent=%r: speculative plan %r' % (kind, idem, speculative))
    V.check(bool(timers) and (timers[0][1] == '_on_speculative_execute') == idem, 'speculative-timer-only-for-idempotent-statements', note=repr(timers))


def jobs(tier):
    th = tier == 'thorough'
    resp = ('rows', 'read_timeout', 'write_timeout', 'unavailable', 'overloaded') + (('bootstrapping', 'server_error') if th else ())
    o = dict(max_seconds=2400 if th else 280)
    js = [Job('idempotent', 'h_idempotence', dict(idempotent=True)), Job('spec-retry', 'h_spec_retry'), Job('speculative-gate', 'h_speculative_gate', {})]
    for r in range(len(resp)):
        js.append(Job('retries-r%d' % r, 'h_retries', dict(steps=7 if th else 5, calls=3 if th else 2, responses=resp),
                      dict(o, pin={'ev0_resp': r, 'ev0': 0})))
    for first in range(3):
        js.append(Job('retries-race-f%d' % first, 'h_retries', dict(steps=4 if th else 3, calls=2, responses=('rows', 'read_timeout', 'unavailable'), race=True),
                      dict(o, pin={'ev0': first})))
    if th:
        for first in range(3):
            js.append(Job('retries-race2-f%d' % first, 'h_retries', dict(steps=3, calls=2, responses=('rows', 'read_timeout', 'unavailable'), race=True, budget=2),
                          dict(o, pin={'ev0': first})))
    js.append(Job('retries-defunct-first', 'h_retries', dict(steps=6 if th else 4, calls=3 if th else 2, responses=resp), dict(o, pin={'ev0': 2})))
    return js
