"""C17 — hosts are tried in query-plan order and exhaustion is reported."""
import sx
from sx.run import Job
from harness import rfhist
from harness.rfhist import Run, RETRY, RETHROW, IGNORE, NEXT, CL
from cassandra.cluster import NoHostAvailable

META = dict(
    level='model_checking',
    level_text='every combination of per-host pool condition (healthy / no pool / shut down / all streams busy / send fails) over plans of up to 4 hosts, followed by bounded response histories with next-host retry decisions, through the real ResponseFuture.send_request/_query over real pools; each combination and event order is a forked symbolic choice decided by z3',
    level_note='task-level schedules; plus, in the *-race jobs, one pre-emption by another thread (a response, a timer, a queued task or a connection failure) at any lock acquire/release reached while the running thread holds no lock; pool conditions are set up on real HostConnection objects (shutdown(), in_flight at capacity, transport raising); transport/timers/executor faked',
    technique='symbolic execution (sx proxies) of the real ResponseFuture host-selection path over solver-enumerated pool-state vectors and event orders + z3 validity per path',
    bounds=dict(quick='plans of 1..4 hosts x 5 pool conditions per host; afterwards <= 3 events with responses {rows, unavailable -> policy oracle {NEXT, RETHROW}}; explicit-host target with 2 conditions',
                thorough='same plans, <= 5 events, all four retry decisions; plan-3-race2: 3 events + 2 pre-emptions'),
    assumptions=['race jobs: a timer (client-side timeout, speculative execution) may fire on a thread other than the event loop\'s, so it can overlap the handling of a response - Connection.create_timer does not promise otherwise and the driver itself guards _on_timeout with the connection lock; with the bundled reactors timers run on the event-loop thread, for which these schedules are an over-approximation; two responses are never handled at the same time', 'the load-balancing plan is finite and fixed for the execution'],
    stubs=['transport/timers/executor: harness kit', 'codec: identity', 'retry policy: decision oracle'],
    outside=['plans that change while the request runs'],
)


def encoded_functions():
    from cassandra.cluster import ResponseFuture as R
    return [R.send_request, R._query, R._make_query_plan, R._retry_task, R._handle_retry_decision]


def h_plan(V, hosts=3, steps=3, decisions=(NEXT, RETHROW), target=False, race=False, budget=1):
    run = Run(V, n_hosts=hosts, pool_states=rfhist.POOL_STATES, responses=('rows', 'unavailable'), decisions=decisions,
              levels=(None,), allow_defunct=False, max_policy_calls=3, host_target=target)
    rf = run.rf
    world = run.world
    states = [run.states[h] for h in world.hosts]
    rf.send_request()
    usable = [i for i, s in enumerate(states) if s == 'healthy']
    plan = [0] if target else list(range(hosts))
    usable = [i for i in usable if i in plan]
    first = [h for (h, l, m) in run.sent()]
    if usable:
        V.check(first == [usable[0]], 'first-usable-host-of-the-plan-is-tried', note='states %r sent %r' % (states, first))
        skipped = [i for i in plan if i < usable[0]]
    else:
        V.check(first == [], 'nothing-sent-without-a-usable-host')
        V.check(len(rf.errors_seen) == 1 and isinstance(rf.errors_seen[0], NoHostAvailable), 'exhausted-plan-raises-no-host-available')
        skipped = plan
    for i in skipped:
        V.check(world.hosts[i] in rf._errors, 'skipped-host-recorded-with-reason', note='host %d (%s)' % (i, states[i]))
    if race:
        # from here on another thread may deliver a response / run a queued retry at any lock acquire or release
        rfhist.arm_race(V, run, budget)
    for i in range(steps):
        if run.step('ev%d' % i) is None:
            break
    world.executor.run_all(10)
    sent = [h for (h, l, m) in run.sent()]
    V.tag('sent', sent)
    V.tag('states', states)
    # hosts are tried in plan order, never twice unless a RETRY decision said so
    retries_same = sum(1 for c in run.policy.calls if c['decision'] == RETRY)
    V.check(sent == sorted(sent), 'hosts-tried-in-plan-order', note=repr(sent))
    V.check(len(sent) - len(set(sent)) <= retries_same, 'host-not-tried-again-without-retry-decision', note=repr(sent))
    V.check(all(h in usable for h in sent), 'only-usable-hosts-receive-messages', note='%r %r' % (sent, states))
    nha = [e for e in rf.errors_seen if isinstance(e, NoHostAvailable)]
    if nha:
        # only after the plan is exhausted; lists every host of the plan
        tried_all = all((i in sent) or (states[i] != 'healthy') for i in plan)
        V.check(tried_all, 'no-host-available-only-after-exhaustion', note='%r %r' % (sent, states))
        errs = nha[0].errors
        for i in plan:
            V.check(world.hosts[i] in errs, 'no-host-available-lists-every-attempted-host', note='host %d missing from %r' % (i, list(errs)))


def h_retry_unusable(V):
    """a same-host retry finds the host's pool unusable: the request moves on through the plan"""
    run = Run(V, n_hosts=3, responses=('unavailable',), decisions=(RETRY,), levels=(None,), allow_defunct=False, max_policy_calls=1)
    rf = run.rf
    world = run.world
    rf.send_request()
    c, stream, tag, msg = world.pending()[0]
    world.respond(c, stream, rfhist.make_response(world, 'unavailable', tag))
    V.check(len(world.tasks()) == 1, 'retry-is-queued')
    how = V.pick('pool_becomes', ['shutdown', 'busy', 'missing', 'send-fails'])
    h0 = world.hosts[0]
    pool = world.pools[h0]
    if how == 'shutdown':
        pool.shutdown()
    elif how == 'busy':
        pool._connection.in_flight = pool._connection.max_request_id
    elif how == 'missing':
        del world.pools[h0]
    else:
        run.states[h0] = 'send-fails'
    nhosts_down = V.choice('others_down', 3)       # 0: h1,h2 healthy; 1: h1 down; 2: both down
    for i in range(nhosts_down):
        world.pools[world.hosts[i + 1]].shutdown()
    world.executor.run_all(5)
    sent = [h for (h, l, m) in run.sent()]
    V.tag('sent', sent)
    if nhosts_down < 2:
        V.check(sent == [0, nhosts_down + 1], 'request-moves-on-to-the-next-usable-host', note=repr(sent))
        V.check(h0 in rf._errors, 'skipped-host-recorded-with-reason')
    else:
        V.check(sent == [0], 'nothing-sent-without-a-usable-host')
        V.check(len(rf.errors_seen) == 1 and isinstance(rf.errors_seen[0], NoHostAvailable), 'exhausted-plan-raises-no-host-available',
                note='outcomes: %r' % (rf.errors_seen,))


def jobs(tier):
    th = tier == 'thorough'
    dec = (NEXT, RETHROW, RETRY, IGNORE) if th else (NEXT, RETHROW)
    o = dict(max_seconds=2400 if th else 280)
    js = [Job('target', 'h_plan', dict(hosts=2, steps=2, target=True, decisions=dec), o), Job('retry-unusable', 'h_retry_unusable', {}, o)]
    for n in (1, 2, 3):
        js.append(Job('plan-%d' % n, 'h_plan', dict(hosts=n, steps=5 if th else 3, decisions=dec), o))
    if th:
        js.append(Job('plan-3-race2', 'h_plan', dict(hosts=3, steps=3, decisions=(NEXT, RETHROW, RETRY), race=True, budget=2), o))
    js.append(Job('plan-3-race', 'h_plan', dict(hosts=3, steps=4 if th else 3, decisions=(NEXT, RETHROW, RETRY), race=True), o))
    for p0 in range(5):
        js.append(Job('plan-4-p%d' % p0, 'h_plan', dict(hosts=4, steps=5 if th else 3, decisions=dec), dict(o, pin={'pool0': p0})))
    return js
