"""C18 — paged results yield every row exactly once, in order."""
import sx
from sx.run import Job
from harness import kit
from harness import rfworld as W
from harness.rfworld import RFWorld
import cassandra.cluster as ccluster
from cassandra.cluster import ResultSet
import threading

META = dict(
    level='model_checking',
    level_text='every page-size sequence (including empty pages) up to the bound crossed with every access pattern (iteration, all(), list mode via indexing / equality, manual fetch_next_page, a mix) through the real ResultSet and ResponseFuture paging code against a scripted server; each combination is a forked symbolic choice decided by z3',
    level_note='the server answers a page request as soon as the client blocks on it (single outstanding request); transport/timers/executor faked',
    technique='symbolic execution (sx proxies) of the real ResultSet/ResponseFuture paging path over solver-enumerated page-size sequences and access patterns + z3 validity per path',
    bounds=dict(quick='1..4 pages, 0..2 rows per page, 7 access patterns (iteration, all(), indexing, equality, manual fetch_next_page, partial iteration, callback-driven paging)', thorough='1..6 pages, 0..2 rows per page'),
    assumptions=['the server returns a paging state with every page except the last'],
    stubs=['transport/timers/executor: harness kit', 'codec: identity', 'threading.Event.wait in cassandra.cluster: lets the scripted server answer'],
    outside=['continuous paging', 'row factories producing generators', 'calling iter() a second time on a partly consumed ResultSet (restarts the current page by design of ResultSet.__iter__)'],
)


def encoded_functions():
    from cassandra.cluster import ResponseFuture as R
    return [ResultSet.next, ResultSet.fetch_next_page, ResultSet.__iter__, ResultSet._fetch_all, ResultSet._enter_list_mode,
            ResultSet.__getitem__, R.start_fetching_next_page, R._set_result, R.result]


class ServedEvent(object):
    """threading.Event whose wait() lets the scripted server answer outstanding requests"""
    serve = None

    def __init__(self):
        self._e = threading.Event()

    def set(self): self._e.set()
    def clear(self): self._e.clear()
    def is_set(self): return self._e.is_set()
    isSet = is_set

    def wait(self, timeout=None):
        n = 0
        while not self._e.is_set() and ServedEvent.serve is not None and n < 50:
            if not ServedEvent.serve():
                break
            n += 1
        if not self._e.is_set():
            if timeout is not None:
                # the wait times out on the virtual clock
                w = kit.World.cur
                if w is not None:
                    w.clock += max(timeout, 0)
                return False
            from sx.core import PathEnd
            raise PathEnd()
        return True


def h_paging(V, max_pages=4):
    ccluster.Event = ServedEvent
    world = RFWorld(V, n_hosts=1, protocol_version=4)
    npages = V.choice('pages', max_pages) + 1
    sizes = [V.choice('rows%d' % p, 3) for p in range(npages)]
    pages = []
    n = 0
    for p, k in enumerate(sizes):
        pages.append([n + i for i in range(k)])
        n += k
    allrows = [r for pg in pages for r in pg]
    served = [0]
    problems = []

    def serve():
        pend = world.pending()
        if not pend:
            return False
        c, stream, tag, msg = pend[0]
        k = served[0]
        snap = world.server.snap[len(world.server.received) - 1]
        want = None if k == 0 else b'state-%d' % (k - 1)
        if snap['paging_state'] != want:
            problems.append('request for page %d carried paging state %r, expected %r' % (k, snap['paging_state'], want))
        if k >= npages:
            problems.append('page %d requested but the last page had no paging state' % k)
            r = world.rows(0)
            r.parsed_rows = []
            r.paging_state = None
        else:
            r = world.rows(0)
            r.parsed_rows = [(x,) for x in pages[k]]
            r.paging_state = (b'state-%d' % k) if k < npages - 1 else None
        served[0] += 1
        world.respond(c, stream, r)
        return True
    ServedEvent.serve = serve
    rf = world.new_future(1)
    pattern = V.pick('access', ['iterate', 'all', 'index', 'equality', 'manual', 'mixed', 'callbacks'])
    V.tag('sizes', sizes)
    if pattern == 'callbacks':
        # callback-driven paging as in the driver documentation: the page handler asks for the next page
        got = []

        def handle_page(page_rows):
            got.extend(page_rows)
            if rf.has_more_pages:
                rf.start_fetching_next_page()
        rf.add_callbacks(handle_page, lambda e: problems.append('error %r' % (e,)))
        rf.send_request()
        for _ in range(20):
            if not serve():
                break
        V.check(got == allrows, 'rows-are-the-concatenation-of-all-pages', note='sizes %r got %r' % (sizes, got))
        V.check(not problems, 'page-requests-chain-the-paging-state', note='; '.join(problems))
        V.check(served[0] == npages, 'every-page-requested-exactly-once', note='%d requests for %d pages' % (served[0], npages))
        return
    rf.send_request()
    rs = rf.result()
    got = None
    if pattern == 'iterate':
        got = [r for r in rs]
    elif pattern == 'all':
        got = rs.all()
    elif pattern == 'index':
        got = []
        try:
            i = 0
            while True:
                got.append(rs[i])
                i += 1
        except IndexError:
            pass
    elif pattern == 'equality':
        V.check(rs == allrows, 'list-mode-equals-all-rows', note='sizes %r' % (sizes,))
        got = list(rs)
    elif pattern == 'manual':
        got = list(rs.current_rows)
        while rs.has_more_pages:
            rs.fetch_next_page()
            got += list(rs.current_rows)
    else:
        # iterate a little, then page manually
        got = []
        it = iter(rs)
        take = V.choice('take', 3)
        try:
            for _ in range(take):
                got.append(next(it))
            while True:                 # keep using the same iterator (no second iter() call)
                got.append(next(it))
        except StopIteration:
            pass
    V.check(got == allrows, 'rows-are-the-concatenation-of-all-pages', note='sizes %r got %r' % (sizes, got))
    V.check(not problems, 'page-requests-chain-the-paging-state', note='; '.join(problems))
    V.check(served[0] == npages, 'every-page-requested-exactly-once', note='%d requests for %d pages' % (served[0], npages))
    V.check(not rs.has_more_pages, 'no-more-pages-after-the-last')


def jobs(tier):
    th = tier == 'thorough'
    mp = 6 if th else 4
    return [Job('paging-a%d' % a, 'h_paging', dict(max_pages=mp), dict(pin={'access': a}, max_seconds=1200 if th else 250)) for a in range(7)]
