"""C19 — unknown prepared statements are transparently re-prepared."""
import sx
from sx.run import Job
from harness import rfhist
from harness import rfworld as W
from harness.rfworld import RFWorld
from cassandra import ProtocolVersion, DriverException, ConsistencyLevel as CL
from cassandra.query import PreparedStatement, BoundStatement
from cassandra.protocol import (ExecuteMessage, PrepareMessage, PreparedQueryNotFound, ResultMessage,
                                RESULT_KIND_PREPARED, SyntaxException)
from cassandra.cluster import NoHostAvailable

META = dict(
    level='model_checking',
    level_text='every response sequence around UNPREPARED (prepared with same / different id, error, connection loss, then result) for every protocol version and keyspace relation, through the real ResponseFuture re-prepare path; sequences, versions and event orders are forked symbolic choices decided by z3',
    level_note='task-level schedules; the node is scripted; statement ids are opaque byte strings; transport/timers/executor faked',
    technique='symbolic execution (sx proxies) of the real ResponseFuture._set_result/_reprepare/_execute_after_prepare over solver-enumerated response sequences + z3 validity per path',
    bounds=dict(quick='2 hosts, protocol versions {3,4,5,DSE_V1,DSE_V2}, statement keyspace {none, same as session, different}, prepare outcomes {same id, other id, error, connection loss}, statement known to the cluster or not',
                thorough='same space plus a second UNPREPARED after the re-send'),
    assumptions=['the node answers PREPARE with the id it would compute for (keyspace, query text)'],
    stubs=['transport/timers/executor: harness kit', 'codec: identity'],
    outside=['server-side id computation'],
)

VERSIONS = [3, 4, 5, ProtocolVersion.DSE_V1, ProtocolVersion.DSE_V2]


def encoded_functions():
    from cassandra.cluster import ResponseFuture as R
    return [R._set_result, R._reprepare, R._execute_after_prepare, R._query]


def h_reprepare(V, again=False):
    pv = V.pick('protocol_version', VERSIONS)
    world = RFWorld(V, n_hosts=2, protocol_version=pv)
    ks_rel = V.pick('statement_keyspace', ['none', 'same', 'different'])
    session_ks = 'ks1'
    stmt_ks = {'none': None, 'same': 'ks1', 'different': 'ks2'}[ks_rel]
    order = V.pick('free_stream_ids', [[0, 1, 2, 3], [1, 2, 0, 3], [2, 0, 1, 3], [3, 2, 1, 0]])
    for p in world.pools.values():
        p._connection.keyspace = session_ks
        # the connection has been in use: its free stream ids come back in any order (0 is a valid id)
        W.set_id_state(p._connection, order + list(range(4, 300)), 299, p._connection.max_request_id)
    qid = b'id-1'
    ps = PreparedStatement([], qid, [], 'SELECT * FROM t WHERE k=?', stmt_ks, pv, [], None)
    known = V.flag('statement_registered_with_cluster')
    if known:
        world.cluster._prepared_statements[qid] = ps
    use_ps = True if not known else V.flag('future_has_prepared_statement')
    msg = ExecuteMessage(qid, [], CL.QUORUM)
    rf = world.new_future(1, message=msg, prepared_statement=ps if use_ps else None, query=BoundStatement(ps))
    rf.send_request()
    c, stream, tag, m = world.pending()[0]
    world.respond(c, stream, PreparedQueryNotFound(0x2500, 'unprepared', qid))
    carries_ks = ProtocolVersion.uses_keyspace_flag(pv)
    if not carries_ks and stmt_ks is not None and stmt_ks != session_ks:
        # the session keyspace no longer matches: error, nothing further sent
        V.check(len(rf.errors_seen) == 1 and isinstance(rf.errors_seen[0], ValueError), 'keyspace-mismatch-fails-the-request')
        world.executor.run_all(5)
        V.check(len(world.server.received) == 1, 'nothing-sent-after-keyspace-mismatch')
        return
    world.executor.run_all(1)            # the queued _reprepare
    recv = world.server.received
    snaps = world.server.snap
    V.check(len(recv) == 2 and snaps[1]['kind'] == 'PrepareMessage', 'unprepared-leads-to-one-prepare', note=repr([s['kind'] for s in snaps]))
    V.check(rfhist_host(world, recv[1][0]) == rfhist_host(world, recv[0][0]), 'prepare-goes-to-the-same-node')
    V.check(snaps[1]['query'] == ps.query_string, 'prepare-carries-the-same-query-text')
    V.check(snaps[1]['keyspace'] == (stmt_ks if carries_ks else None), 'prepare-carries-the-statement-keyspace-when-the-protocol-does',
            note='sent keyspace %r' % (snaps[1]['keyspace'],))
    outcome = V.pick('prepare_outcome', ['same-id', 'other-id', 'error', 'connection-loss'])
    pend = [p for p in world.pending() if isinstance(p[3], PrepareMessage)]
    c2, stream2, tag2, m2 = pend[0]
    if outcome in ('same-id', 'other-id'):
        r = ResultMessage(RESULT_KIND_PREPARED)
        r.query_id = qid if outcome == 'same-id' else b'id-2'
        r.column_metadata = []
        r.result_metadata_id = None
        r.bind_metadata = []
        r.pk_indexes = []
        world.respond(c2, stream2, r)
    elif outcome == 'error':
        world.respond(c2, stream2, SyntaxException(0x2000, 'bad', None))
    else:
        c2.defunct(OSError(104, 'reset'))
    world.executor.run_all(5)
    kinds = [s['kind'] for s in world.server.snap]
    hosts = [rfhist_host(world, r[0]) for r in world.server.received]
    V.tag('sent', list(zip(kinds, hosts)))
    if outcome == 'same-id':
        V.check(kinds == ['ExecuteMessage', 'PrepareMessage', 'ExecuteMessage'] and hosts[2] == hosts[0],
                'original-request-resent-to-the-same-node-after-prepare', note=repr(list(zip(kinds, hosts))))
        V.check(not rf.errors_seen, 'no-error-after-successful-reprepare')
        cx, sx_, tx, mx = world.pending()[0]
        if again and V.flag('unprepared_again'):
            world.respond(cx, sx_, PreparedQueryNotFound(0x2500, 'unprepared', qid))
            world.executor.run_all(1)
            V.check([s['kind'] for s in world.server.snap][-1] == 'PrepareMessage', 'unprepared-leads-to-one-prepare')
        else:
            world.respond(cx, sx_, world.rows(1))
            V.check(rf.results == [[1]], 'request-completes-after-reprepare')
    elif outcome == 'other-id':
        if use_ps:
            V.check(len(rf.errors_seen) == 1 and isinstance(rf.errors_seen[0], DriverException), 'id-mismatch-fails-the-request')
            V.check(kinds == ['ExecuteMessage', 'PrepareMessage'], 'nothing-sent-after-id-mismatch', note=repr(list(zip(kinds, hosts))))
    elif outcome == 'error':
        V.check(len(rf.errors_seen) == 1, 'prepare-error-fails-the-request')
        V.check(kinds == ['ExecuteMessage', 'PrepareMessage'], 'nothing-sent-after-prepare-error', note=repr(kinds))
    else:
        # connection lost while preparing: the request moves on to the next host of the plan
        V.check(kinds[:2] == ['ExecuteMessage', 'PrepareMessage'] and kinds[2:] == ['ExecuteMessage'] and hosts[2] == 1,
                'connection-loss-during-prepare-moves-to-next-host', note=repr(list(zip(kinds, hosts))))


def rfhist_host(world, conn_idx):
    c = world.w.conns[conn_idx]
    for i, h in enumerate(world.hosts):
        if str(h.endpoint.address) == str(c.endpoint.address):
            return i
    return None


def jobs(tier):
    th = tier == 'thorough'
    return [Job('reprepare-v%d' % i, 'h_reprepare', dict(again=th), dict(pin={'protocol_version': i})) for i in range(len(VERSIONS))]
