"""C20 — switching the session keyspace is applied everywhere or reported."""
import sx
from sx.run import Job
from harness import kit
from harness import rfworld as W
from harness.rfworld import RFWorld
import cassandra.cluster as ccluster
import cassandra.connection as cconn
from cassandra.protocol import (ResultMessage, RESULT_KIND_SET_KEYSPACE, InvalidRequestException, ServerError, QueryMessage)
from cassandra.connection import ConnectionException
from harness.c18 import ServedEvent

META = dict(
    level='model_checking',
    level_text='every combination of per-pool condition (connection / none / shut down), per-connection outcome of the USE (ok, invalid request, server error, connection lost) and completion order, for both pool classes, through the real Session._set_keyspace_for_all_pools, pool._set_keyspace_for_all_conns and Connection.set_keyspace_async; each combination is a forked symbolic choice decided by z3',
    level_note='task-level schedules; the node is scripted; transport/timers/executor faked',
    technique='symbolic execution (sx proxies) of the real keyspace-switch callback chain over solver-enumerated outcome vectors and completion orders + z3 validity per path',
    bounds=dict(quick='1..3 pools (HostConnection) / 1..2 pools x 2 connections (HostConnectionPool), 3 pool conditions, 4 USE outcomes, every completion order; a failed switch is retried once with every node accepting (1-2 pools); membership-race: a node-down event removes a pool from the session at a boundary of the session lock inside _set_keyspace_for_all_pools',
                thorough='same'),
    assumptions=['a node answers each USE once'],
    stubs=['transport/timers/executor: harness kit', 'codec: identity', 'Event.wait: scripted server answers'],
    outside=['pools added while a switch is in progress'],
)


def encoded_functions():
    from cassandra.cluster import Session
    from cassandra.pool import HostConnection, HostConnectionPool
    from cassandra.connection import Connection
    return [Session._set_keyspace_for_all_pools, HostConnection._set_keyspace_for_all_conns,
            HostConnectionPool._set_keyspace_for_all_conns, Connection.set_keyspace_async]


OUTCOMES = ['ok', 'invalid', 'server-error', 'connection-lost']
CONDS = ['connected', 'no-connection', 'shutdown']


def _answer(world, conn, stream, msg, outcome, server_ks):
    if outcome == 'ok':
        server_ks[conn.idx] = 'ks2'
        world.respond(conn, stream, ('RAW', 0x08, W.result_set_keyspace_body('ks2')))
    elif outcome == 'invalid':
        world.respond(conn, stream, ('RAW', 0x00, W.error_body(0x2200, 'no such keyspace')))
    elif outcome == 'server-error':
        world.respond(conn, stream, ('RAW', 0x00, W.error_body(0x0000, 'boom')))
    else:
        conn.defunct(OSError(104, 'reset'))


def _is_use(p):
    return getattr(p[3], 'query', None) is not None and isinstance(p[3].query, str) and p[3].query.startswith('USE')


def h_switch(V, npools=2, v2=False, twice=False, race=False, membership=False):
    ccluster.Event = ServedEvent
    cconn.Event = ServedEvent
    ServedEvent.serve = None
    world = RFWorld(V, n_hosts=npools, protocol_version=2 if v2 else 4, pool_class=W.HostConnectionPool if v2 else None)
    session = world.session
    server_ks = {}
    outcomes = {}
    if race:
        # one pre-emption: while the switching thread is at a lock acquire/release (holding no lock), the event loop
        # thread delivers the answer to a USE that is already on the wire (or the connection fails)
        from harness import kit

        def loop_thread(*a):
            pend = [p for p in world.pending() if _is_use(p)]
            c, stream, tag, msg = pend[V.choice('pre_order', len(pend))]
            oc = OUTCOMES[V.choice('pre_outcome', len(OUTCOMES))]
            outcomes[c.idx] = oc
            V.tag('preempted_with', oc)
            _answer(world, c, stream, msg, oc, server_ks)
        pre = kit.Preempter(V, None, loop_thread, only_unlocked=True, enabled=lambda: any(_is_use(p) for p in world.pending()))
        for c in world.w.conns:
            c.lock = kit.SchedLock('connection.lock', pre)
        if not v2:
            for pool in world.pools.values():
                pool._lock = kit.SchedLock('pool._lock', pre)
                pool._stream_available_condition = kit.VirtualCondition(pool._lock)
    conds = {}
    for i, h in enumerate(world.hosts):
        cond = CONDS[V.choice('pool%d' % i, len(CONDS))] if not v2 else CONDS[V.choice('pool%d' % i, 2)]
        conds[h] = cond
        pool = world.pools[h]
        if cond == 'shutdown':
            pool.shutdown()
        elif cond == 'no-connection':
            if v2:
                for c in list(pool._connections):
                    c.defunct(OSError('gone'))
                pool._connections = []
            else:
                pool._connection.defunct(OSError('gone'))
                pool._connection = None
        V.tag('pool%d' % i, cond)
    done = []
    if membership:
        # a node goes down (its pool is removed from the session, as Session.on_down does) at an acquire/release of the
        # session lock inside _set_keyspace_for_all_pools
        from harness import kit

        def node_down(*a):
            h = world.hosts[V.choice('host_down', len(world.hosts))]
            V.tag('node_down', str(h.endpoint.address))
            session._pools.pop(h, None)
        mpre = kit.Preempter(V, ('_set_keyspace_for_all_pools',), node_down)
        session._lock = kit.SchedLock('session._lock', mpre)
    ccluster.Session._set_keyspace_for_all_pools(session, 'ks2', lambda errors: done.append(errors))
    # the USE requests are answered in any order
    for step in range(8):
        pend = [p for p in world.pending() if _is_use(p)]
        if not pend:
            break
        c, stream, tag, msg = pend[V.choice('order%d' % step, len(pend))]
        oc = OUTCOMES[V.choice('outcome%d' % step, len(OUTCOMES))]
        outcomes[c.idx] = oc
        _answer(world, c, stream, msg, oc, server_ks)
    V.tag('outcomes', sorted(outcomes.items()))
    V.check(len(done) == 1, 'switch-completes-exactly-once', note='callback invoked %d times; pools %r outcomes %r' % (len(done), list(conds.values()), outcomes))
    any_failed = any(o != 'ok' for o in outcomes.values())
    if done:
        V.check(bool(done[0]) == any_failed, 'errors-reported-iff-some-pool-failed', note='errors %r outcomes %r' % (done[0], outcomes))
    if done and done[0] and twice:
        # the application retries the switch; this time every node accepts
        done2 = []
        ccluster.Session._set_keyspace_for_all_pools(session, 'ks2', lambda errors: done2.append(errors))
        for step in range(8):
            pend = [p for p in world.pending() if _is_use(p)]
            if not pend:
                break
            c, stream, tag, msg = pend[0]
            _answer(world, c, stream, msg, 'ok', server_ks)
        V.check(len(done2) == 1, 'switch-completes-exactly-once', note='second switch: callback invoked %d times' % len(done2))
        done = done2
    # after a reported success every connection a later request can borrow has the keyspace selected
    if done and not done[0]:
        def serve():
            # a replacement connection selects the keyspace before it is used (blocking USE): the node accepts it
            pend = [p for p in world.pending() if _is_use(p)]
            if not pend:
                return False
            c, stream, tag, msg = pend[0]
            _answer(world, c, stream, msg, 'ok', server_ks)
            return True
        ServedEvent.serve = serve
        world.executor.run_all(10)
        for h, pool in world.pools.items():
            if pool.is_shutdown:
                continue
            try:
                if v2:
                    conn, rid = pool.borrow_connection(timeout=0.5)
                else:
                    conn, rid = pool.borrow_connection(timeout=0)
            except (W.NoConnectionsAvailable, ConnectionException):
                continue
            V.check(conn.keyspace == 'ks2' and server_ks.get(conn.idx) == 'ks2', 'borrowed-connection-has-the-keyspace',
                    note='connection #%d: driver thinks %r, node has %r' % (conn.idx, conn.keyspace, server_ks.get(conn.idx)))
    for c in world.w.conns:
        V.check(c.in_flight >= 0, 'in-flight-never-negative')


def jobs(tier):
    o = dict(max_seconds=600)
    js = []
    for n in (1, 2, 3):
        js.append(Job('v3-pools%d' % n, 'h_switch', dict(npools=n, twice=(n < 3)), o))
    for n in (1, 2):
        js.append(Job('v2-pools%d' % n, 'h_switch', dict(npools=n, v2=True, twice=(n < 2)), o))
    # the event loop answers a USE (or the connection fails) while the switching thread is still working through the pools
    js.append(Job('race-pools2', 'h_switch', dict(npools=2, race=True), o))
    js.append(Job('membership-race', 'h_switch', dict(npools=2, membership=True), o))
    if tier != 'quick':
        js.append(Job('race-pools3', 'h_switch', dict(npools=3, race=True), o))
    return js
