"""C21 — load-balancing plans reflect the live cluster membership."""
import sx
from sx.run import Job

sx.instrument('cassandra.policies')
from harness import kit
kit.install_reactor()
from cassandra import policies as pol
from cassandra.policies import (RoundRobinPolicy, DCAwareRoundRobinPolicy, WhiteListRoundRobinPolicy,
                                HostFilterPolicy, HostDistance, SimpleConvictionPolicy)
from cassandra.pool import Host

META = dict(
    level='model_checking',
    level_text='bounded membership histories (populate order, up/down/add/remove/datacenter-change events, datacenter of each host, constructor parameters: all forked symbolic choices; the round-robin position an arbitrary symbolic integer) through the real policies; after every event the plan is compared with a reference live set kept by the harness; z3 decides each path',
    level_note='hosts are concrete objects (they are hashed by the policies), their datacenter and the event order are solver-enumerated; events are delivered the way the cluster delivers them (a datacenter change is down / relocate / up)',
    technique='symbolic execution (sx proxies) of the real policy classes over solver-enumerated membership histories + z3 validity per path',
    bounds=dict(quick='round-robin / white-list / filter: 3 hosts, 2 events; datacenter-aware: 3 hosts x 3 datacenters x 2 events and 4 hosts x 3 datacenters x 1 event after populate, used_hosts_per_remote_dc in {0,1,2}, local_dc given; white list / filter of symbolic subsets',
                thorough='<= 5 hosts, histories of <= 4 events'),
    assumptions=['the cluster reports each transition with the documented callback'],
    stubs=['random.randint -> symbolic position'],
    outside=['concurrent event delivery', 'local_dc inferred from contact points'],
)


def encoded_functions():
    return [RoundRobinPolicy.populate, RoundRobinPolicy.make_query_plan, RoundRobinPolicy.on_up, RoundRobinPolicy.on_down,
            DCAwareRoundRobinPolicy.populate, DCAwareRoundRobinPolicy.make_query_plan, DCAwareRoundRobinPolicy.distance,
            DCAwareRoundRobinPolicy.on_up, DCAwareRoundRobinPolicy.on_down, WhiteListRoundRobinPolicy.populate,
            WhiteListRoundRobinPolicy.on_up, WhiteListRoundRobinPolicy.on_add, HostFilterPolicy.make_query_plan, HostFilterPolicy.distance]


def _randint(V):
    n = [0]

    def randint(a, b):
        n[0] += 1
        return sx.conc(V.int('position%d' % n[0], a, b))     # every starting position, decided once
    if V.symbolic:
        from sx import hooks
        hooks.register(pol.randint, randint)
    else:
        pol.randint = randint


class FakeCluster(object):
    endpoints_resolved = []
    metadata = None


def _hosts(V, n, ndc):
    hs = []
    for i in range(n):
        h = Host('10.0.0.%d' % (i + 1), SimpleConvictionPolicy)
        dc = V.choice('dc%d' % i, ndc)
        h.set_location_info('dc%d' % dc, 'r1')
        hs.append(h)
    return hs


def _events(V, policy, hosts, live, steps, ndc, check):
    for s in range(steps):
        kind = V.pick('event%d' % s, ['up', 'down', 'add', 'remove', 'move'][:5 if ndc > 1 else 4])
        h = hosts[V.choice('event%d_host' % s, len(hosts))]
        V.tag('e%d' % s, '%s %s' % (kind, h.address))
        if kind in ('up', 'add'):
            getattr(policy, 'on_' + kind)(h)
            live.add(h)
        elif kind in ('down', 'remove'):
            getattr(policy, 'on_' + kind)(h)
            live.discard(h)
        else:
            # datacenter change as ControlConnection._update_location_info delivers it
            newdc = 'dc%d' % V.choice('event%d_dc' % s, ndc)
            was = h in live
            policy.on_down(h)
            h.set_location_info(newdc, 'r1')
            if was:
                policy.on_up(h)
        check('after ' + ' / '.join('%s' % V._ctx.tags.get('e%d' % i, '') if V.symbolic else '' for i in range(s + 1)))


def h_round_robin(V, n=3, steps=3):
    _randint(V)
    hosts = _hosts(V, n, 1)
    p = RoundRobinPolicy()
    npop = V.choice('populated', n + 1)
    p.populate(FakeCluster(), hosts[:npop])
    live = set(hosts[:npop])

    def check(when):
        plan = list(p.make_query_plan())
        V.check(len(plan) == len(set(plan)), 'plan-has-no-duplicates', note=when)
        V.check(set(plan) == live, 'plan-is-exactly-the-live-hosts', note='%s: plan %r live %r' % (when, plan, sorted(live, key=str)))
    check('after populate')
    _events(V, p, hosts, live, steps, 1, check)


def h_dc_aware(V, n=4, steps=3, ndc=3):
    _randint(V)
    hosts = _hosts(V, n, ndc)
    used = V.choice('used_hosts_per_remote_dc', 3)
    p = DCAwareRoundRobinPolicy('dc0', used_hosts_per_remote_dc=used)
    npop = V.choice('populated', n) + 1
    p.populate(FakeCluster(), hosts[:npop])
    live = set(hosts[:npop])

    def check(when):
        plan = list(p.make_query_plan())
        V.check(len(plan) == len(set(plan)), 'plan-has-no-duplicates', note='%s: %r' % (when, plan))
        local = [h for h in live if h.datacenter == 'dc0']
        nl = len(local)
        V.check(set(plan[:nl]) == set(local) and all(h.datacenter != 'dc0' for h in plan[nl:]), 'every-live-local-host-first',
                note='%s: plan %r local live %r' % (when, plan, sorted(local, key=str)))
        rest = plan[nl:]
        V.check(all(h in live for h in rest), 'remote-part-only-live-hosts', note='%s: %r' % (when, rest))
        for dc in ('dc1', 'dc2'):
            live_dc = [h for h in live if h.datacenter == dc]
            in_plan = [h for h in rest if h.datacenter == dc]
            V.check(len(in_plan) == min(used, len(live_dc)), 'at-most-the-configured-number-per-remote-dc',
                    note='%s: %s has %d live, %d in plan, limit %d' % (when, dc, len(live_dc), len(in_plan), used))
        for h in hosts:
            d = p.distance(h)
            if h in plan:
                V.check(d != HostDistance.IGNORED, 'plan-consistent-with-distance', note='%s: %s in plan but IGNORED' % (when, h.address))
            if h in live and d == HostDistance.LOCAL:
                V.check(h in plan, 'plan-consistent-with-distance', note='%s: %s LOCAL and live but not in plan' % (when, h.address))
            if h in live and d == HostDistance.REMOTE:
                V.check(h in plan, 'plan-consistent-with-distance', note='%s: %s REMOTE and live but not in plan' % (when, h.address))
    check('after populate')
    _events(V, p, hosts, live, steps, ndc, check)


def h_white_list(V, n=3, steps=3, filter_policy=False):
    _randint(V)
    hosts = _hosts(V, n, 1)
    allowed = [h for i, h in enumerate(hosts) if V.flag('allowed%d' % i)]
    if filter_policy:
        p = HostFilterPolicy(RoundRobinPolicy(), lambda h: h in allowed)
    else:
        p = WhiteListRoundRobinPolicy([h.address for h in allowed])
    npop = V.choice('populated', n + 1)
    p.populate(FakeCluster(), hosts[:npop])
    live = set(hosts[:npop])

    def check(when):
        plan = list(p.make_query_plan())
        V.check(len(plan) == len(set(plan)), 'plan-has-no-duplicates', note=when)
        V.check(all(h in allowed for h in plan), 'excluded-hosts-never-yielded', note='%s: %r' % (when, plan))
        V.check(set(plan) == set(h for h in live if h in allowed), 'plan-is-exactly-the-live-allowed-hosts',
                note='%s: plan %r' % (when, plan))
        for h in hosts:
            if h not in allowed:
                V.check(p.distance(h) == HostDistance.IGNORED, 'excluded-hosts-are-ignored')
    check('after populate')
    _events(V, p, hosts, live, steps, 1, check)


def jobs(tier):
    th = tier == 'thorough'
    o = dict(max_seconds=2400 if th else 280, conc_cap=16)
    n = 5 if th else 4
    st = 4 if th else 3
    st1 = 3 if th else 2
    js = [Job('round-robin', 'h_round_robin', dict(n=3, steps=st1), o)]
    for a0 in (False, True):
        js.append(Job('white-list-a%d' % a0, 'h_white_list', dict(n=3, steps=st1), dict(o, pin_flag={'allowed0': a0})))
        js.append(Job('host-filter-a%d' % a0, 'h_white_list', dict(n=3, steps=st1, filter_policy=True), dict(o, pin_flag={'allowed0': a0})))
    for used in range(3):
        for e0 in range(5):
            # 3 hosts / 3 datacenters with a longer history, 4 hosts with a single event
            js.append(Job('dc-aware-3h-u%d-e%d' % (used, e0), 'h_dc_aware', dict(n=3, steps=3 if th else 2),
                          dict(o, pin={'used_hosts_per_remote_dc': used, 'event0': e0})))
            js.append(Job('dc-aware-%dh-u%d-e%d' % (n, used, e0), 'h_dc_aware', dict(n=n, steps=2 if th else 1),
                          dict(o, pin={'used_hosts_per_remote_dc': used, 'event0': e0})))
    return js
