"""C22 — token-aware plans put live local replicas first without losing hosts."""
import copy
import sx
from sx.run import Job

sx.instrument('cassandra.policies')
from harness import kit
kit.install_reactor()
from harness import c26
from harness.c26 import _layout, _tok, _start_index, spec_simple, spec_nts, KS, Meta
from cassandra import policies as pol
from cassandra.policies import TokenAwarePolicy, RoundRobinPolicy, DCAwareRoundRobinPolicy, HostDistance
from cassandra.metadata import Metadata, TokenMap, SimpleStrategy, NetworkTopologyStrategy

META = dict(
    level='model_checking',
    level_text='ring layouts and replication settings as in C26 (solver-enumerated), a symbolic key token, every up/down/unknown state per host, both child policies and the shuffle flag (the shuffle permutation is a symbolic choice); the real TokenAwarePolicy.make_query_plan over the real Metadata.get_replicas is compared with the specification: live local replicas in ring order (or a permutation) first, then the wrapped plan minus those',
    level_note='layout variables are concretised (hashed by the driver); the key token and the shuffle permutation are symbolic; partitioner hashing is C08',
    technique='symbolic execution (sx proxies) of the real token-aware policy over solver-enumerated layouts and host states + z3 validity per path',
    bounds=dict(quick='rings of 1..3 slots, <= 3 hosts, 2 datacenters x 2 racks, SimpleStrategy RF 1..3 / NTS RF 0..2, host states {up, down} (first host also unknown); NTS layouts with <= 2 hosts, children {round-robin, dc-aware(used=1)}',
                thorough='rings of <= 4 slots'),
    assumptions=['the statement has a routing key and a keyspace with a replication strategy'],
    stubs=['random.shuffle -> symbolic permutation', 'random.randint -> symbolic position', 'token_class.from_key -> symbolic token (C08 covers hashing)'],
    outside=['rings larger than the bound'],
)


def encoded_functions():
    return [TokenAwarePolicy.make_query_plan, Metadata.get_replicas, TokenMap.get_replicas]


class Stmt(object):
    keyspace = 'ks'
    routing_key = b'key'


def h_plan(V, max_slots=4, nts=False, child='rr', max_hosts=3):
    ring, owner, hosts = _layout(V, max_slots, max_hosts, 2 if nts else 1, 2 if (nts or child == 'dc') else 1)
    token = V.int('key_token', -(1 << 63), (1 << 63) - 1)
    if nts:
        rfs = {'dc0': V.choice('rf_dc0', 3), 'dc1': V.choice('rf_dc1', 3)}
        strat = NetworkTopologyStrategy(dict(rfs))
    else:
        rf = V.choice('rf', 3) + 1
        strat = SimpleStrategy({'replication_factor': rf})

    class SymTokens(object):
        @staticmethod
        def from_key(key):
            return _tok(token)
    md = Metadata()
    # the session's working keyspace has a different replication: the statement's own keyspace decides
    other = SimpleStrategy({'replication_factor': 1 if (nts or rf != 1) else 2})
    md.token_map = TokenMap(SymTokens, owner, ring, Meta({'ks': KS(strat), 'session_ks': KS(other)}))
    for i, h in enumerate(hosts):
        h.is_up = V.pick('is_up%d' % i, [True, False, None] if i == 0 else [True, False])
    shuffle_on = V.flag('shuffle')
    perm_choice = []

    def shuffle(lst):
        # any permutation
        n = len(lst)
        items = list(lst)
        out = []
        while items:
            k = V.choice('shuffle%d' % len(perm_choice), len(items))
            perm_choice.append(k)
            out.append(items.pop(k))
        lst[:] = out

    def randint(a, b):
        return sx.conc(V.int('position', a, b))
    if V.symbolic:
        from sx import hooks
        hooks.register(pol.shuffle, shuffle)
        hooks.register(pol.randint, randint)
    else:
        pol.shuffle = shuffle
        pol.randint = randint
    cluster = type('C', (), {'metadata': md, 'endpoints_resolved': []})()
    childp = RoundRobinPolicy() if child == 'rr' else DCAwareRoundRobinPolicy('dc0', used_hosts_per_remote_dc=1)
    p = TokenAwarePolicy(childp, shuffle_replicas=shuffle_on)
    p.populate(cluster, hosts)
    # the cluster marks hosts it has seen go down
    for i, h in enumerate(hosts):
        if i == 0 and h.is_up is False and V.flag('child_told_down%d' % i):
            p.on_down(h)
    ref_child = copy.copy(childp)
    start = _start_index(V, ring, token)
    replicas = spec_nts(ring, owner, start, rfs) if nts else spec_simple(ring, owner, start, rf)
    plan = list(p.make_query_plan('session_ks', Stmt()))       # the statement's keyspace must win over the session's
    wrapped = list(ref_child.make_query_plan('ks', Stmt()))
    V.tag('plan', sorted(h.address for h in plan))      # order depends on set iteration order: not a stable observation
    first = [r for r in replicas if r.is_up and childp.distance(r) == HostDistance.LOCAL]
    nf = len(first)
    V.check(len(plan) == len(set(plan)), 'no-host-repeated', note='%r' % (plan,))
    if shuffle_on:
        V.check(set(plan[:nf]) == set(first), 'live-local-replicas-first', note='plan %r replicas %r' % (plan, first))
    else:
        # replicas of the driver's own placement order (C26 decides the set); ring order within it
        V.check(set(plan[:nf]) == set(first), 'live-local-replicas-first', note='plan %r replicas %r' % (plan, first))
    rest = [h for h in wrapped if h not in first]
    V.check(plan[nf:] == rest, 'then-the-wrapped-plan-in-its-order', note='plan %r wrapped %r first %r' % (plan, wrapped, first))
    V.check(all(h in plan for h in wrapped), 'no-host-of-the-wrapped-plan-left-out',
            note='plan %r wrapped %r' % (plan, wrapped))
    # a second, non-shuffling policy on the same metadata still sees the replicas in placement order
    if shuffle_on:
        again = list(md.get_replicas('ks', b'key'))
        base = list(strat.make_token_replica_map(owner, ring)[ring[start]])
        V.check(again == base, 'shuffling-does-not-disturb-the-cached-replica-order', note='%r vs %r' % (again, base))


def jobs(tier):
    th = tier == 'thorough'
    o = dict(max_seconds=2400 if th else 280)
    ms = 4 if th else 3
    js = []
    for nts in (False, True):
        for child in ('rr', 'dc'):
            for sh in (False, True):
                js.append(Job('%s-%s-%s' % ('nts' if nts else 'simple', child, 'shuffle' if sh else 'ring'), 'h_plan',
                              dict(max_slots=ms, nts=nts, child=child, max_hosts=(3 if (th or not nts) else 2)), dict(o, pin_flag={'shuffle': sh})))
    return js
