"""C23 — built-in retry policies make bounded, consistency-safe decisions.

All six failure-description fields are symbolic at once; the real policy
methods run on proxies (they only compare integers), the oracle is the
documented decision table written independently.
"""
import warnings
import sx
from sx.run import Job

warnings.simplefilter('ignore')
from cassandra import ConsistencyLevel as CL
from cassandra.policies import (RetryPolicy, FallthroughRetryPolicy, NeverRetryPolicy,
                                DowngradingConsistencyRetryPolicy, WriteType)

RETRY, RETHROW, IGNORE, NEXT = RetryPolicy.RETRY, RetryPolicy.RETHROW, RetryPolicy.IGNORE, RetryPolicy.RETRY_NEXT_HOST

META = dict(
    level='model_checking',
    level_text='every path of the real policy methods is explored with all six failure-description fields symbolic at once; z3 proves the documented decision table and the downgrade safety conditions for all values in the bounds (not a sample)',
    level_note='bounded integer ranges (see evidence bounds); the coordinator contract listed under assumptions; z3 trusted; the oracle decision table is hand-written from the policy docstrings',
    technique='symbolic execution (sx proxies over the real cassandra.policies code) + z3 bit-vector validity queries per path',
    bounds=dict(quick='consistency 0..10, required 0..12, received/alive 0..12, write type 0..6 (+ one unknown), retry_num 0..5, data_retrieved bool: all symbolic at once',
                thorough='consistency -1..12, required/received/alive 0..2^16, write type -1..8, retry_num 0..2^16'),
    assumptions=['coordinator contract for the downgrading policy: unavailable => alive < required; timeout with received < required is what makes a downgrade possible; required >= 1',
                 'coordinator contract: a write timeout reports a serial consistency level only with write type CAS',
                 'replica need of a level: ONE/LOCAL_ONE=1, TWO=2, THREE=3 (the only levels _pick_consistency can return)'],
    stubs=['query object = None (policies do not read it)'],
    outside=['custom RetryPolicy subclasses', 'how ResponseFuture applies the decision (C16)'],
)


def encoded_functions():
    return [RetryPolicy.on_read_timeout, RetryPolicy.on_write_timeout, RetryPolicy.on_unavailable,
            RetryPolicy.on_request_error, FallthroughRetryPolicy.on_read_timeout,
            DowngradingConsistencyRetryPolicy._pick_consistency, DowngradingConsistencyRetryPolicy.on_read_timeout,
            DowngradingConsistencyRetryPolicy.on_write_timeout, DowngradingConsistencyRetryPolicy.on_unavailable,
            NeverRetryPolicy._rethrow]


def _inputs(V, big):
    hi = 65536 if big else 12
    cl = V.int('consistency', -1 if big else 0, 12 if big else 10)
    req = V.int('required', 0, hi)
    rec = V.int('received', 0, hi)
    dr = V.bool('data_retrieved')
    wt = V.int('write_type', -1 if big else 0, 8 if big else 7)
    rn = V.int('retry_num', 0, 65536 if big else 5)
    return cl, req, rec, dr, wt, rn


def _dec(V, r):
    d, c = r
    d = sx.conc(d)
    V.tag('decision', d)
    return d, c


def h_default(V, big=False, method='read'):
    pol = RetryPolicy()
    cl, req, rec, dr, wt, rn = _inputs(V, big)
    if method == 'read':
        d, c = _dec(V, pol.on_read_timeout(None, cl, req, rec, dr, rn))
        exp = sx.land(rn == 0, rec >= req, sx.lnot(dr))
        V.check(sx.iff(d == RETRY, exp), 'default-read-table')
        V.check(d in (RETRY, RETHROW), 'default-read-decisions')
    elif method == 'write':
        d, c = _dec(V, pol.on_write_timeout(None, cl, wt, req, rec, rn))
        exp = sx.land(rn == 0, wt == WriteType.BATCH_LOG)
        V.check(sx.iff(d == RETRY, exp), 'default-write-table')
        V.check(d in (RETRY, RETHROW), 'default-write-decisions')
    elif method == 'unavailable':
        d, c = _dec(V, pol.on_unavailable(None, cl, req, rec, rn))
        V.check(sx.iff(d == NEXT, rn == 0), 'default-unavailable-table')
        V.check(d in (NEXT, RETHROW), 'default-unavailable-decisions')
        V.check(sx.implies(d == NEXT, c is None), 'default-unavailable-keeps-level')
    else:
        d, c = _dec(V, pol.on_request_error(None, cl, Exception('x'), rn))
        V.check(d == NEXT and c is None, 'default-request-error')
        return
    # at most once: any second attempt is rethrown
    V.check(sx.implies(rn != 0, d == RETHROW), 'default-at-most-once')
    # a retry keeps the requested level
    if d == RETRY:
        V.check(sx.eq(c, cl), 'default-same-level')
    if d == RETHROW:
        V.check(c is None, 'rethrow-no-level')


def h_never(V, big=False, which='fallthrough'):
    pol = FallthroughRetryPolicy() if which == 'fallthrough' else NeverRetryPolicy()
    cl, req, rec, dr, wt, rn = _inputs(V, big)
    rs = [pol.on_read_timeout(None, cl, req, rec, dr, rn),
          pol.on_write_timeout(None, cl, wt, req, rec, rn),
          pol.on_unavailable(None, cl, req, rec, rn)]
    if which == 'fallthrough':
        rs.append(pol.on_request_error(None, cl, Exception('x'), rn))
    for i, (d, c) in enumerate(rs):
        V.check(sx.conc(d) == RETHROW, '%s-never-retries' % which)
        V.check(c is None, '%s-no-level' % which)


def need(level):
    """replicas a downgraded level needs (symbolic-friendly)"""
    return sx.ite(level == CL.THREE, 3, sx.ite(level == CL.TWO, 2, sx.ite(sx.lor(level == CL.ONE, level == CL.LOCAL_ONE), 1, 99)))


def h_downgrading(V, big=False, method='read'):
    pol = DowngradingConsistencyRetryPolicy()
    cl, req, rec, dr, wt, rn = _inputs(V, big)
    serial = sx.lor(cl == CL.SERIAL, cl == CL.LOCAL_SERIAL)
    V.assume(req >= 1)
    if method == 'read':
        d, c = _dec(V, pol.on_read_timeout(None, cl, req, rec, dr, rn))
        responders = rec
    elif method == 'write':
        d, c = _dec(V, pol.on_write_timeout(None, cl, wt, req, rec, rn))
        responders = rec
        # coordinator contract: a write timeout means fewer acks than required, and a
        # serial level is only ever reported for the paxos phase (write type CAS)
        V.assume(rec < req)
        V.assume(sx.implies(serial, wt == WriteType.CAS))
    else:
        V.assume(rec < req)       # unavailable: alive < required
        d, c = _dec(V, pol.on_unavailable(None, cl, req, rec, rn))
        responders = rec
    V.check(sx.implies(rn != 0, d == RETHROW), 'downgrading-at-most-once')
    if d in (RETRY, NEXT):
        if c is None:
            V.tag('level', None)
        else:
            changed = sx.lnot(sx.eq(c, cl))
            # never downgrades a serial level
            V.check(sx.implies(serial, sx.lnot(changed)), 'downgrading-never-serial')
            # a changed level needs no more replicas than responded / were alive
            V.check(sx.implies(changed, need(c) <= responders), 'downgrading-need-le-responders')
            # ... and is not stronger than the requested one (needs no more than `required`)
            V.check(sx.implies(changed, need(c) <= req), 'downgrading-not-stronger')
            V.check(sx.implies(changed, sx.lor(c == CL.ONE, c == CL.TWO, c == CL.THREE)), 'downgrading-known-level')
    if d == IGNORE:
        V.check(method == 'write', 'ignore-only-writes')
        V.check(rec > 0, 'ignore-only-if-persisted')
    if d == RETHROW:
        V.check(c is None, 'rethrow-no-level')


def jobs(tier):
    big = tier == 'thorough'
    js = []
    for m in ('read', 'write', 'unavailable', 'error'):
        js.append(Job('default-%s' % m, 'h_default', dict(big=big, method=m)))
    for w in ('fallthrough', 'never'):
        js.append(Job('never-%s' % w, 'h_never', dict(big=big, which=w)))
    for m in ('read', 'write', 'unavailable'):
        js.append(Job('downgrading-%s' % m, 'h_downgrading', dict(big=big, method=m)))
    return js
