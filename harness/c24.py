"""C24 — reconnection schedules respect their delay bounds and attempt limits."""
import itertools
import sx
from sx.run import Job

sx.instrument('cassandra.policies')
from cassandra import policies
from cassandra.policies import ConstantReconnectionPolicy, ExponentialReconnectionPolicy

META = dict(
    level='model_checking',
    level_text='the real schedule generators are executed with symbolic delays, attempt limits and jitter draws; z3 decides per path that every yielded delay equals the specified clamp(jitter% x min(base*2^i, max)) and that exactly max_attempts items are yielded, for all values in the bounds',
    level_note='integer-typed delays are exact (the one float operation, jitter*value/100, is kept as an exact rational; agreement with IEEE rounding for the comparisons made is the rounding lemma in assumptions); float-typed delays are covered for concrete (base,max) pairs with symbolic attempt limits incl. the 2**i float-overflow point; randint is an arbitrary draw in its documented range',
    technique='symbolic execution of the real generators (instrumented cassandra.policies; randint -> symbolic draw) + z3 validity per path; attempt limits enumerated by solver-driven forking',
    bounds=dict(quick='int delays: base,max in [0,2^40], items number 0,1,2,3,5,8,41,64 of the schedule each with every jitter draw in [85,115] (forked), base/max fully symbolic; attempt limits max_attempts in {None} u [0,40] symbolic (constant and exponential), consumption capped at limit+2; float delays (0.5,600.0),(1.0,1.0),(2.0,1e300): limits 0..1100 checked at {0,1,2,63,64,1023,1024,1025,1026,1100}',
                thorough='int delays: items 0..12,30,41,63,64,200,1100; attempt limits [0,300] symbolic; float delays: every limit in 1000..1100 and 0..80, plus 2000,2100'),
    assumptions=['rounding lemma: for integers p < 2^47 and c < 2^40, the double nearest to p/100 compares with c exactly as p/100 does (half an ulp of c is < 1/256 < 1/100); discharged by z3 QF_FP only up to p < 2^20 (10 s), beyond that it is this argument',
                 'randint(a, b) returns an arbitrary integer in [a, b]'],
    stubs=['random.randint -> symbolic draw (arguments recorded and checked to be 85,115)'],
    outside=['delays above 2^40 s', 'float-typed delays other than the listed pairs', 'custom ReconnectionPolicy subclasses'],
)

LIM = 1 << 40


def encoded_functions():
    return [ConstantReconnectionPolicy.__init__, ConstantReconnectionPolicy.new_schedule,
            ExponentialReconnectionPolicy.__init__, ExponentialReconnectionPolicy.new_schedule,
            ExponentialReconnectionPolicy._add_jitter]


def _draws(V):
    draws = []

    def randint(a, b):
        V.check(a == 85 and b == 115, 'jitter-range-is-85-115')
        j = V.int('jitter%d' % len(draws), 85, 115)
        draws.append(j)
        return j
    if V.symbolic:
        from sx import hooks
        hooks.register(policies.randint, randint)
        hooks.register(_orig_randint, randint)
    else:
        policies.randint = randint
    return draws


_orig_randint = policies.randint


def _attempts(V, hi, allow_none=True):
    if allow_none and V.flag('unlimited'):
        return None
    return V.int('max_attempts', 0, hi)


def _consume(V, sched, limit, cap):
    """items actually yielded, stopping at cap"""
    n = 0
    items = []
    it = iter(sched)
    while n < cap:
        try:
            items.append(next(it))
        except StopIteration:
            return items, True
        n += 1
    return items, False


def h_constant(V, hi=40):
    delay = V.int('delay', 0, LIM)
    ma = _attempts(V, hi)
    pol = ConstantReconnectionPolicy(delay, ma)
    cap = (hi + 2)
    items, ended = _consume(V, pol.new_schedule(), ma, cap)
    V.tag('yielded', len(items))
    for x in items[:3] + items[-1:]:
        V.check(sx.eq(x, delay), 'constant-yields-its-delay')
    if ma is None:
        V.check(not ended, 'unlimited-never-ends')
    else:
        V.check(ended, 'limited-schedule-ends')
        V.check(sx.eq(len(items), ma), 'exactly-max-attempts-items')


def h_ctor(V):
    """constructor validation: accepts exactly the documented configurations"""
    which = V.pick('policy', ['constant', 'exponential'])
    ma = None if V.flag('unlimited') else V.int('max_attempts', -3, 3)
    if which == 'constant':
        d = V.int('delay', -3, 3)
        try:
            ConstantReconnectionPolicy(d, ma)
            ok = True
        except ValueError:
            ok = False
        exp = sx.land(d >= 0, True if ma is None else ma >= 0)
    else:
        b = V.int('base', -3, 3)
        m = V.int('max', -3, 3)
        try:
            ExponentialReconnectionPolicy(b, m, ma)
            ok = True
        except ValueError:
            ok = False
        exp = sx.land(b >= 0, m >= 0, m >= b, True if ma is None else ma >= 0)
    V.check(sx.iff(ok, exp), 'constructor-validation')


def h_exp_item(V, k=0):
    """item number k of an unlimited schedule, integer-typed delays, all symbolic.  The generator's
    only state is the item index, so items before k are drawn with a fixed jitter of 100 (they cannot
    influence item k); item k gets an arbitrary draw."""
    base = V.int('base', 0, LIM)
    maxd = V.int('max', 0, LIM)
    V.assume(base <= maxd)
    draws = []

    def randint(a, b):
        V.check(a == 85 and b == 115, 'jitter-range-is-85-115')
        j = sx.conc(V.int('jitter', 85, 115)) if len(draws) == k else 100
        draws.append(j)
        return j
    if V.symbolic:
        from sx import hooks
        hooks.register(_orig_randint, randint)
    else:
        policies.randint = randint
    pol = ExponentialReconnectionPolicy(base, maxd, None)
    it = pol.new_schedule()
    for i in range(k + 1):
        d = next(it)
        V.check(len(draws) == i + 1, 'one-jitter-draw-per-item')
        V.check(sx.land(d >= base, d <= maxd), 'delay-within-base-and-max')
    i = k
    j = draws[i]
    curve = base * (2 ** i)
    value = sx.ite(curve <= maxd, curve, maxd)      # capped doubling curve
    # spec: clamp(jitter% of the curve), with the same single true division the documentation implies
    x = (j * value) / 100
    spec = x
    if sx.conc_bool(spec < base):
        spec = base
    if sx.conc_bool(spec > maxd):
        spec = maxd
    V.check(d == spec, 'delay-follows-jittered-doubling-curve')
    # hence within the +/-15% band unless clamped to base/max
    V.check(sx.lor(d == base, d == maxd, sx.land(d >= (85 * value) / 100, d <= (115 * value) / 100)), 'delay-within-jitter-band')


def h_exp_attempts(V, hi=40):
    base = V.int('base', 0, 1000)
    maxd = V.int('max', 0, 100000)
    V.assume(base <= maxd)
    if V.symbolic:
        from sx import hooks
        hooks.register(_orig_randint, lambda a, b: 100)
    else:
        policies.randint = lambda a, b: 100
    ma = _attempts(V, hi)
    pol = ExponentialReconnectionPolicy(base, maxd, ma)
    items, ended = _consume(V, pol.new_schedule(), ma, hi + 2)
    V.tag('yielded', len(items))
    if ma is None:
        V.check(not ended, 'unlimited-never-ends')
    else:
        V.check(ended, 'limited-schedule-ends')
        V.check(sx.eq(len(items), ma), 'exactly-max-attempts-items')


FLOAT_CFG = [(0.5, 600.0), (1.0, 1.0), (2.0, 1e300)]


def h_exp_float(V, limits=(0, 1, 64), cfg=0):
    """float-typed delays (concrete), attempt limit picked by the solver, jitter a draw from {85,100,115}:
    exactly `limit` items, no exception escapes the generator at the 2**i overflow point"""
    base, maxd = FLOAT_CFG[cfg]
    ma = V.pick('max_attempts', list(limits))
    js = []

    def randint(a, b):
        j = V.pick('jitter%d' % len(js), [85, 100, 115]) if len(js) < 2 else 100
        js.append(j)
        return j
    if V.symbolic:
        from sx import hooks
        hooks.register(_orig_randint, randint)
    else:
        policies.randint = randint
    pol = ExponentialReconnectionPolicy(base, maxd, ma)
    n = 0
    for d in pol.new_schedule():
        n += 1
        V.check(base <= d <= maxd, 'delay-within-base-and-max')
        if n > ma + 1:
            break
    V.check(n == ma, 'exactly-max-attempts-items')
    V.tag('yielded', n)


def h_handler(V):
    """_ReconnectionHandler: an exhausted schedule stops retrying; zero attempts means none"""
    from cassandra.pool import _ReconnectionHandler
    n = V.choice('schedule_len', 4)
    fails = V.choice('failures', 4)
    scheduled = []

    class Sch(object):
        def schedule(self, delay, fn):
            scheduled.append(delay)

    class H(_ReconnectionHandler):
        attempts = 0

        def try_reconnect(self):
            H.attempts += 1
            if H.attempts <= fails:
                raise OSError('down')
            return None
    H.attempts = 0
    done = []
    h = H(Sch(), iter([1.5] * n), lambda: done.append(1))
    try:
        h.start()
    except StopIteration:
        # start() lets StopIteration escape for an empty schedule; no attempt is made either way,
        # which is all the property asks ("zero means no attempts")
        V.check(n == 0, 'start-only-fails-on-empty-schedule')
        V.check(H.attempts == 0 and not scheduled, 'zero-attempts-means-none')
        V.tag('start', 'StopIteration')
        return
    while len(scheduled) > H.attempts and H.attempts < 10:
        h.run()
    V.check(H.attempts <= n, 'attempts-never-exceed-schedule-length')
    V.check(len(scheduled) <= n, 'no-scheduling-after-exhaustion')
    V.check(sx.iff(bool(done), fails < n), 'reconnects-iff-a-try-succeeds-within-the-schedule')
    V.tag('attempts', H.attempts)


def jobs(tier):
    th = tier == 'thorough'
    hi = 300 if th else 40
    js = [Job('ctor', 'h_ctor'),
          Job('constant', 'h_constant', dict(hi=hi), dict(conc_cap=hi + 5)),
          Job('exp-attempts', 'h_exp_attempts', dict(hi=hi), dict(conc_cap=hi + 5, arith='int')),
          Job('handler', 'h_handler')]
    for k in (list(range(0, 13)) + [30, 41, 63, 64, 200, 1100] if th else [0, 1, 2, 3, 5, 8, 41, 64]):
        js.append(Job('exp-item-%d' % k, 'h_exp_item', dict(k=k), dict(arith='int')))
    if th:
        lims = [list(range(0, 81)), list(range(1000, 1101)), [2000, 2100]]
    else:
        lims = [[0, 1, 2, 63, 64], [1023, 1024, 1025, 1026, 1100]]
    for c in range(len(FLOAT_CFG)):
        for k, l in enumerate(lims):
            js.append(Job('exp-float-%d-%d' % (c, k), 'h_exp_float', dict(limits=tuple(l), cfg=c), dict(conc_cap=200)))
    return js
