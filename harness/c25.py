"""C25 — host state changes keep a single reconnector and notify listeners once.

The real Cluster.on_up / _on_up_future_completed / _cleanup_failed_on_up_handling / on_down /
_start_reconnector / on_remove / signal_connection_failure, Host.get_and_set_reconnection_handler
and the real _HostReconnectionHandler.run run on a Cluster object whose collaborators (sessions,
profile manager, control connection, listeners, scheduler, executor, connection factory) are
recorders.  A history is a solver-chosen sequence of events on one host: connection failure, status
DOWN, status UP, the scheduler firing the next reconnection attempt (which succeeds or fails, and
during which - the attempt is a blocking call into the environment - the host may be removed), a
session finishing (or failing, or raising in) its pool creation, and topology removal.
"""
import threading
import types
import warnings
import sx
from sx.run import Job

warnings.simplefilter('ignore')
sx.instrument('cassandra.cluster', 'cassandra.pool')
from harness import kit                       # noqa: E402
kit.install_reactor()
import cassandra.cluster as cc                # noqa: E402
import cassandra.pool as cpool                # noqa: E402
from cassandra.pool import Host               # noqa: E402
from cassandra.connection import DefaultEndPoint  # noqa: E402
from cassandra.policies import SimpleConvictionPolicy, HostDistance  # noqa: E402

META = dict(
    level='model_checking',
    level_text='every event history within the bound (solver-forked event choice per step, success/failure of each reconnection attempt and pool creation, removal during an attempt) runs through the real Cluster host-state methods and the real reconnection handler; after every step the invariants are checked: a down, known host has exactly one live reconnection series (or an up-transition in progress), a removed host has none and is never brought up, listeners see up/down once per transition, an up host has a pool in every session',
    level_note='one host, two sessions, histories of at most 5 (thorough 6) events; collaborators are recorders; the executor runs tasks inline; pre-emption at the blocking reconnection attempt (removal during it) and, in the race jobs, one pre-emption by a second thread (status up / status down / removal) at any acquire or release of the host lock inside the host-state methods',
    technique='symbolic execution (sx, solver-forked event and outcome variables) of the real cassandra.cluster.Cluster host-state methods, cassandra.pool._HostReconnectionHandler/_ReconnectionHandler.run and Host reconnection-handler bookkeeping over recorders',
    bounds=dict(quick='1 host, 2 sessions, <= 5 events from {connection failure (pools open or not), status down, status up, timer fires (attempt ok / fails / host removed during it), pool future completes (ok / false / raises), remove}; job on-add: a new host, two sessions, the first pool ready while the second session is asked or later, remaining pools complete in any order',
                thorough='<= 6 events'),
    assumptions=['after a host is removed no status event or connection failure is delivered for that Host object (the control connection looks hosts up in the metadata); only its in-flight timers and pool futures remain', 'the conviction policy convicts on the first failure (SimpleConvictionPolicy)', 'a session reports an open pool exactly while it holds one for the host'],
    stubs=['sessions, profile manager, control connection, listener: recorders', 'scheduler: queue of (delay, callable); executor: inline', 'connection factory: scripted success/failure'],
    outside=['several hosts at once', 'IGNORED distance', 'host additions through on_add beyond the completion orders of job on-add', 'shutdown during these transitions (C45)'],
)


def encoded_functions():
    C = cc.Cluster
    return [C.on_add, C._finalize_add, C.on_up, C._on_up_future_completed, C._cleanup_failed_on_up_handling, C.on_down, C._start_reconnector, C.on_remove,
            C.signal_connection_failure, Host.get_and_set_reconnection_handler, Host.is_currently_reconnecting,
            cpool._ReconnectionHandler.run, cpool._ReconnectionHandler.start, cpool._HostReconnectionHandler.on_reconnection]


class Fut(object):
    def __init__(self):
        self.cbs, self._done, self._res, self._exc = [], False, None, None

    def add_done_callback(self, cb):
        if self._done:
            cb(self)
        else:
            self.cbs.append(cb)

    def finish(self, res=None, exc=None):
        self._done, self._res, self._exc = True, res, exc
        for cb in self.cbs:
            cb(self)

    def result(self, timeout=None):
        if self._exc:
            raise self._exc
        return self._res

    def cancel(self):
        return False

    def done(self):
        return self._done


class _Listener(object):
    def __init__(self, **k):
        self.__dict__.update(k)


class Sess(object):
    def __init__(self, w, i):
        self.w, self.i = w, i
        self.pool = False
        self.pending = []

    def add_or_renew_pool(self, host, is_host_addition):
        self.w.log.append(('pool-requested', self.i))
        hook = getattr(self.w, 'on_pool_request', None)
        if hook:
            hook(self.i)          # a call into the session: other threads (the executor finishing a pool) may act
        f = Fut()
        f.sess = self
        self.pending.append(f)
        return f

    def remove_pool(self, host):
        self.pool = False

    def on_down(self, host):
        self.pool = False

    def on_remove(self, host):
        self.pool = False

    def update_created_pools(self):
        pass

    def get_pool_state(self):
        # open_count is what the pool reports at this moment (its connection may just have died)
        return {self.w.host: {'open_count': 1 if self.w.report_open else 0}} if self.pool else {}


class World(object):
    def __init__(self, V):
        self.V = V
        self.log = []
        self.notes = []            # listener up/down notifications
        self.lbp = []
        self.after_remove = []
        self.removed = False
        self.report_open = True
        self.removed_during_up = False
        self.timers = []
        self.handlers = []
        self.host = Host(DefaultEndPoint('10.0.0.9', 9042), SimpleConvictionPolicy)
        self.host.set_up()
        w = self
        cl = cc.Cluster.__new__(cc.Cluster)
        cl.is_shutdown = False
        cl._discount_down_events = True
        cl.sessions = [Sess(self, 0), Sess(self, 1)]
        for s in cl.sessions:
            s.pool = True
        rec = lambda kind, sink: (lambda h, *a: sink.append(kind))
        cl.profile_manager = types.SimpleNamespace(distance=lambda h: HostDistance.LOCAL, on_up=rec('up', self.lbp), on_down=rec('down', self.lbp),
                                                   on_add=rec('add', self.lbp), on_remove=rec('remove', self.lbp))
        cl.control_connection = types.SimpleNamespace(on_up=lambda h: None, on_down=lambda h: None, on_add=lambda h, r=True: None, on_remove=lambda h: None)
        cl._listener_lock = threading.Lock()
        cl._listeners = set([_Listener(on_up=self._note('up'), on_down=self._note('down'), on_add=self._note('add'), on_remove=self._note('remove'))])
        cl.reconnection_policy = types.SimpleNamespace(new_schedule=lambda: iter([1.0] * 50))
        cl.scheduler = types.SimpleNamespace(schedule=lambda delay, fn, *a, **k: w.timers.append(fn))
        cl.executor = types.SimpleNamespace(submit=lambda fn, *a, **k: w._run(fn, a, k))
        cl._prepare_all_queries = lambda h: None
        cl.metadata = types.SimpleNamespace(get_host=lambda ep: None if w.removed else w.host)      # remove_host() precedes on_remove()
        cl._make_connection_factory = lambda h, *a, **k: w.factory
        self.cluster = cl
        self.sessions = cl.sessions
        orig = cpool._HostReconnectionHandler
        self._orig_handler = orig

        class Tracked(orig):
            def __init__(s, *a, **k):
                orig.__init__(s, *a, **k)
                w.handlers.append(s)
        cc._HostReconnectionHandler = Tracked

    def restore(self):
        cc._HostReconnectionHandler = self._orig_handler

    def _note(self, kind):
        def f(h):
            self.notes.append(kind)
            if self.removed and kind in ('up', 'add'):
                self.after_remove.append(('listener', kind))
        return f

    def _run(self, fn, a, k):
        f = Fut()
        try:
            f.finish(fn(*a, **k))
        except Exception as e:      # the real executor stores the exception on the future
            f.finish(exc=e)
        return f

    def factory(self):
        n = len([x for x in self.log if x[0] == 'attempt'])
        self.log.append(('attempt', n))
        # the attempt blocks in the environment: the host may be removed meanwhile
        if not self.removed and self.V.flag('removed_during_attempt_%d' % n):
            self.remove()
        if self.V.flag('attempt_%d_succeeds' % n):
            return types.SimpleNamespace(close=lambda: None)
        raise OSError('connection refused')

    def remove(self):
        self.removed = True
        self.removed_during_up = bool(self.host._currently_handling_node_up)
        self.cluster.on_remove(self.host)

    def live_series(self):
        """reconnection attempts still scheduled whose handler is not cancelled"""
        return [t for t in self.timers if not t.__self__._cancelled]


def h_history(V, steps=5, race=False):
    w = World(V)
    cl, host = w.cluster, w.host
    if race:
        # one pre-emption: while a thread is inside a host-state method and holds no lock, another thread delivers a
        # status event for the same host (or removes it) at an acquire/release of the host lock
        def other(function, name, phase):
            e = V.pick('pre_event', ['status-down', 'status-up', 'remove'] if not w.removed else ['status-down'])
            V.tag('preempted', '%s/%s -> %s' % (function, phase, e))
            if e == 'status-down':
                w.report_open = False
                cl.on_down(host, is_host_addition=False)
                w.report_open = True
            elif e == 'status-up':
                cl.on_up(host)
            else:
                w.remove()
        pre = kit.Preempter(V, ('on_up', 'on_down', '_on_up_future_completed', '_start_reconnector', 'on_remove'), other, only_unlocked=True,
                            enabled=lambda: not w.removed)
        host.lock = kit.SchedLock('host.lock', pre)
    try:
        trace = []
        for step in range(steps):
            # status events and connection failures reach the Cluster through a metadata lookup of the host:
            # once the host is removed only what was already in flight for it can still happen
            ev = ['conn-failure', 'status-down', 'status-up'] if not w.removed else []
            if w.timers:
                ev.append('timer')
            pend = [f for s in w.sessions for f in s.pending]
            if pend:
                ev.append('pool-future')
            if not w.removed:
                ev.append('remove')
            if not ev:
                break
            e = V.pick('ev%d' % step, ev) if len(ev) > 1 else ev[0]
            trace.append(e)
            if e == 'conn-failure':
                w.report_open = not V.flag('pools_lost_%d' % step)
                cl.signal_connection_failure(host, OSError('reset'), False)
                w.report_open = True
            elif e == 'status-down':
                w.report_open = False
                cl.on_down(host, is_host_addition=False)
                w.report_open = True
            elif e == 'status-up':
                cl.on_up(host)
            elif e == 'timer':
                fn = w.timers.pop(0)
                fn()
            elif e == 'pool-future':
                f = pend[0]
                f.sess.pending.remove(f)
                out = V.pick('pool_outcome_%d' % step, ['ok', 'false', 'raises'])
                if out == 'ok':
                    f.sess.pool = True
                    f.finish(True)
                elif out == 'false':
                    f.finish(False)
                else:
                    f.finish(exc=RuntimeError('pool creation blew up'))
            else:
                w.remove()
            V.tag('removed_during_up_transition', w.removed_during_up)
            # ---- invariants after every step
            live = w.live_series()
            pending = [f for s in w.sessions for f in s.pending]
            V.check(pending or not host._currently_handling_node_up, 'up-transition-marker-cleared-when-nothing-is-pending',
                    note='host._currently_handling_node_up stays set with no pool future outstanding: every later on_up is ignored (%r)' % (trace,))
            V.check(len(live) <= 1, 'at-most-one-live-reconnection-series', note='%d live after %r' % (len(live), trace))
            if w.removed:
                V.check(not live, 'removed-host-has-no-reconnector', note=repr(trace))
                V.check(not w.after_remove, 'removed-host-is-never-brought-up', note='%r after removal (%r)' % (w.after_remove, trace))
                V.check(not host.is_up, 'removed-host-stays-down')
                if not pending:
                    # a transition that was already under way may have asked the sessions for pools; once it has
                    # settled nothing of it is left
                    V.check(not any(s.pool for s in w.sessions), 'removed-host-keeps-no-pool', note=repr(trace))
            elif not host.is_up and not host._currently_handling_node_up and not pending:
                V.check(len(live) == 1, 'down-host-has-exactly-one-live-reconnection-series', note='%d live after %r' % (len(live), trace))
            if host.is_up and not pending and not w.removed:
                V.check(all(s.pool for s in w.sessions), 'up-host-has-a-pool-in-every-session', note=repr(trace))
            ud = [n for n in w.notes if n in ('up', 'down')]
            V.check(all(a != b for a, b in zip(ud, ud[1:])), 'listeners-notified-once-per-transition', note='%r (%r)' % (ud, trace))
            lb = [n for n in w.lbp if n in ('up', 'down')]
            if not pending and not host._currently_handling_node_up:
                V.check(not lb or (lb[-1] == 'up') == bool(host.is_up) or w.removed, 'policies-agree-with-host-state-when-quiescent', note='%r host up=%r (%r)' % (lb, host.is_up, trace))
        V.tag('trace', '/'.join(trace))
    finally:
        w.restore()


def h_on_add(V):
    """a new host is added (Cluster.on_add) with two sessions: the executor may finish the first session's pool while
    the second session is still being asked for its pool, or before on_add has registered its callback; the listeners
    must hear about the addition exactly once, after every session has its pool"""
    w = World(V)
    try:
        cl = w.cluster
        w.host.is_up = None
        for s_ in w.sessions:
            s_.pool = False
        early = V.flag('first_pool_ready_while_second_session_is_asked')

        def on_pool_request(i):
            if i == 1 and early:
                f0 = w.sessions[0].pending.pop(0)
                w.sessions[0].pool = True
                f0.finish(True)
        w.on_pool_request = on_pool_request
        cc.Cluster.on_add(cl, w.host)
        V.tag('notified_before_all_pools', w.notes.count('add') > 0 and not all(s_.pool for s_ in w.sessions))
        for step in range(2):
            pend = [f for s_ in w.sessions for f in s_.pending]
            if not pend:
                break
            f = pend[V.choice('complete%d' % step, len(pend))]
            f.sess.pending.remove(f)
            f.sess.pool = True
            f.finish(True)
        V.check(w.notes.count('add') == 1, 'listeners-notified-of-the-new-host-exactly-once', note='on_add delivered %d time(s)' % w.notes.count('add'))
        V.check(w.host.is_up is True, 'new-host-marked-up-once-its-pools-exist')
    finally:
        w.restore()


def jobs(tier):
    steps = 5 if tier == 'quick' else 6
    J = []
    for first in range(3):
        J.append(Job('history/e%d' % first, 'h_history', dict(steps=steps), dict(pin={'ev0': first}, max_paths=600000)))
    for first in range(3):
        J.append(Job('race/e%d' % first, 'h_history', dict(steps=3 if tier == 'quick' else 4, race=True), dict(pin={'ev0': first}, max_paths=400000, max_seconds=1200)))
    J.append(Job('on-add', 'h_on_add', {}))
    return J
