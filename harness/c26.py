"""C26 — replica sets match Cassandra's replica placement."""
import sx
from sx.run import Job
from harness import kit
kit.install_reactor()
from cassandra.metadata import (TokenMap, Murmur3Token, SimpleStrategy, NetworkTopologyStrategy)
from cassandra.pool import Host
from cassandra.policies import SimpleConvictionPolicy

META = dict(
    level='model_checking',
    level_text='ring layouts (owner of every ring slot, rack and datacenter of every host, replication factors) are solver-enumerated under symmetry constraints and the key token is a symbolic integer whose position on the ring is decided by symbolic comparisons; the real make_token_replica_map / TokenMap.get_replicas result is compared with an independent transcription of Cassandra SimpleStrategy / NetworkTopologyStrategy.calculateNaturalReplicas',
    level_note='layout variables are hashed by the driver and therefore concretised: the solver supplies exhaustiveness of the bounded layout space (not value generality); the key token is genuinely symbolic',
    technique='symbolic execution (sx proxies) of the real placement code over solver-enumerated ring layouts + z3 validity per path against an independent placement specification',
    bounds=dict(quick='rings of 1..5 slots owned by <= 3 hosts (restricted growth), 2 datacenters x 2 racks, RF per datacenter 0..2 (NTS; 3..4 on 4-slot rings) / RF 1..4 (Simple), any key token',
                thorough='rings of <= 6 slots, <= 4 hosts, 3 racks, RF 0..3'),
    assumptions=['every host has a datacenter and a rack'],
    stubs=[],
    outside=['transient replication', 'rings larger than the bound'],
)


def encoded_functions():
    return [SimpleStrategy.make_token_replica_map, NetworkTopologyStrategy.make_token_replica_map, TokenMap.get_replicas,
            TokenMap.rebuild_keyspace]


class KS(object):
    def __init__(self, strategy):
        self.replication_strategy = strategy


class Meta(object):
    def __init__(self, ks):
        self.keyspaces = ks


def _layout(V, max_slots, max_hosts, nracks, ndcs):
    nslots = V.choice('slots', max_slots) + 1
    owners = []
    used = 0
    for i in range(nslots):
        o = V.choice('owner%d' % i, min(used + 1, max_hosts))      # restricted growth: hosts appear in first-use order
        owners.append(o)
        used = max(used, o + 1)
    hosts = []
    for h in range(used):
        host = Host('10.0.0.%d' % (h + 1), SimpleConvictionPolicy)
        host.set_location_info('dc%d' % V.choice('dc_of_host%d' % h, ndcs), 'r%d' % V.choice('rack_of_host%d' % h, nracks))
        hosts.append(host)
    ring = [Murmur3Token(10 * (i + 1)) for i in range(nslots)]
    owner = dict((ring[i], hosts[owners[i]]) for i in range(nslots))
    V.tag('ring', ['%s/%s/%s' % (hosts[o].address, hosts[o].datacenter, hosts[o].rack) for o in owners])
    return ring, owner, hosts


def _tok(value):
    t = Murmur3Token.__new__(Murmur3Token)      # Murmur3Token.__init__ calls int(): keep the token symbolic
    t.value = value
    return t


def _start_index(V, ring, token):
    """first ring token at or after the key's token, wrapping around (independent of bisect)"""
    for i, t in enumerate(ring):
        if sx.conc_bool(token <= t.value):
            return i
    return 0


def spec_simple(ring, owner, start, rf):
    out = []
    n = len(ring)
    for j in range(n):
        h = owner[ring[(start + j) % n]]
        if h not in out:
            out.append(h)
        if len(out) >= rf:
            break
    return out


def spec_nts(ring, owner, start, rfs):
    """Cassandra NetworkTopologyStrategy.calculateNaturalReplicas"""
    n = len(ring)
    all_hosts = set(owner.values())
    dcs = set(h.datacenter for h in all_hosts)
    racks = dict((dc, set(h.rack for h in all_hosts if h.datacenter == dc)) for dc in dcs)
    hosts_in = dict((dc, set(h for h in all_hosts if h.datacenter == dc)) for dc in dcs)
    want = dict((dc, min(rfs.get(dc, 0), len(hosts_in[dc]))) for dc in dcs)
    replicas = dict((dc, []) for dc in dcs)
    seen = dict((dc, set()) for dc in dcs)
    skipped = dict((dc, []) for dc in dcs)
    order = []
    for j in range(n):
        h = owner[ring[(start + j) % n]]
        dc = h.datacenter
        if len(replicas[dc]) >= want[dc] or h in replicas[dc]:
            continue
        if len(seen[dc]) == len(racks[dc]):
            replicas[dc].append(h)
            order.append(h)
        elif h.rack in seen[dc]:
            if h not in skipped[dc]:
                skipped[dc].append(h)
        else:
            replicas[dc].append(h)
            order.append(h)
            seen[dc].add(h.rack)
            if len(seen[dc]) == len(racks[dc]):
                for s in skipped[dc]:
                    if len(replicas[dc]) >= want[dc]:
                        break
                    if s not in replicas[dc]:
                        replicas[dc].append(s)
                        order.append(s)
    return order


def h_simple(V, max_slots=5, max_hosts=3):
    ring, owner, hosts = _layout(V, max_slots, max_hosts, 1, 1)
    rf = V.choice('rf', 4) + 1
    token = V.int('key_token', -(1 << 63), (1 << 63) - 1)
    tm = TokenMap(Murmur3Token, owner, ring, Meta({'ks': KS(SimpleStrategy({'replication_factor': rf}))}))
    got = tm.get_replicas('ks', _tok(token))
    start = _start_index(V, ring, token)
    want = spec_simple(ring, owner, start, rf)
    V.check(len(got) == len(set(got)), 'no-replica-repeated', note=repr(got))
    V.check(set(got) == set(want), 'replicas-equal-cassandra-placement', note='got %r want %r' % (got, want))


def h_nts(V, max_slots=5, max_hosts=3, nracks=2, maxrf=2):
    ring, owner, hosts = _layout(V, max_slots, max_hosts, nracks, 2)
    rfs = {'dc0': V.choice('rf_dc0', maxrf + 1), 'dc1': V.choice('rf_dc1', maxrf + 1)}
    token = V.int('key_token', -(1 << 63), (1 << 63) - 1)
    tm = TokenMap(Murmur3Token, owner, ring, Meta({'ks': KS(NetworkTopologyStrategy(dict(rfs)))}))
    got = list(tm.get_replicas('ks', _tok(token)))
    start = _start_index(V, ring, token)
    want = spec_nts(ring, owner, start, rfs)
    V.tag('rfs', rfs)
    V.check(len(got) == len(set(got)), 'no-replica-repeated', note=repr(got))
    V.check(set(got) == set(want), 'replicas-equal-cassandra-placement', note='got %r want %r' % (got, want))


def jobs(tier):
    th = tier == 'thorough'
    o = dict(max_seconds=2400 if th else 280)
    ms, mh = (6, 4) if th else (5, 3)
    js = [Job('simple', 'h_simple', dict(max_slots=ms, max_hosts=mh), o)]
    mr = 3 if th else 2
    for s in range(ms):
        for r0 in range(mr + 1):
            js.append(Job('nts-slots%d-rf%d' % (s + 1, r0), 'h_nts', dict(max_slots=ms, max_hosts=mh, nracks=3 if th else 2, maxrf=mr),
                          dict(o, pin={'slots': s, 'rf_dc0': r0})))
    # replication factor above the number of hosts of a datacenter (legal in Cassandra)
    for r0 in (3, 4):
        js.append(Job('nts-highrf-rf%d' % r0, 'h_nts', dict(max_slots=4, max_hosts=3, nracks=2, maxrf=4), dict(o, pin={'slots': 3, 'rf_dc0': r0})))
    return js
