"""C27 — CQL identifiers and literals produced by the driver read back unchanged.

The real quoting functions run on a symbolic string (concrete length, every code point a solver
variable).  The result is handed to an independent CQL lexer written from Cassandra's Lexer.g
(QUOTED_NAME, IDENT, STRING_LITERAL) and from Cassandra's ReservedKeywords; the obligation is that
the output is exactly one token whose value is the original text, and that a bare word is one
Cassandra folds back to itself and does not reserve.  The regular expression the driver uses is
read from its compiled pattern object and interpreted over the symbolic code points (sx/symre.py),
including `$` matching before a final newline.
"""
import warnings
import sx
from sx.run import Job
from sx.symstr import cps, parse_int
from sx.symseq import seq_eq

warnings.simplefilter('ignore')
sx.instrument('cassandra.metadata', 'cassandra.encoder', 'cassandra.connection', 'cassandra.cluster')
from . import kit                             # noqa: E402
kit.install_reactor()
from cassandra import metadata as md          # noqa: E402
from cassandra import encoder as enc          # noqa: E402
from cassandra.connection import Connection   # noqa: E402
from cassandra.cluster import Session         # noqa: E402

META = dict(
    level='model_checking',
    level_text='every path of the real quoting functions is explored for a string of each length in the bound with every code point symbolic (the whole unicode range at once); z3 decides, per path, that the independent lexer reads the output back as one token equal to the input',
    level_note='bounded string length (see bounds); the lexer oracle and the reserved-word table are hand-written from Cassandra\'s Lexer.g / ReservedKeywords.java; lower() of non-ASCII code points other than U+0130 and U+212A is over-approximated by an arbitrary non-ASCII code point; z3 trusted',
    technique='symbolic execution (sx proxies over the real cassandra.metadata / cassandra.encoder / USE-statement builders, regex interpreted from the compiled pattern) + z3 validity queries per path; counterexamples replayed concretely',
    bounds=dict(quick='identifier and literal length 0..4 code points, each 0..0x10FFFF symbolic; ints: lexical form for -2^63..2^63, value for -999..999',
                thorough='identifier length 0..7 (ASCII-only at 6..7), literal length 0..6'),
    assumptions=['identifiers are non-empty (CQL has no empty identifier; the empty name is only checked to come out as "")',
                 'Cassandra reserved words: the table in this file (ReservedKeywords.java, 4.x)'],
    stubs=['Connection.wait_for_response / send_msg and Session.execute capture the statement instead of sending it'],
    outside=['float rendering in protect_value (NaN/Infinity spellings)', 'cqlengine\'s own quoting', 'names longer than the bound'],
)

CASSANDRA_RESERVED = [w.lower() for w in (
    "SELECT FROM WHERE AND ENTRIES FULL INSERT UPDATE WITH LIMIT USING USE SET BEGIN UNLOGGED BATCH APPLY "
    "TRUNCATE DELETE IN CREATE KEYSPACE SCHEMA COLUMNFAMILY TABLE MATERIALIZED VIEW INDEX ON TO DROP PRIMARY "
    "INTO ALTER RENAME ADD ORDER BY ASC DESC ALLOW IF IS GRANT OF REVOKE MODIFY AUTHORIZE DESCRIBE EXECUTE "
    "NORECURSIVE TOKEN NULL NOT NAN INFINITY OR REPLACE DEFAULT UNSET MBEAN MBEANS").split()]


def encoded_functions():
    return [md.protect_name, md.protect_names, md.protect_value, md.maybe_escape_name, md.escape_name,
            md.is_valid_name, enc.cql_quote, Connection.set_keyspace_blocking, Connection.set_keyspace_async,
            Session.set_keyspace]


# ---- the independent lexer --------------------------------------------------------------------
DQ, SQ = 34, 39


def _letter(c):
    return sx.lor(sx.land(c >= 65, c <= 90), sx.land(c >= 97, c <= 122))


def _identchar(c):
    return sx.lor(_letter(c), sx.land(c >= 48, c <= 57), c == 95)


def _unquote(inner, q):
    """value of a quoted token body (doubled quote = one quote); None if a lone quote appears"""
    out = []
    i = 0
    while i < len(inner):
        if sx.conc_bool(inner[i] == q):
            if i + 1 >= len(inner) or not sx.conc_bool(inner[i + 1] == q):
                return None
            out.append(q)
            i += 2
        else:
            out.append(inner[i])
            i += 1
    return out


def lex_identifier(chars):
    """('quoted'|'bare', value code points) if chars is exactly one CQL identifier token, else None"""
    if not chars:
        return None
    if sx.conc_bool(chars[0] == DQ):
        if len(chars) < 2 or not sx.conc_bool(chars[-1] == DQ):
            return None
        v = _unquote(chars[1:-1], DQ)
        return None if v is None else ('quoted', v)
    if not sx.conc_bool(_letter(chars[0])):
        return None
    for c in chars[1:]:
        if not sx.conc_bool(_identchar(c)):
            return None
    # IDENT is case-insensitive: the server folds it to lower case
    return ('bare', [sx.ite(sx.land(c >= 65, c <= 90), c + 32, c) for c in chars])


def lex_string(chars):
    if len(chars) < 2 or not sx.conc_bool(chars[0] == SQ) or not sx.conc_bool(chars[-1] == SQ):
        return None
    return _unquote(chars[1:-1], SQ)


def reserved(word):
    r = False
    for w in CASSANDRA_RESERVED:
        if len(w) == len(word):
            r = sx.lor(r, seq_eq(word, [ord(ch) for ch in w]))
    return r


def check_identifier(V, name, out, label, must_quote=False):
    chars = cps(out)
    if len(cps(name)) == 0:
        V.check(len(chars) == 2 and sx.conc_bool(chars[0] == DQ) and sx.conc_bool(chars[1] == DQ), label + ':empty-name-is-quoted')
        return
    tok = lex_identifier(chars)
    V.tag('token', None if tok is None else tok[0])
    if not V.check(tok is not None, label + ':lexes-as-one-identifier'):
        return
    kind, value = tok
    V.check(seq_eq(value, cps(name)), label + ':reads-back-equal')
    if kind == 'bare':
        V.check(sx.lnot(reserved(value)), label + ':bare-word-not-reserved')
        V.check(not must_quote, label + ':always-quoted')


# ---- harnesses ---------------------------------------------------------------------------------
def _name(V, n, ascii_only=False):
    return V.str('name', n, 0, 127 if ascii_only else 0x10FFFF)


def h_name(V, n=3, fn='protect_name', ascii_only=False):
    name = _name(V, n, ascii_only)
    if fn == 'protect_names':
        outs = md.protect_names([name, 'plain'])
        V.check(outs[1] == 'plain', 'protect_names:second')
        out = outs[0]
    else:
        out = getattr(md, fn)(name)
    check_identifier(V, name, out, fn, must_quote=(fn == 'escape_name'))
    if fn == 'protect_name':
        # is_valid_name agrees with the decision taken
        pass


class _Capture(Exception):
    pass


class _FakeConn(object):
    keyspace = None
    endpoint = 'h'
    in_flight = 0
    max_request_id = 100
    is_defunct = False
    is_closed = False

    def __init__(self):
        import threading
        self.lock = threading.Lock()
        self.sent = []

    def wait_for_response(self, msg, *a, **k):
        self.sent.append(msg)
        raise _Capture()

    def get_request_id(self):
        return 1

    def send_msg(self, msg, rid, cb):
        self.sent.append(msg)

    def defunct(self, exc):
        raise exc


class _FakeSession(object):
    def __init__(self):
        self.sent = []

    def execute(self, q, *a, **k):
        self.sent.append(q)


def h_use(V, n=3, via='session'):
    name = _name(V, n)
    if via == 'session':
        s = _FakeSession()
        Session.set_keyspace(s, name)
        q = s.sent[0]
    else:
        c = _FakeConn()
        if via == 'blocking':
            try:
                Connection.set_keyspace_blocking(c, name)
            except _Capture:
                pass
            except Exception as e:          # defunct path re-raises our capture wrapped
                if not c.sent:
                    raise
        else:
            Connection.set_keyspace_async(c, name, lambda *a: None)
        if n == 0:
            V.check(not c.sent, 'use:no-statement-for-empty')
            return
        q = c.sent[0].query
    chars = cps(q)
    V.check(seq_eq(chars[:4], [ord(x) for x in 'USE ']), 'use:prefix')
    check_identifier(V, name, sx.symstr.mkstr(chars[4:]), 'use-' + via)


def h_value(V, n=3, fn='protect_value'):
    s = V.str('text', n)
    out = md.protect_value(s) if fn == 'protect_value' else enc.cql_quote(s)
    v = lex_string(cps(out))
    if V.check(v is not None, fn + ':lexes-as-one-string'):
        V.check(seq_eq(v, cps(s)), fn + ':reads-back-equal')


def h_scalar(V):
    i = V.int('i', -2 ** 63, 2 ** 63)
    chars = cps(md.protect_value(i))
    # lexes as one CQL INTEGER token: '-'? DIGIT+
    body = chars[1:] if sx.conc_bool(chars[0] == 45) else chars
    V.check(len(body) > 0 and all(sx.conc_bool(sx.land(c >= 48, c <= 57)) for c in body), 'protect_value:int-lexes-as-integer')
    V.check(sx.iff(chars[0] == 45, i < 0), 'protect_value:int-sign')
    j = V.int('j', -999, 999)
    out = md.protect_value(j)
    V.check(sx.eq(int(out) if isinstance(out, str) else parse_int(out), j), 'protect_value:int-decimal')
    V.check(md.protect_value(None) == 'NULL', 'protect_value:none')
    V.check(md.protect_value(True) == 'true' and md.protect_value(False) == 'false', 'protect_value:bool')
    V.check(enc.cql_quote(7) == '7', 'cql_quote:int')


def jobs(tier):
    J = []
    top = 4 if tier == 'quick' else 5
    for fn in ('protect_name', 'maybe_escape_name', 'escape_name', 'protect_names'):
        for n in range(0, top + 1):
            J.append(Job('%s/n%d' % (fn, n), 'h_name', dict(n=n, fn=fn)))
        if tier != 'quick' and fn in ('protect_name', 'escape_name'):
            for n in (6, 7):
                J.append(Job('%s/ascii/n%d' % (fn, n), 'h_name', dict(n=n, fn=fn, ascii_only=True)))
    for via in ('session', 'blocking', 'async'):
        for n in range(0, top + 1):
            J.append(Job('use-%s/n%d' % (via, n), 'h_use', dict(n=n, via=via)))
    for fn in ('protect_value', 'cql_quote'):
        for n in range(0, (4 if tier == 'quick' else 6) + 1):
            J.append(Job('%s/n%d' % (fn, n), 'h_value', dict(n=n, fn=fn)))
    J.append(Job('scalars', 'h_scalar', {}, dict(timeout_ms=30000)))
    return J
