"""C28 — type descriptors round-trip between Cassandra (marshal class) and CQL notation.

The type tree is drawn by solver-forked choice variables (every tree within the node budget is its
own path); leaf values are symbolic.  Three independent printers written here (marshal descriptor,
CQL name, byte encoding of a value) are the oracle: the real lookup_casstype parses the printed
descriptor, and the resulting class must (a) print the CQL name the tree has, (b) have the tree's
structure, and (c) serialise a symbolic value of the tree's type to exactly the bytes the
specification encoder produces (same value codec: int vs bigint, field order, nesting).  A UDT is
first parsed with *different* field types under the same keyspace/name/field names, so a stale class
cache shows up.  The CQL-notation half prints the tree as a CQL type string and requires
python_to_cqltype(cqltype_to_python(s)) == s and strip_frozen(s) == print(tree without frozen).
"""
import warnings
from binascii import hexlify
import sx
from sx.run import Job

warnings.simplefilter('ignore')
from harness.codec import be, _PlainMap, spec_uvint      # instruments cassandra.marshal/cqltypes/util
from cassandra import cqltypes as ct

META = dict(
    level='model_checking',
    level_text='every type tree within the node budget is explored (tree shape = solver-forked choice variables, one path per tree); on each path the value placed in the tree is symbolic and z3 proves the bytes the parsed class serialises equal the specification encoding for every value; names and structure are compared concretely per path',
    level_note='the string side (re.Scanner, ast.literal_eval, type()) runs concretely per tree: for those obligations the solver only enumerates the tree shapes, it does not generalise over names; node budget and leaf/name sets are in bounds; oracle printers hand-written from Cassandra\'s TypeParser / CQL3Type notation',
    technique='symbolic execution (sx) of lookup_casstype/parse_casstype_args/apply_parameters and the parsed class\'s serializer with solver-enumerated tree shapes and symbolic leaf values; z3 validity query for byte equality per tree; string round trips evaluated per enumerated tree',
    bounds=dict(quick='trees of at most 4 nodes (depth <= 4) over leaves {int, bigint, text, boolean}; list/set/map/tuple(1-2)/udt(1-2 fields, 2 names)/frozen/reversed(root)/vector(dim 1..3); leaf ints over their full 32/64-bit range',
                thorough='trees of at most 5 nodes (depth <= 5)'),
    assumptions=['marshal descriptors carry FrozenType only around collections (list/set/map); UserType/TupleType/VectorType are implicitly frozen and never wrapped',
                 'ReversedType only at the root (clustering comparator); its CQL name is that of the wrapped type',
                 'UDT / field names are lower-case identifiers in the marshal direction (quoting of mixed-case UDT names by cql_parameterized_type is not covered)'],
    stubs=[],
    outside=['CompositeType/DynamicCompositeType/custom classes', 'type names that are not ASCII', 'trees larger than the node budget'],
)

P = 'org.apache.cassandra.db.marshal.'
LEAVES = [('int', 'Int32Type'), ('bigint', 'LongType'), ('text', 'UTF8Type'), ('boolean', 'BooleanType')]
LEAF_CLASS = {'int': ct.Int32Type, 'bigint': ct.LongType, 'text': ct.UTF8Type, 'boolean': ct.BooleanType}
UDT_NAMES = ['u1', 'type_b']
FIELDS = ['f', 'g2']


def encoded_functions():
    return [ct.lookup_casstype, ct.parse_casstype_args, ct.lookup_casstype_simple, ct._CassandraType.apply_parameters,
            ct._CassandraType.cql_parameterized_type, ct._CassandraType.cass_parameterized_type_with,
            ct.UserType.apply_parameters, ct.UserType.make_udt_class, ct.UserType.cql_parameterized_type,
            ct.TupleType.cql_parameterized_type, ct.VectorType.apply_parameters, ct.VectorType.cql_parameterized_type,
            ct.cqltype_to_python, ct.python_to_cqltype, ct.strip_frozen, ct._strip_frozen_from_python, ct._name_from_hex_string,
            ct.UserType.serialize_safe, ct.TupleType.serialize_safe, ct.MapType.serialize_safe,
            ct._SimpleParameterizedType.serialize_safe, ct.VectorType.serialize, ct.FrozenType.serialize_safe,
            ct.ReversedType.serialize_safe]


# ---- tree generation ---------------------------------------------------------------------------
def gen(V, budget, path='t', marshal=True, root=True, under_frozen=False, only=None):
    """(tree, nodes used); every tree with <= budget nodes is reachable"""
    opts = ['leaf']
    if budget >= 2:
        opts += ['list', 'set', 'tuple1', 'udt1', 'vector']
        if not (marshal and under_frozen):
            opts.append('frozen')
        if marshal and root:
            opts.append('reversed')
    if budget >= 3:
        opts += ['map', 'tuple2', 'udt2']
    if only is not None:
        opts = [o for o in opts if o.startswith(only)]
    c = V.pick('c:' + path, opts)
    if c == 'leaf':
        return (V.pick('l:' + path, [l[0] for l in LEAVES]),), 1
    if c in ('list', 'set'):
        t, n = gen(V, budget - 1, path + '0', marshal, False)
        return (c, t), n + 1
    if c == 'frozen':
        t, n = gen(V, budget - 1, path + '0', marshal, False, under_frozen=True)
        if t[0] in LEAF_CLASS or (marshal and t[0] not in ('list', 'set', 'map')):
            V.assume(False)      # frozen<leaf> / FrozenType(UserType) are not produced by Cassandra
        return ('frozen', t), n + 1
    if c == 'reversed':
        t, n = gen(V, budget - 1, path + '0', marshal, False)
        return ('reversed', t), n + 1
    if c == 'vector':
        t, n = gen(V, budget - 1, path + '0', marshal, False)
        return ('vector', t, V.pick('d:' + path, [1, 2, 3])), n + 1
    if c == 'map':
        k, n1 = gen(V, budget - 2, path + '0', marshal, False)
        v, n2 = gen(V, budget - 1 - n1, path + '1', marshal, False)
        return ('map', k, v), n1 + n2 + 1
    arity = 1 if c.endswith('1') else 2
    subs, used = [], 1
    for i in range(arity):
        t, n = gen(V, budget - used - (arity - 1 - i), path + str(i), marshal, False)
        subs.append(t)
        used += n
    if c.startswith('tuple'):
        return ('tuple', subs), used
    return ('udt', V.pick('u:' + path, UDT_NAMES), subs), used


# ---- independent printers ----------------------------------------------------------------------
def hx(s):
    return hexlify(s.encode('ascii')).decode('ascii')


def cass(t):
    k = t[0]
    if k in LEAF_CLASS:
        return P + dict(LEAVES)[k]
    if k in ('list', 'set'):
        return '%s%sType(%s)' % (P, k.capitalize(), cass(t[1]))
    if k == 'map':
        return '%sMapType(%s,%s)' % (P, cass(t[1]), cass(t[2]))
    if k == 'frozen':
        return '%sFrozenType(%s)' % (P, cass(t[1]))
    if k == 'reversed':
        return '%sReversedType(%s)' % (P, cass(t[1]))
    if k == 'vector':
        return '%sVectorType(%s , %d)' % (P, cass(t[1]), t[2])
    if k == 'tuple':
        return '%sTupleType(%s)' % (P, ','.join(cass(s) for s in t[1]))
    if k == 'udt':
        return '%sUserType(ks,%s,%s)' % (P, hx(t[1]), ','.join('%s:%s' % (hx(FIELDS[i]), cass(s)) for i, s in enumerate(t[2])))
    raise AssertionError(k)


def cql_of_marshal(t):
    """CQL name of the type a marshal descriptor denotes (tuples and UDTs are implicitly frozen)"""
    k = t[0]
    if k in LEAF_CLASS:
        return k
    if k in ('list', 'set'):
        return '%s<%s>' % (k, cql_of_marshal(t[1]))
    if k == 'map':
        return 'map<%s, %s>' % (cql_of_marshal(t[1]), cql_of_marshal(t[2]))
    if k == 'frozen':
        return 'frozen<%s>' % cql_of_marshal(t[1])
    if k == 'vector':
        return 'org.apache.cassandra.db.marshal.VectorType<%s, %d>' % (cql_of_marshal(t[1]), t[2])
    if k == 'tuple':
        return 'frozen<tuple<%s>>' % ', '.join(cql_of_marshal(s) for s in t[1])
    if k == 'udt':
        return 'frozen<%s>' % t[1]
    raise AssertionError(k)


CQL_UDT = {'u1': 'u1', 'type_b': '"TypeB"'}


def cql_str(t, strip=False, sep=', '):
    """a CQL type string as a user / the schema tables write it"""
    k = t[0]
    if k in LEAF_CLASS:
        return k
    if k in ('list', 'set'):
        return '%s<%s>' % (k, cql_str(t[1], strip, sep))
    if k == 'map':
        return 'map<%s%s%s>' % (cql_str(t[1], strip, sep), sep, cql_str(t[2], strip, sep))
    if k == 'frozen':
        return cql_str(t[1], strip, sep) if strip else 'frozen<%s>' % cql_str(t[1], strip, sep)
    if k == 'vector':
        return 'vector<%s%s%d>' % (cql_str(t[1], strip, sep), sep, t[2])
    if k == 'tuple':
        return 'tuple<%s>' % sep.join(cql_str(s, strip, sep) for s in t[1])
    if k == 'udt':
        return CQL_UDT[t[1]]
    raise AssertionError(k)


# ---- values and their specification encoding ---------------------------------------------------
def value(V, t, path='v'):
    """(python value, specification bytes as a list of byte items)"""
    k = t[0]
    if k == 'int':
        v = V.int(path, -(1 << 31), (1 << 31) - 1)
        return v, be(v, 4)
    if k == 'bigint':
        v = V.int(path, -(1 << 63), (1 << 63) - 1)
        return v, be(v, 8)
    if k == 'text':
        s = V.str(path, 1, 0x20, 0x7e)
        return s, (list(s.c) if hasattr(s, 'c') else [ord(ch) for ch in s])
    if k == 'boolean':
        b = V.bool(path)
        return b, [sx.ite(b, 1, 0)]
    if k in ('frozen', 'reversed'):
        return value(V, t[1], path)
    if k in ('list', 'set'):
        v, b = value(V, t[1], path + 'e')
        return [v], be(1, 4) + be(len(b), 4) + b
    if k == 'map':
        kv, kb = value(V, t[1], path + 'k')
        vv, vb = value(V, t[2], path + 'v')
        return _PlainMap([(kv, vv)]), be(1, 4) + be(len(kb), 4) + kb + be(len(vb), 4) + vb
    if k in ('tuple', 'udt'):
        subs = t[1] if k == 'tuple' else t[2]
        vals, out = [], []
        for i, s in enumerate(subs):
            v, b = value(V, s, path + str(i))
            vals.append(v)
            out += be(len(b), 4) + b
        return tuple(vals), out
    if k == 'vector':
        vals, out = [], []
        fixed = fixed_size(t[1])
        for i in range(t[2]):
            v, b = value(V, t[1], path + 'x%d' % i)
            vals.append(v)
            out += b if fixed is not None else (spec_uvint(len(b)) + b)
        return vals, out
    raise AssertionError(k)


def fixed_size(t):
    k = t[0]
    if k in ('int',):
        return 4
    if k == 'bigint':
        return 8
    if k == 'boolean':
        return 1
    if k in ('frozen', 'reversed'):
        return fixed_size(t[1])
    if k == 'vector':
        f = fixed_size(t[1])
        return None if f is None else f * t[2]
    return None


def structure_ok(cls, t):
    """the parsed class has the tree's structure"""
    k = t[0]
    if k in LEAF_CLASS:
        return cls is LEAF_CLASS[k]
    if k in ('list', 'set', 'frozen', 'reversed'):
        base = dict(list=ct.ListType, set=ct.SetType, frozen=ct.FrozenType, reversed=ct.ReversedType)[k]
        return issubclass(cls, base) and len(cls.subtypes) == 1 and structure_ok(cls.subtypes[0], t[1])
    if k == 'map':
        return issubclass(cls, ct.MapType) and len(cls.subtypes) == 2 and structure_ok(cls.subtypes[0], t[1]) and structure_ok(cls.subtypes[1], t[2])
    if k == 'vector':
        return issubclass(cls, ct.VectorType) and cls.vector_size == t[2] and structure_ok(cls.subtype, t[1])
    if k == 'tuple':
        return (issubclass(cls, ct.TupleType) and not issubclass(cls, ct.UserType) and len(cls.subtypes) == len(t[1])
                and all(structure_ok(c, s) for c, s in zip(cls.subtypes, t[1])))
    if k == 'udt':
        return (issubclass(cls, ct.UserType) and cls.typename == t[1] and cls.keyspace == 'ks'
                and tuple(cls.fieldnames) == tuple(FIELDS[:len(t[2])]) and len(cls.subtypes) == len(t[2])
                and all(structure_ok(c, s) for c, s in zip(cls.subtypes, t[2])))
    return False


def udts_in(t):
    out = []
    if t[0] == 'udt':
        out.append(t)
    for x in t[1:]:
        if isinstance(x, tuple):
            out += udts_in(x)
        elif isinstance(x, list):
            for y in x:
                out += udts_in(y)
    return out


def other_leaf(t):
    return ('bigint',) if t[0] != 'bigint' else ('int',)


# ---- harnesses ---------------------------------------------------------------------------------
def h_marshal(V, budget=4, root='any'):
    ct.UserType._cache.clear()
    tree, n = gen(V, budget, only=None if root == 'any' else root)
    V.tag('tree', cass(tree).replace(P, ''))
    # history: every UDT in the tree was seen before with the same names but another first field type
    if V.flag('stale_udt_seen_before'):
        us = udts_in(tree)
        if not us:
            V.assume(False)
        for u in us:
            prior = ('udt', u[1], [other_leaf(u[2][0])] + list(u[2][1:]))
            ct.lookup_casstype(cass(prior))
    desc = cass(tree)
    cls = ct.lookup_casstype(desc)
    inner_tree, inner_cls = tree, cls
    if tree[0] == 'reversed':
        V.check(ct.is_reversed_casstype(cls) and len(cls.subtypes) == 1, 'reversed-wrapper-recognised')
        inner_tree, inner_cls = tree[1], cls.subtypes[0]
    V.check(inner_cls.cql_parameterized_type() == cql_of_marshal(inner_tree), 'marshal-descriptor-gives-the-cql-name',
            note='%s -> %s, expected %s' % (desc, inner_cls.cql_parameterized_type(), cql_of_marshal(inner_tree)))
    V.check(structure_ok(cls, tree), 'parsed-class-has-the-tree-structure', note=desc)
    # printing the parsed class in marshal notation and parsing again is stable
    again = ct.lookup_casstype(cls.cass_parameterized_type(full=True)) if not udts_in(tree) and 'vector' not in desc.lower() else None
    if again is not None:
        V.check(structure_ok(again, tree), 'marshal-print-parse-stable')
    val, want = value(V, tree)
    got = cls.to_binary(val, 4)
    V.check(sx.beq(got, sx.cat(want)) if want else len(got) == 0, 'same-value-codec', note=desc)


def h_cql(V, budget=4, sep=', '):
    tree, n = gen(V, budget, marshal=False)
    s = cql_str(tree, sep=sep)
    V.tag('cql', s)
    py = ct.cqltype_to_python(s)
    back = ct.python_to_cqltype(py)
    V.check(back.replace(' ', '') == s.replace(' ', ''), 'cql-parse-print-identity', note='%r -> %r -> %r' % (s, py, back))
    stripped = ct.strip_frozen(s)
    V.check(stripped.replace(' ', '') == cql_str(tree, strip=True).replace(' ', ''), 'strip-frozen-removes-exactly-the-wrappers',
            note='%r -> %r, expected %r' % (s, stripped, cql_str(tree, strip=True)))
    V.check('frozen' not in stripped, 'no-frozen-left')


def jobs(tier):
    b = 4 if tier == 'quick' else 5
    J = []
    for root in ('leaf', 'list', 'set', 'map', 'tuple', 'udt', 'frozen', 'reversed', 'vector'):
        J.append(Job('marshal/%s' % root, 'h_marshal', dict(budget=b, root=root)))
    J.append(Job('cql/comma-space', 'h_cql', dict(budget=b)))
    J.append(Job('cql/comma', 'h_cql', dict(budget=b, sep=',')))
    return J
