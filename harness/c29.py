"""C29 — simple-statement parameters are injection-safe and value-preserving.

The real Encoder / bind_params run on symbolic parameter values (symbolic strings, bytes, integers,
time-of-day nanoseconds, day numbers, datetime fields incl. UTC offset).  The substituted text is read
back by an independent CQL term parser written here from Cassandra's Lexer.g/Parser.g (string,
integer, float, hex blob, uuid, boolean, NULL/NaN/Infinity constants, list/set/map/tuple literals);
the obligation is that it is exactly one term, that the term denotes the original value, and - for
timestamps - that it equals the int64 the prepared-statement path (DateType.serialize) sends.
Subclass dispatch uses proxies that report a real subclass (class MyStr(str)) as their type.
"""
import warnings
import datetime
import decimal
import uuid
import ipaddress
import math
import sx
from sx.run import Job
from sx.symstr import cps
from sx.symseq import seq_eq

warnings.simplefilter('ignore')
sx.instrument('cassandra.encoder', 'cassandra.query', 'cassandra.util', 'cassandra.cqltypes', 'cassandra.marshal', 'calendar')
from harness import kit                       # noqa: E402
kit.install_reactor()
from cassandra import encoder as enc          # noqa: E402
from cassandra import query as cq             # noqa: E402
from cassandra import util                    # noqa: E402
from cassandra import cqltypes as ct          # noqa: E402

META = dict(
    level='model_checking',
    level_text='every path of the real encoder functions is explored with the parameter value symbolic (string code points, bytes, integers, nanoseconds, day numbers, datetime fields and UTC offset); z3 decides per path that the independent term parser reads the literal back as one term denoting the original value',
    level_note='string/bytes length and collection shape bounded (see bounds); floats, decimals, uuids, inet addresses and datetime.date values are drawn from a fixed list of boundary values (C-level formatting is not symbolic); the timestamp arithmetic is modelled with exact rationals, valid for |ms| < 2^43; oracle parser hand-written from the CQL grammar',
    technique='symbolic execution (sx proxies over the real cassandra.encoder / cassandra.query.bind_params / DateType.serialize) + z3 validity queries per path; counterexamples replayed concretely',
    bounds=dict(quick='str 0..3 code points (full unicode), bytes 0..2, ints lexical over 64 bit and by value in -999..999, Time nanos 0..86399999999999, Date days 0..2^32-1, datetime years {1969,1970,1971,2024,2200} x any month/day/time/microsecond/offset -1439..1439 min; collections: list/set/map/tuple/ValueSequence of 0..2 leaves, nested to depth 3',
                thorough='str 0..5, bytes 0..4'),
    assumptions=['exact-rational model of timestamp*1e3 + microsecond/1e3 (IEEE doubles are exact to < 0.001 for |ms| < 2^43)',
                 'a subclass of a supported type is encoded like the type itself'],
    stubs=['datetime proxy: utctimetuple()/timetuple()/microsecond computed from symbolic UTC fields and offset (timetuple = UTC fields with the offset added to the seconds field)'],
    outside=['repr() of arbitrary floats (only boundary values)', 'Point/LineString/Polygon', 'user-registered encoders'],
)


def encoded_functions():
    E = enc.Encoder
    return [enc.cql_quote, E.cql_encode_all_types, E.cql_encode_str, E.cql_encode_bytes, E.cql_encode_object, E.cql_encode_float,
            E.cql_encode_datetime, E.cql_encode_date, E.cql_encode_time, E.cql_encode_date_ext, E.cql_encode_sequence,
            E.cql_encode_map_collection, E.cql_encode_list_collection, E.cql_encode_set_collection, E.cql_encode_none,
            E.cql_encode_ipaddress, E.cql_encode_decimal, cq.bind_params, ct.DateType.serialize, util.Time.__str__]


# ---- independent CQL term parser ----------------------------------------------------------------
SQ = 39


def _is(c, ch):
    return sx.conc_bool(c == ord(ch))


def _in(c, lo, hi):
    return sx.conc_bool(sx.land(c >= ord(lo), c <= ord(hi)))


def _delim(c):
    return _is(c, ',') or _is(c, ']') or _is(c, '}') or _is(c, ')') or _is(c, ':') or _is(c, ' ')


def _skip(cs, i):
    while i < len(cs) and _is(cs[i], ' '):
        i += 1
    return i


def p_term(cs, i):
    """(value, next index) or None.  value: ('str', cps) ('int', text cps) ('float', text) ('blob', nibbles)
    ('uuid', text) ('const', name) ('list'|'set'|'tuple', [values]) ('map', [(k, v)])"""
    i = _skip(cs, i)
    if i >= len(cs):
        return None
    c = cs[i]
    if _is(c, "'"):
        out = []
        i += 1
        while True:
            if i >= len(cs):
                return None
            if sx.conc_bool(cs[i] == SQ):
                if i + 1 < len(cs) and sx.conc_bool(cs[i + 1] == SQ):
                    out.append(SQ)
                    i += 2
                    continue
                return ('str', out), i + 1
            out.append(cs[i])
            i += 1
    for op, cl, kind in (('[', ']', 'list'), ('(', ')', 'tuple')):
        if _is(c, op):
            items = []
            i = _skip(cs, i + 1)
            if i < len(cs) and _is(cs[i], cl):
                return (kind, items), i + 1
            while True:
                r = p_term(cs, i)
                if r is None:
                    return None
                items.append(r[0])
                i = _skip(cs, r[1])
                if i >= len(cs):
                    return None
                if _is(cs[i], cl):
                    return (kind, items), i + 1
                if not _is(cs[i], ','):
                    return None
                i += 1
    if _is(c, '{'):
        i = _skip(cs, i + 1)
        if i < len(cs) and _is(cs[i], '}'):
            return ('set', []), i + 1          # {} : empty set or map
        r = p_term(cs, i)
        if r is None:
            return None
        i = _skip(cs, r[1])
        if i < len(cs) and _is(cs[i], ':'):
            pairs = []
            k = r[0]
            while True:
                r = p_term(cs, i + 1)
                if r is None:
                    return None
                pairs.append((k, r[0]))
                i = _skip(cs, r[1])
                if i >= len(cs):
                    return None
                if _is(cs[i], '}'):
                    return ('map', pairs), i + 1
                if not _is(cs[i], ','):
                    return None
                r = p_term(cs, i + 1)
                if r is None:
                    return None
                k = r[0]
                i = _skip(cs, r[1])
                if i >= len(cs) or not _is(cs[i], ':'):
                    return None
        items = [r[0]]
        while True:
            if i >= len(cs):
                return None
            if _is(cs[i], '}'):
                return ('set', items), i + 1
            if not _is(cs[i], ','):
                return None
            r = p_term(cs, i + 1)
            if r is None:
                return None
            items.append(r[0])
            i = _skip(cs, r[1])
    # bare token
    j = i
    while j < len(cs) and not _delim(cs[j]):
        j += 1
    tok = cs[i:j]
    v = classify(tok)
    return None if v is None else (v, j)


def _all_concrete(tok):
    return all(isinstance(c, int) for c in tok)


def classify(tok):
    if not tok:
        return None
    # hex blob
    if len(tok) >= 2 and _is(tok[0], '0') and (_is(tok[1], 'x') or _is(tok[1], 'X')):
        nib = []
        for c in tok[2:]:
            if _in(c, '0', '9'):
                nib.append(c - 48)
            elif _in(c, 'a', 'f'):
                nib.append(c - 87)
            elif _in(c, 'A', 'F'):
                nib.append(c - 55)
            else:
                return None
        return ('blob', nib)
    body = tok[1:] if _is(tok[0], '-') else tok
    if body and all(_in(c, '0', '9') for c in body):
        return ('int', tok)
    if _all_concrete(tok):
        s = ''.join(chr(c) for c in tok)
        import re
        if re.fullmatch(r'-?[0-9]+(\.[0-9]*)?([eE][+-]?[0-9]+)?', s):
            return ('float', s)
        if re.fullmatch(r'[0-9a-fA-F]{8}-[0-9a-fA-F]{4}-[0-9a-fA-F]{4}-[0-9a-fA-F]{4}-[0-9a-fA-F]{12}', s):
            return ('uuid', s.lower())
        if s.lower() in ('null', 'true', 'false', 'nan', 'infinity', '-nan', '-infinity'):
            return ('const', s.lower())
    return None


def _norm(cs):
    from sx.symint import concretize
    return [concretize(c) if (type(c).__name__ == 'SymInt' and c.n.op == 'c') else c for c in cs]


def parse_one(text):
    """the value if text is exactly one term, else None"""
    cs = _norm(cps(text))
    r = p_term(cs, 0)
    if r is None:
        return None
    if _skip(cs, r[1]) != len(cs):
        return None
    return r[0]


def int_of(tok):
    from sx.symstr import rendered_source
    src = rendered_source(tok)
    if src is not None:
        return src                  # the token is, code point for code point, the decimal rendering of src
    neg = _is(tok[0], '-')
    v = 0
    for c in (tok[1:] if neg else tok):
        v = v * 10 + (c - 48)
    return -v if neg else v


# ---- value generation and comparison ------------------------------------------------------------
class MyStr(str):
    pass


class MyBytes(bytes):
    pass


class MyList(list):
    pass


class MyDict(dict):
    pass


def as_subclass(v, cls):
    """v (a proxy in symbolic mode, a plain value in replay) as an instance of the subclass cls"""
    if isinstance(v, (str, bytes)):
        return cls(v)
    T = type('Sub' + type(v).__name__, (type(v),), {'__sx_pytype__': cls, '__slots__': ()})
    return T(list(v.c if hasattr(v, 'c') else v.b))


E = enc.Encoder()


def leaf(V, name, kind, short=False):
    """(python value, checker(parsed) -> condition)"""
    if kind == 'str':
        s = V.str(name, V.choice(name + ':len', 2 if short else 3))
        return s, (lambda p: p[0] == 'str' and seq_eq(p[1], cps(s)))
    if kind == 'int':
        i = V.int(name, -9, 99) if short else V.int(name, -999, 999)
        return i, (lambda p: p[0] == 'int' and sx.eq(int_of(p[1]), i))
    if kind == 'blob':
        b = V.bytes(name, 1)
        return b, (lambda p: p[0] == 'blob' and len(p[1]) == 2 and sx.eq(p[1][0] * 16 + p[1][1], sx.blist(b)[0]))
    if kind == 'none':
        return None, (lambda p: p == ('const', 'null'))
    raise AssertionError(kind)


LEAF_KINDS = ['str', 'int', 'blob', 'none']


def gen_value(V, depth, path='p', root=True):
    """(python value, checker) of a value nested to at most `depth` levels of collections"""
    kinds = list(LEAF_KINDS)
    if depth > 0:
        kinds += ['list', 'tuple', 'set', 'map']
        if root:
            kinds += ['seq', 'mylist', 'mydict']
    k = V.pick('k:' + path, kinds)
    if k in LEAF_KINDS:
        return leaf(V, path, k, short=not root)
    n = V.choice('n:' + path, 3 if root else 2)
    if k in ('list', 'tuple', 'seq', 'mylist'):
        items = [gen_value(V, depth - 1, path + str(i), False) for i in range(n)]
        vals = [v for v, _ in items]
        val = {'list': list, 'tuple': tuple, 'seq': enc.ValueSequence, 'mylist': MyList}[k](vals)
        want = 'tuple' if k == 'seq' else 'list'      # the encoder targets a list for python tuples
        return val, (lambda p: p[0] == want and len(p[1]) == n and sx.land(*[c(x) for (_, c), x in zip(items, p[1])]))
    if k == 'set':
        # elements are ints in increasing order (a real set would hash the proxies)
        items = [leaf(V, path + str(i), 'int', short=True) for i in range(n)]
        vals = [v for v, _ in items]
        for a, b in zip(vals, vals[1:]):
            V.assume(a < b)                     # a set has no duplicates; sortedset iterates in order
        val = _ListSet(vals) if sx.symbolic_mode() else util.sortedset(vals)
        return val, (lambda p: p[0] == 'set' and len(p[1]) == n and sx.land(*[c(x) for (_, c), x in zip(items, p[1])]))
    # map: keys are leaves, values anything
    keys = [leaf(V, path + 'k%d' % i, V.pick('kk:%s%d' % (path, i), ['str', 'int'] if root else ['int']), short=True) for i in range(n)]
    vals = [gen_value(V, (depth - 1) if n < 2 else 0, path + 'v%d' % i, False) for i in range(n)]
    for a in range(n):
        for b in range(a + 1, n):
            ka, kb = keys[a][0], keys[b][0]
            if isinstance(ka, str) or hasattr(ka, 'c'):
                if (isinstance(kb, str) or hasattr(kb, 'c')) and len(ka) == len(kb):
                    V.assume(sx.lnot(seq_eq(cps(ka), cps(kb))))
            elif not (isinstance(kb, str) or hasattr(kb, 'c')):
                V.assume(ka != kb)              # dict keys are distinct
    val = _PairMap([(kk[0], vv[0]) for kk, vv in zip(keys, vals)], MyDict if k == 'mydict' else dict)
    if n == 0:
        return val, (lambda p: p in (('set', []), ('map', [])))
    return val, (lambda p: p[0] == 'map' and len(p[1]) == n and sx.land(*[sx.land(kc(pk), vc(pv)) for (_, kc), (_, vc), (pk, pv) in zip(keys, vals, p[1])]))


class _ListSet(object):
    """a set whose elements are proxies (a real set would hash them); reports itself as `set`"""
    __sx_pytype__ = set

    def __init__(self, items):
        self.items = items

    def __iter__(self):
        return iter(self.items)

    def __len__(self):
        return len(self.items)


class _PairMap(object):
    """a dict whose keys are proxies; reports itself as dict / a dict subclass"""
    def __new__(cls, pairs, pytype=dict):
        if all(not hasattr(k, 'n') and not hasattr(k, 'c') for k, _ in pairs):
            try:
                return pytype(pairs)
            except TypeError:
                pass
        T = type('_PairMap_' + pytype.__name__, (_PairMapBase,), {'__sx_pytype__': pytype})
        o = object.__new__(T)
        o.pairs = pairs
        return o


class _PairMapBase(object):
    def items(self):
        return list(self.pairs)

    def __len__(self):
        return len(self.pairs)


# ---- harnesses -----------------------------------------------------------------------------------
def h_str(V, n=2, sub=False):
    s = V.str('s', n)
    val = as_subclass(s, MyStr) if sub else s
    out = E.cql_encode_all_types(val)
    p = parse_one(out)
    V.tag('kind', None if p is None else p[0])
    if V.check(p is not None, 'str:exactly-one-term', note='a string parameter must come out as one literal'):
        V.check(p[0] == 'str' and seq_eq(p[1], cps(s)), 'str:reads-back-equal')


def h_bytes(V, n=2, kind='bytes'):
    b = V.bytes('b', n)
    if kind == 'bytearray':
        val = sx.hooks.call(bytearray, b) if not isinstance(b, bytes) else bytearray(b)
    elif kind == 'sub':
        val = as_subclass(b, MyBytes)
    else:
        val = b
    out = E.cql_encode_all_types(val)
    p = parse_one(out)
    if V.check(p is not None and p[0] == 'blob', 'bytes:exactly-one-blob-term'):
        items = sx.blist(b)
        V.check(len(p[1]) == 2 * n and sx.land(*[sx.eq(p[1][2 * i] * 16 + p[1][2 * i + 1], items[i]) for i in range(n)]), 'bytes:reads-back-equal')


def h_int(V):
    i = V.int('i', -(1 << 63), (1 << 63) - 1)
    p = parse_one(E.cql_encode_all_types(i))
    V.check(p is not None and p[0] == 'int', 'int:exactly-one-integer-term')
    if p is not None and p[0] == 'int':
        V.check(sx.iff(p[1][0] == 45, i < 0), 'int:sign')
    j = V.int('j', -999, 999)
    p = parse_one(E.cql_encode_all_types(j))
    V.check(p is not None and p[0] == 'int' and sx.eq(int_of(p[1]), j), 'int:reads-back-equal')
    for b in (True, False):
        p = parse_one(E.cql_encode_all_types(b))
        V.check(p == ('const', str(b).lower()), 'bool:is-a-boolean-constant')
    V.check(parse_one(E.cql_encode_all_types(None)) == ('const', 'null'), 'none:is-null')


FLOATS = [0.0, -0.0, 1.0, 0.1, -2.5, 1e16, 1e22, 1.7976931348623157e308, 5e-324, 2.2250738585072014e-308, 123456789.12345679,
          float('inf'), float('-inf'), float('nan')]


def _float_ok(p, f):
    if math.isnan(f):
        return p == ('const', 'nan')
    if math.isinf(f):
        return p == ('const', 'infinity' if f > 0 else '-infinity')
    return p is not None and p[0] in ('float', 'int') and float(p[1] if p[0] == 'float' else ''.join(chr(c) for c in p[1])) == f and \
        math.copysign(1, float(p[1] if p[0] == 'float' else ''.join(chr(c) for c in p[1]))) == math.copysign(1, f)


def h_float(V):
    f = V.pick('f', FLOATS)
    p = parse_one(E.cql_encode_all_types(f))
    V.check(_float_ok(p, f), 'float:reads-back-exactly', note=repr(f))


DECIMALS = ['0', '1.1', '-1.50', '1E+30', '1E-30', '0.1000000000000000055511151231257827', '123456789012345678901234567890.5',
            '3.141592653589793238462643383279', 'NaN', 'Infinity', '-Infinity']


def h_decimal(V):
    d = decimal.Decimal(V.pick('d', DECIMALS))
    out = E.cql_encode_all_types(d)
    p = parse_one(out)
    if d.is_nan():
        V.check(p == ('const', 'nan'), 'decimal:nan')
    elif d.is_infinite():
        V.check(p == ('const', 'infinity' if d > 0 else '-infinity'), 'decimal:infinity')
    else:
        ok = p is not None and p[0] in ('float', 'int')
        if ok:
            text = p[1] if p[0] == 'float' else ''.join(chr(c) for c in p[1])
            ok = decimal.Decimal(text) == d
        V.check(ok, 'decimal:not-silently-rounded', note='%s -> %s' % (d, out))


UUIDS = ['00000000-0000-0000-0000-000000000000', 'ffffffff-ffff-ffff-ffff-ffffffffffff', '12345678-1234-5678-1234-56789abcdef0']
INETS = ['0.0.0.0', '255.255.255.255', '127.0.0.1', '::', '::1', '2001:db8::ff00:42:8329', 'ffff:ffff:ffff:ffff:ffff:ffff:ffff:ffff']
DATES = [(1, 1, 1), (999, 12, 31), (1969, 12, 31), (1970, 1, 1), (2024, 2, 29), (9999, 12, 31)]
TIMES = [(0, 0, 0, 0), (23, 59, 59, 999999), (12, 0, 0, 1), (1, 2, 3, 0)]


def h_misc(V):
    u = uuid.UUID(V.pick('u', UUIDS))
    V.check(parse_one(E.cql_encode_all_types(u)) == ('uuid', str(u)), 'uuid:reads-back-equal')
    a = ipaddress.ip_address(V.pick('a', INETS))
    p = parse_one(E.cql_encode_all_types(a))
    V.check(p is not None and p[0] == 'str' and ipaddress.ip_address(''.join(chr(c) for c in p[1])) == a, 'inet:reads-back-equal')
    y, m, d = V.pick('date', DATES)
    p = parse_one(E.cql_encode_all_types(datetime.date(y, m, d)))
    ok = p is not None and p[0] == 'str'
    if ok:
        parts = ''.join(chr(c) for c in p[1]).split('-')
        ok = len(parts) == 3 and all(x.isdigit() for x in parts) and tuple(int(x) for x in parts) == (y, m, d)
    V.check(ok, 'date:reads-back-equal', note=str((y, m, d)))
    hh, mm, ss, us = V.pick('time', TIMES)
    p = parse_one(E.cql_encode_all_types(datetime.time(hh, mm, ss, us)))
    ok = p is not None and p[0] == 'str'
    if ok:
        ok = util.Time(''.join(chr(c) for c in p[1])).nanosecond_time == ((hh * 60 + mm) * 60 + ss) * 10 ** 9 + us * 1000
    V.check(ok, 'time:reads-back-equal')


def h_time_ext(V):
    ns = V.int('ns', 0, 86400 * 10 ** 9 - 1)
    t = util.Time(ns)
    p = parse_one(E.cql_encode_all_types(t))
    if not V.check(p is not None and p[0] == 'str' and len(p[1]) == 18, 'Time:one-string-hh:mm:ss.nnnnnnnnn'):
        return
    c = p[1]

    def num(lo, hi):
        from sx.symstr import rendered_source
        src = rendered_source(c[lo:hi])
        if src is not None:
            return src
        v = 0
        for x in c[lo:hi]:
            v = v * 10 + (x - 48)
        return v
    V.check(sx.land(c[2] == 58, c[5] == 58, c[8] == 46, *[sx.land(x >= 48, x <= 57) for k, x in enumerate(c) if k not in (2, 5, 8)]), 'Time:format')
    V.check(sx.eq(((num(0, 2) * 60 + num(3, 5)) * 60 + num(6, 8)) * 10 ** 9 + num(9, 18), ns), 'Time:reads-back-equal')


def h_date_ext(V):
    days = V.int('days', 0, 2 ** 32 - 1)
    d = util.Date(days - 2 ** 31)
    p = parse_one(E.cql_encode_all_types(d))
    V.check(p is not None and p[0] == 'int' and p[1][0] != 45, 'Date:one-unsigned-integer')
    small = V.int('small', -500, 500)
    p = parse_one(E.cql_encode_all_types(util.Date(small)))
    V.check(p is not None and p[0] == 'int' and sx.eq(int_of(p[1]), small + 2 ** 31), 'Date:reads-back-equal')


class SymDateTime(object):
    """a datetime described by its UTC fields and its UTC offset; reports itself as datetime.datetime"""
    __sx_pytype__ = datetime.datetime

    def __init__(self, y, mo, d, h, mi, s, us, off_min):
        self.f = (y, mo, d, h, mi, s)
        self.microsecond = us
        self.off = off_min

    def utctimetuple(self):
        return self.f + (0, 0, 0)

    def timetuple(self):
        y, mo, d, h, mi, s = self.f
        return (y, mo, d, h, mi, s + self.off * 60, 0, 0, -1)


def days_from_civil(y, m, d):
    """days since 1970-01-01 (Howard Hinnant's algorithm; independent of calendar.timegm)"""
    y = y - (1 if m <= 2 else 0)
    era = (y if y >= 0 else y - 399) // 400
    yoe = y - era * 400
    mp = (m + 9) % 12
    doy = (153 * mp + 2) // 5 + d - 1
    doe = yoe * 365 + yoe // 4 - yoe // 100 + doy
    return era * 146097 + doe - 719468


def h_datetime(V):
    y = V.pick('year', [1969, 1970, 1971, 2024, 2200])
    mo = V.choice('month0', 12) + 1
    d = V.int('day', 1, 28)
    h = V.int('hour', 0, 23)
    mi = V.int('minute', 0, 59)
    s = V.int('second', 0, 59)
    us = V.int('microsecond', 0, 999999)
    aware = V.flag('tz_aware')
    off = V.int('utc_offset_minutes', -1439, 1439) if aware else 0
    if sx.symbolic_mode():
        val = SymDateTime(y, mo, d, h, mi, s, us, off)
    else:
        tz = datetime.timezone(datetime.timedelta(minutes=off)) if aware else None
        utc = datetime.datetime(y, mo, d, h, mi, s, us)
        val = (utc + datetime.timedelta(minutes=off)).replace(tzinfo=tz) if aware else utc
    out = E.cql_encode_all_types(val)
    p = parse_one(out)
    if not V.check(p is not None and p[0] == 'int', 'datetime:one-integer-term'):
        return
    secs = ((days_from_civil(y, mo, d) * 24 + h) * 60 + mi) * 60 + s
    total_us = secs * 10 ** 6 + us
    want = sx.ite(total_us >= 0, total_us // 1000, -((-total_us) // 1000))      # int() truncates toward zero
    V.check(sx.eq(int_of(p[1]), want), 'datetime:milliseconds-since-epoch-utc', note='offset must not shift the instant')
    sent = ct.DateType.serialize(val, 4)
    V.check(sx.beq(sent, sx.cat([(want >> (8 * (7 - k))) & 0xff for k in range(8)])), 'datetime:same-as-prepared-path')


def h_collection(V, depth=2):
    val, chk = gen_value(V, depth)
    out = E.cql_encode_all_types(val)
    p = parse_one(out)
    V.tag('shape', None if p is None else p[0])
    if V.check(p is not None, 'collection:exactly-one-term'):
        V.check(chk(p), 'collection:reads-back-equal')


def h_bind(V, named=False):
    s = V.str('s', V.choice('len', 3))
    i = V.int('i', -99, 99)
    if named:
        text = cq.bind_params("SELECT * FROM t WHERE a=%(a)s AND b=%(b)s", _PairMapDict([('a', s), ('b', i)]), E)
    else:
        text = cq.bind_params("SELECT * FROM t WHERE a=%s AND b=%s", (s, i), E)
    cs = _norm(cps(text))
    pre = [ord(ch) for ch in "SELECT * FROM t WHERE a="]
    mid = [ord(ch) for ch in " AND b="]
    if not V.check(seq_eq(cs[:len(pre)], pre), 'bind:prefix'):
        return
    r = p_term(cs, len(pre))
    if not V.check(r is not None, 'bind:first-parameter-is-one-term'):
        return
    p1, j = r
    V.check(p1[0] == 'str' and seq_eq(p1[1], cps(s)), 'bind:first-parameter-value')
    if not V.check(len(cs) >= j + len(mid) and seq_eq(cs[j:j + len(mid)], mid), 'bind:statement-structure-unchanged'):
        return
    r = p_term(cs, j + len(mid))
    if V.check(r is not None and r[1] == len(cs), 'bind:second-parameter-is-one-term-to-the-end'):
        V.check(r[0][0] == 'int' and sx.eq(int_of(r[0][1]), i), 'bind:second-parameter-value')


class _PairMapDict(dict):
    """a real dict (bind_params tests isinstance(params, dict)) with str keys and proxy values"""
    def __init__(self, pairs):
        dict.__init__(self, pairs)


def jobs(tier):
    J = []
    top = 3 if tier == 'quick' else 5
    for n in range(top + 1):
        J.append(Job('str/n%d' % n, 'h_str', dict(n=n)))
        J.append(Job('str-subclass/n%d' % n, 'h_str', dict(n=n, sub=True)))
    for n in range((2 if tier == 'quick' else 4) + 1):
        for kind in ('bytes', 'bytearray', 'sub'):
            J.append(Job('bytes-%s/n%d' % (kind, n), 'h_bytes', dict(n=n, kind=kind)))
    J.append(Job('int', 'h_int', {}))
    J.append(Job('float', 'h_float', {}))
    J.append(Job('decimal', 'h_decimal', {}))
    J.append(Job('misc', 'h_misc', {}))
    J.append(Job('Time', 'h_time_ext', {}, dict(arith='int')))
    J.append(Job('Date', 'h_date_ext', {}))
    for yi in range(5):
        J.append(Job('datetime/y%d' % yi, 'h_datetime', {}, dict(pin={'year': yi}, arith='int')))
    kinds = LEAF_KINDS + ['list', 'tuple', 'set', 'map', 'seq', 'mylist', 'mydict']
    for ki, k in enumerate(kinds):
        if k in LEAF_KINDS:
            continue
        J.append(Job('collection/%s' % k, 'h_collection', dict(depth=2 if tier == 'quick' else 3), dict(pin={'k:p': ki})))
    J.append(Job('bind/positional', 'h_bind', dict(named=False)))
    J.append(Job('bind/named', 'h_bind', dict(named=True)))
    return J
