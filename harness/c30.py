"""C30 — prepared-statement binding and routing keys are consistent.

The real BoundStatement.bind / routing_key / PreparedStatement.from_message run with the bind
metadata shape, the protocol version, the value-list shape (value / None / UNSET / missing / extra)
drawn by solver-forked choices and with the value contents symbolic (32-bit ints, blobs).  The
oracle is an independent statement of the binding rules and of Cassandra's partition-key encoding
(single component: the raw value; composite: <u16 length><bytes><0> per component).
"""
import warnings
import sx
from sx.run import Job

warnings.simplefilter('ignore')
sx.instrument('cassandra.query', 'cassandra.cqltypes', 'cassandra.marshal')
from harness import kit                       # noqa: E402
kit.install_reactor()
from cassandra import query as cq             # noqa: E402
from cassandra import cqltypes as ct          # noqa: E402
from cassandra.protocol import ColumnMetadata  # noqa: E402

UNSET = cq.UNSET_VALUE

META = dict(
    level='model_checking',
    level_text='every bind-metadata shape, value-list shape and protocol version within the bounds is explored (solver-forked choices) with the bound values symbolic; z3 proves per path that the serialized values and the routing key equal the specification encoding for every value',
    level_note='at most 3 bind markers of types int/blob, at most 4 supplied values, blobs of at most 2 bytes; the binding rules oracle is hand-written from the bind() docstring and the native-protocol spec; z3 trusted',
    technique='symbolic execution (sx proxies over the real cassandra.query.BoundStatement.bind / routing_key / _key_parts_packed / PreparedStatement.from_message) + z3 validity queries per path; counterexamples replayed concretely',
    bounds=dict(quick='1..3 bind markers (int | blob), routing-key index lists: none, every single index, every ordered pair, one triple; protocol versions 3,4,5; 0..markers+1 supplied entries each value|None|UNSET; ints 32 bit, blobs 0..1 bytes; with three markers the types are int, blob, int',
                thorough='every type assignment, blobs 0..3 bytes, protocol versions 1..6'),
    assumptions=['a None bound for a partition-key component is outside the claim (Cassandra rejects null partition keys)'],
    stubs=['cluster metadata for from_message: plain objects with keyspaces/tables/partition_key'],
    outside=['column encryption policy (C39)', 'custom types'],
)


def encoded_functions():
    return [cq.BoundStatement.bind, cq.BoundStatement._append_unset_value, cq.BoundStatement.routing_key.fget,
            cq.Statement._key_parts_packed, cq.Statement._set_routing_key, cq.PreparedStatement.from_message,
            cq.PreparedStatement.is_routing_key_index, cq.PreparedStatement.bind]


TYPES = {'int': ct.Int32Type, 'blob': ct.BytesType}
NAMES = ['a', 'b', 'c']
RK_SHAPES = [None, [0], [1], [2], [0, 1], [1, 0], [0, 2], [2, 1], [1, 2, 0]]


def be(v, n):
    return [(v >> (8 * (n - 1 - i))) & 0xff for i in range(n)]


def make_prepared(V, versions):
    n = V.choice('markers', 3) + 1
    kinds = [V.pick('type%d' % i, ['int', 'blob']) for i in range(n)]
    rk = V.pick('routing_key_indexes', RK_SHAPES)
    if rk is not None and max(rk) >= n:
        V.assume(False)
    pv = V.pick('protocol_version', versions)
    meta = [ColumnMetadata('ks', 't', NAMES[i], TYPES[kinds[i]]) for i in range(n)]
    ps = cq.PreparedStatement(meta, b'id', rk, 'q', 'ks', pv, None, None)
    return ps, n, kinds, rk, pv


def make_value(V, i, kind, maxblob):
    """(python value, specification bytes)"""
    if kind == 'int':
        v = V.int('v%d' % i, -(1 << 31), (1 << 31) - 1)
        return v, be(v, 4)
    ln = V.choice('len%d' % i, maxblob + 1)
    b = V.bytes('v%d' % i, ln)
    return b, list(sx.blist(b))


def spec_bind(n, rk, pv, entries):
    """('error', type) or ('ok', [spec]) where spec is None | 'UNSET' | list of byte items"""
    rkset = set(rk or [])
    if len(entries) > n:
        return ('error', ValueError)
    if pv < 4 and rk and any(i >= len(entries) for i in rk):
        return ('error', ValueError)          # a partition-key marker without a value is rejected on every version
    out = []
    for i, e in enumerate(entries):
        if e[0] == 'none':
            out.append(None)
        elif e[0] == 'unset':
            if pv < 4 or i in rkset:
                return ('error', ValueError)
            out.append('UNSET')
        else:
            out.append(e[2])
    if pv >= 4:
        for i in range(len(entries), n):
            if i in rkset:
                return ('error', ValueError)
            out.append('UNSET')
    return ('ok', out)


def values_match(got, want):
    if len(got) != len(want):
        return False
    conds = []
    for g, w in zip(got, want):
        if w is None:
            conds.append(g is None)
        elif isinstance(w, str):
            conds.append(g is UNSET)
        else:
            if g is None or g is UNSET:
                return False
            conds.append(sx.beq(g, sx.cat(w)) if w else len(g) == 0)
    return sx.land(*conds) if conds else True


def spec_routing_key(rk, want):
    """specification routing key bytes (list of byte items) or None"""
    if not rk:
        return None
    if len(rk) == 1:
        return want[rk[0]]
    out = []
    for i in rk:
        out += be(len(want[i]), 2) + list(want[i]) + [0]
    return out


def h_bind(V, versions=(3, 4, 5), maxblob=2, by_name=False):
    ps, n, kinds, rk, pv = make_prepared(V, list(versions))
    given = V.choice('entries', n + 2)
    entries = []
    for i in range(given):
        what = V.pick('entry%d' % i, ['value', 'none', 'unset'])
        if what == 'value':
            v, spec = make_value(V, i, kinds[min(i, n - 1)], maxblob)
            entries.append(('value', v, spec))
        else:
            entries.append((what, None if what == 'none' else UNSET, None))
    V.tag('shape', '%d/%s/v%d/%s' % (n, rk, pv, [e[0] for e in entries]))
    want = spec_bind(n, rk, pv, entries)
    if by_name:
        if given > n:
            V.assume(False)
        # names of the first `given` markers; the rest are missing from the dict
        params = dict((NAMES[i], entries[i][1]) for i in range(given))
        if pv < 4 and given < n:
            want = ('error', KeyError)
    else:
        params = [e[1] for e in entries]
    try:
        bs = ps.bind(params)
        outcome = ('ok', bs)
    except (ValueError, KeyError, TypeError) as e:
        outcome = ('error', type(e))
    V.tag('outcome', outcome[0])
    if want[0] == 'error':
        V.check(outcome[0] == 'error' and outcome[1] is want[1], 'bind:rejected-as-specified', note='%s expected, got %r' % (want[1].__name__, outcome[1]))
        return
    if not V.check(outcome[0] == 'ok', 'bind:accepted-as-specified', note=str(outcome[1]) if outcome[0] == 'error' else ''):
        return
    V.check(values_match(bs.values, want[1]), 'bind:values-in-marker-order-with-unset-rule')
    # routing key
    rkset = set(rk or [])
    if any(i < len(want[1]) and want[1][i] is None for i in rkset):
        return                                        # null partition-key component: outside the claim
    try:
        got = bs.routing_key
    except Exception as e:
        V.check(False, 'routing-key:never-raises-after-a-successful-bind', note='%s: %s' % (type(e).__name__, e))
        return
    spec = spec_routing_key(rk, want[1])
    if spec is None:
        V.check(got is None, 'routing-key:none-without-partition-key-markers')
    else:
        V.check(got is not None and (sx.beq(got, sx.cat(spec)) if spec else len(got) == 0), 'routing-key:is-cassandras-partition-key-encoding')


def h_same(V, versions=(3, 4, 5), maxblob=1):
    """binding positionally and by column name give the same serialized values"""
    ps, n, kinds, rk, pv = make_prepared(V, list(versions))
    given = V.choice('entries', n + 1)
    vals = []
    for i in range(given):
        what = V.pick('entry%d' % i, ['value', 'none', 'unset'])
        vals.append(make_value(V, i, kinds[i], maxblob)[0] if what == 'value' else (None if what == 'none' else UNSET))
    res = []
    for params in (list(vals), dict((NAMES[i], vals[i]) for i in range(given))):
        try:
            res.append(('ok', ps.bind(params).values))
        except (ValueError, KeyError, TypeError) as e:
            res.append(('error', type(e)))
    V.tag('outcomes', '%s/%s' % (res[0][0], res[1][0]))
    if res[0][0] == 'ok' and res[1][0] == 'ok':
        a, b = res
        conds = [len(a[1]) == len(b[1])]
        for x, y in zip(a[1], b[1]):
            if x is None or x is UNSET or y is None or y is UNSET:
                conds.append(x is y)
            else:
                conds.append(sx.beq(x, y) if len(x) or len(y) else True)
        V.check(sx.land(*conds), 'bind:positional-and-named-agree')
    else:
        # a short positional list on v3 is accepted (fewer values); the same dict is a KeyError: both documented
        V.check(res[0][0] == res[1][0] or pv < 4, 'bind:positional-and-named-agree-on-rejection')


class _Tbl(object):
    def __init__(self, pk):
        self.partition_key = pk


class _Col(object):
    def __init__(self, name):
        self.name = name


class _KS(object):
    def __init__(self, tables):
        self.tables = tables


class _Meta(object):
    def __init__(self, keyspaces):
        self.keyspaces = keyspaces


def h_from_message(V):
    """routing_key_indexes: the server's pk_indexes when present, else derived from the table's partition key
    only when every component is a bind marker"""
    cols = ['p1', 'p2', 'x', 'y']
    markers = [c for c in cols if V.flag('marker_' + c)]
    order = V.choice('marker_order', 2)
    if order:
        markers = markers[::-1]
    pk = V.pick('partition_key', [['p1'], ['p1', 'p2'], ['p2', 'p1']])
    server_pk = V.flag('server_sends_pk_indexes')
    known_table = V.flag('table_metadata_known')
    meta = [ColumnMetadata('ks', 't', c, ct.Int32Type) for c in markers]
    cm = _Meta({'ks': _KS({'t': _Tbl([_Col(c) for c in pk])})} if known_table else {})
    pk_indexes = None
    if server_pk:
        if not all(c in markers for c in pk):
            V.assume(False)          # the server only sends indexes when all components are bound
        pk_indexes = [markers.index(c) for c in pk]
    ps = cq.PreparedStatement.from_message(b'id', meta, pk_indexes, cm, 'q', 'ks', 4, None, None)
    if not markers:
        want = None
    elif server_pk:
        want = pk_indexes
    elif known_table and all(c in markers for c in pk):
        want = [markers.index(c) for c in pk]
    else:
        want = None
    V.tag('want', want)
    V.check((ps.routing_key_indexes or None) == want, 'from-message:routing-key-indexes', note='%r, expected %r (markers %r pk %r)' % (ps.routing_key_indexes, want, markers, pk))
    if want is None and markers:
        bs = ps.bind([V.int('v%d' % i, -5, 5) for i in range(len(markers))])
        V.check(bs.routing_key is None, 'from-message:no-routing-key-for-a-partial-partition-key')


def jobs(tier):
    versions = (3, 4, 5) if tier == 'quick' else (1, 2, 3, 4, 5, 6)
    mb = 1 if tier == 'quick' else 3
    J = []
    for m in range(3):
        pin = {'markers': m}
        if tier == 'quick' and m == 2:
            pin.update({'type0': 0, 'type1': 1, 'type2': 0})       # quick: one type assignment for three markers
        J.append(Job('bind/positional/m%d' % (m + 1), 'h_bind', dict(versions=versions, maxblob=mb), dict(pin=dict(pin))))
        J.append(Job('bind/named/m%d' % (m + 1), 'h_bind', dict(versions=versions, maxblob=mb, by_name=True), dict(pin=dict(pin))))
        J.append(Job('same/m%d' % (m + 1), 'h_same', dict(versions=versions), dict(pin=dict(pin))))
    J.append(Job('from-message', 'h_from_message', {}))
    return J
