"""C31 — client-side timestamps strictly increase.

The clock is an arbitrary (not monotone) integer-microsecond reading per call:
`time.time()` is stubbed with an object whose `int(t * 1e6)` is a fresh
symbolic int (the floating-point product is the environment's value and is cut
at the integer).  `last` is wrapped in a descriptor that requires the
generator's lock to be held on every access made while generating.
"""
import time
import sx
from sx.run import Job

sx.instrument('cassandra.timestamps')
from cassandra import timestamps
from cassandra.timestamps import MonotonicTimestampGenerator

META = dict(
    level='model_checking',
    level_text='every path of k successive calls with arbitrary symbolic clock readings, plus one inductive step from an arbitrary prior state, is decided by z3 for all 63-bit readings; lock coverage of the shared state is asserted on every access',
    level_note='task-level serialisation only: because the lock is asserted to cover every access to `last`, any thread interleaving is a serialisation of calls; pre-emption inside the locked region and the float product time.time()*1e6 are outside the claim',
    technique='symbolic execution of the real MonotonicTimestampGenerator (instrumented module, symbolic clock stub) + z3 validity per path; inductive step for unbounded histories',
    bounds=dict(quick='sequences of k<=5 calls (k<=3 with drift warnings on), clock readings arbitrary in [-2^62, 2^62] per call, warning threshold/interval each in {1, 0, 0.5, 3600} s; inductive step: arbitrary last in [-2^62, 2^62]',
                thorough='sequences of k<=8 calls (k<=4 with warnings on), same ranges'),
    assumptions=['time.time() may return any value, also decreasing ones', 'int(time.time()*1e6) is cut at the integer: the reading is an arbitrary int'],
    stubs=['time.time -> symbolic reading', 'logging -> no-op logger', 'clock read and log call are pre-emption points: when the lock is free there, a second thread may run one complete call (symbolic choice)'],
    outside=['OS-thread pre-emption inside the locked region', 'readings beyond 2^62 microseconds'],
)

R = 1 << 62
THRESH = (1, 0, 0.5, 3600)


class Sched(object):
    """call-outs to the environment (clock, logger) are pre-emption points: if the
    generator's lock is free there, a symbolic choice lets a second thread run a
    complete call at that point"""
    def __init__(self, V):
        self.V = V
        self.g = None
        self.depth = 0
        self.concurrent = []      # results of calls made by the second thread
        self.n = 0

    def callout(self, where):
        g = self.g
        if g is None or not g.armed or self.depth or g.lock.locked() or self.n >= 2:
            return
        self.n += 1
        if self.V.flag('preempt_%s_%d' % (where, self.n)):
            self.depth += 1
            try:
                self.concurrent.append(g())
            finally:
                self.depth -= 1


class _Log(object):
    def __init__(self, sched):
        self.n = 0
        self.sched = sched

    def warning(self, *a, **k):
        self.n += 1
        self.sched.callout('log')

    def __getattr__(self, n):
        return lambda *a, **k: None


class Reading(object):
    """what time.time() returns: int(reading * 1e6) is the symbolic microsecond value"""
    def __init__(self, us):
        self.us = us

    def __mul__(self, k):
        assert k == 1e6
        return self

    def __sx_int__(self):
        return self.us

    def __int__(self):
        return self.us


class Gen(MonotonicTimestampGenerator):
    """real generator; `last` is observed through a property that checks the lock"""
    unlocked = 0
    armed = False

    def _get(self):
        if self.armed and not self.lock.locked():
            self.unlocked += 1
        return self.__dict__['_last_v']

    def _set(self, v):
        if self.armed and not self.lock.locked():
            self.unlocked += 1
        self.__dict__['_last_v'] = v
    last = property(_get, _set)


def _setup(V, warn, clock0):
    sched = Sched(V)
    log = _Log(sched)
    timestamps.log = log

    def clock():
        sched.callout('clock')
        return clock0()
    if V.symbolic:
        from sx import hooks
        hooks.register(time.time, lambda: Reading(clock()))
    else:
        timestamps.time = type('T', (), {'time': staticmethod(lambda: Reading(clock()))})
    if warn:
        g = Gen(warn_on_drift=True, warning_threshold=V.pick('threshold_s', THRESH), warning_interval=V.pick('interval_s', THRESH))
    else:
        g = Gen(warn_on_drift=False)
    sched.g = g
    log.concurrent = sched.concurrent
    return g, log


def h_sequence(V, k=4, warn=False):
    readings = []

    def clock():
        r = V.int('now%d' % len(readings), -R, R)
        readings.append(r)
        return r
    g, log = _setup(V, warn, clock)
    g.armed = True
    out = []
    for i in range(k):
        before = list(log.concurrent)
        nread = len(readings)
        t = g()
        during = log.concurrent[len(before):]
        if not during:
            V.check(len(readings) == nread + 1, 'one-clock-reading-per-call')
            V.check(t >= readings[nread], 'not-before-clock')
            V.check(sx.eq(g.__dict__['_last_v'], t), 'state-tracks-last-returned')
        for prev in out[-1:] + before[-1:]:
            V.check(t > prev, 'strictly-increasing')
        for c in during:
            # a call of another thread that overlapped this one: any order, never equal,
            # and still after everything that had completed before
            V.check(sx.lnot(sx.eq(c, t)), 'concurrent-calls-distinct')
            for prev in out[-1:]:
                V.check(c > prev, 'strictly-increasing')
        out.append(t)
    V.check(g.unlocked == 0, 'state-only-touched-under-lock')
    V.check(not g.lock.locked(), 'lock-released')
    V.tag('warnings', log.n)


def h_step(V, warn=True):
    """inductive step: arbitrary prior state, one call"""
    readings = []

    def clock():
        r = V.int('now%d' % len(readings), -R, R)
        readings.append(r)
        return r
    g, log = _setup(V, warn, clock)
    last = V.int('last', -R, R)
    g.__dict__['_last_v'] = last
    g._last_warn = V.int('last_warn', -R, R)
    g.armed = True
    t = g()
    V.check(t > last, 'step-strictly-increasing')
    for c in log.concurrent:
        V.check(sx.lnot(sx.eq(c, t)), 'concurrent-calls-distinct')
        V.check(c > last, 'step-strictly-increasing')
    if not log.concurrent:
        V.check(t >= readings[0], 'step-not-before-clock')
        V.check(sx.lor(t == readings[0], t == last + 1), 'step-is-clock-or-successor')
        V.check(sx.eq(g.__dict__['_last_v'], t), 'step-state-tracks')
    V.check(g.unlocked == 0, 'state-only-touched-under-lock')
    V.tag('warnings', log.n)


def encoded_functions():
    return [MonotonicTimestampGenerator._next_timestamp, MonotonicTimestampGenerator.__call__,
            MonotonicTimestampGenerator._maybe_warn]


def jobs(tier):
    th = tier == 'thorough'
    js = [Job('step-warn', 'h_step', dict(warn=True)), Job('step-nowarn', 'h_step', dict(warn=False))]
    for k in range(1, (8 if th else 5) + 1):
        js.append(Job('seq-%d' % k, 'h_sequence', dict(k=k, warn=False)))
    for k in range(1, (4 if th else 3) + 1):
        js.append(Job('seq-warn-%d' % k, 'h_sequence', dict(k=k, warn=True)))
    return js
