"""C32 — concurrent execution returns one ordered result per statement.

The real cassandra.concurrent executors run against a scripted session: per statement the behaviour
(execute_async raises / future already failed / already succeeded / completes later with success or
error) is a solver-forked choice, as are the statement count, the concurrency, fail-fast, and the
order in which the later completions are delivered "by another thread" (each time the caller blocks
on the executor's condition, the scheduler variable picks which outstanding future completes).
"""
import warnings
from concurrent.futures import InvalidStateError
import sx
from sx.run import Job

warnings.simplefilter('ignore')
sx.instrument('cassandra.concurrent')
from harness import kit                       # noqa: E402
kit.install_reactor()
import cassandra.concurrent as ccon           # noqa: E402

META = dict(
    level='model_checking',
    level_text='every combination of statement count, concurrency, per-statement behaviour, fail-fast flag and completion order within the bounds is explored (solver-forked scenario variables) through the real executors; results, ordering, the in-flight bound, the raised failure and the completion count of the asynchronous future are compared per path with the specification',
    level_note='completions are delivered whenever the calling thread blocks on the executor condition (and after execute() returned for the asynchronous variant); in the generator-race jobs the consumer thread may additionally run at every acquire/release of the executor condition inside _put_result (at most two such pre-emptions per history); at most 3 statements',
    technique='symbolic execution (sx, solver-forked scenario and scheduler variables) of the real cassandra.concurrent executors over a scripted session; threading.Condition replaced by a virtual condition whose wait() hands control to the scheduler',
    bounds=dict(quick='1..3 statements, concurrency 1..3, behaviours {raise, sync-ok, sync-error, later-ok, later-error}, fail-fast on/off, list / generator / future variants, every completion order',
                thorough='1..4 statements, concurrency 1..4'),
    assumptions=['a callback thread delivers a completion only while the caller is blocked in Condition.wait (or, for the future variant, after execute_concurrent_async returned)'],
    stubs=['session.execute_async: scripted futures (add_callbacks / clear_callbacks)', 'threading.Condition in cassandra.concurrent: virtual condition (wait = scheduler step)'],
    outside=['two callback threads racing with each other', 'the recursion limit path (100 consecutive synchronous failures)'],
)


def encoded_functions():
    return [ccon.execute_concurrent, ccon._ConcurrentExecutor.execute, ccon._ConcurrentExecutor._execute_next, ccon._ConcurrentExecutor._execute,
            ccon.ConcurrentExecutorGenResults._put_result, ccon.ConcurrentExecutorGenResults._results,
            ccon.ConcurrentExecutorListResults._put_result, ccon.ConcurrentExecutorListResults._results,
            ccon.ConcurrentExecutorFutureResults._put_result, ccon.execute_concurrent_async]


BEHAVIOURS = ['raise', 'sync-ok', 'sync-error', 'later-ok', 'later-error']


class Boom(Exception):
    def __init__(self, i):
        Exception.__init__(self, 'statement %d failed' % i)
        self.i = i


class _Fut(object):
    _col_names = None
    _col_types = None
    has_more_pages = False
    _continuous_paging_session = None

    def __init__(self, sess, i, behaviour):
        self.sess, self.i, self.behaviour = sess, i, behaviour
        self.done = behaviour.startswith('sync')
        self.cbs = None
        self.fired = 0

    def add_callbacks(self, callback, errback, callback_args=(), callback_kwargs=None, errback_args=(), errback_kwargs=None):
        self.cbs = (callback, callback_args, errback, errback_args)
        if self.done:
            self._fire()

    def clear_callbacks(self):
        pass

    def _fire(self):
        cb, ca, eb, ea = self.cbs
        self.fired += 1
        self.sess.completed += 1
        self.sess.record_order.append(self.i)
        if self.behaviour.endswith('ok'):
            cb([('row', self.i)], *ca)
        else:
            eb(Boom(self.i), *ea)

    def complete(self):
        self.done = True
        self._fire()


class _Session(object):
    def __init__(self, behaviours):
        self.behaviours = behaviours
        self.launched = 0
        self.completed = 0
        self.max_in_flight = 0
        self.pending = []
        self.order = []
        self.submitted = []
        self.record_order = []      # statement indexes in the order their outcome was recorded

    def execute_async(self, statement, params, timeout=None, execution_profile=None):
        i = statement
        self.order.append(i)
        b = self.behaviours[i]
        if b == 'raise':
            self.record_order.append(i)
            raise Boom(i)
        self.launched += 1
        self.max_in_flight = max(self.max_in_flight, self.launched - self.completed)
        f = _Fut(self, i, b)
        if not f.done:
            self.pending.append(f)
        return f

    def submit(self, fn, *a, **k):
        self.submitted.append((fn, a, k))


def scenario(V, maxn):
    n = V.choice('statements', maxn) + 1
    conc = V.choice('concurrency', maxn) + 1
    beh = [V.pick('behaviour%d' % i, BEHAVIOURS) for i in range(n)]
    ff = V.flag('raise_on_first_error')
    return n, conc, beh, ff


def install_scheduler(V, sess, w):
    """each blocking wait lets one outstanding future complete (which one is a scheduler variable)"""
    ccon.Condition = kit.VirtualCondition
    step = [0]
    delivered = []

    def on_wait(cond, timeout):
        if not sess.pending:
            return False          # nobody left to notify: a real thread would wait forever
        k = V.choice('sched%d' % step[0], len(sess.pending))
        step[0] += 1
        f = sess.pending.pop(k)
        delivered.append(f.i)
        f.complete()
        return True
    w.on_wait = on_wait
    return delivered


def expected(beh, i):
    return beh[i].endswith('ok')


def check_results(V, res, n, beh, label):
    V.check(len(res) == n, label + ':one-result-per-statement', note='%d results for %d statements' % (len(res), n))
    for i, r in enumerate(res[:n]):
        ok = expected(beh, i)
        good = (r[0] is True and list(r[1]) == [('row', i)]) if ok else (r[0] is False and isinstance(r[1], Boom) and r[1].i == i)
        V.check(good, label + ':result-i-belongs-to-statement-i-in-input-order', note='position %d: %r' % (i, r))


def h_list(V, maxn=3, generator=False):
    n, conc, beh, ff = scenario(V, maxn)
    w = kit.World()
    sess = _Session(beh)
    delivered = install_scheduler(V, sess, w)
    V.tag('scenario', '%d/%d/%s/%s' % (n, conc, ','.join(b[:6] for b in beh), ff))
    stmts = [(i, None) for i in range(n)]
    raised = None
    res = []
    try:
        out = ccon.execute_concurrent(sess, stmts, concurrency=conc, raise_on_first_error=ff, results_generator=generator)
        if generator:
            for r in out:
                res.append(r)
        else:
            res = list(out)
    except Boom as e:
        raised = e
    label = 'generator' if generator else 'list'
    V.check(sess.max_in_flight <= conc, label + ':at-most-concurrency-in-flight', note='%d in flight with concurrency %d' % (sess.max_in_flight, conc))
    V.check(sess.order == sorted(sess.order) and len(set(sess.order)) == len(sess.order), label + ':each-statement-submitted-once-in-order')
    failing = [i for i in range(n) if not expected(beh, i)]
    if ff and failing:
        V.check(raised is not None, label + ':fail-fast-raises', note='failing statements %r' % failing)
        if raised is not None:
            if generator:
                # the generator yields in input order and raises at the first failing position
                V.check(raised.i == failing[0] and len(res) == failing[0], label + ':fail-fast-raises-the-first-failure')
                check_results(V, res, len(res), beh, label)
            else:
                # the first failure that was recorded: failures are recorded in the order they happen
                first = None
                for i in sess.record_order:
                    if not expected(beh, i):
                        first = i
                        break
                V.check(raised.i == first, label + ':fail-fast-raises-the-first-failure', note='raised %d, first failure was %r' % (raised.i, first))
        return
    V.check(raised is None, label + ':no-exception-without-fail-fast-failure', note=repr(raised))
    if raised is None:
        check_results(V, res, n, beh, label)
        V.check(sorted(sess.order) == list(range(n)), label + ':every-statement-executed')


def h_future(V, maxn=3):
    n, conc, beh, ff = scenario(V, maxn)
    w = kit.World()
    sess = _Session(beh)
    delivered = install_scheduler(V, sess, w)
    V.tag('scenario', '%d/%d/%s/%s' % (n, conc, ','.join(b[:6] for b in beh), ff))
    stmts = [(i, None) for i in range(n)]
    sets = []
    orig_future = ccon.Future

    class _F(orig_future):
        def set_result(self, r):
            sets.append(('result', r))
            return orig_future.set_result(self, r)

        def set_exception(self, e):
            sets.append(('exception', e))
            return orig_future.set_exception(self, e)
    ccon.Future = _F
    invalid = None
    fut = None
    try:
        fut = ccon.execute_concurrent_async(sess, stmts, concurrency=conc, raise_on_first_error=ff)
        # completions that arrive after the call returned
        step = 0
        while sess.pending:
            k = V.choice('late%d' % step, len(sess.pending))
            step += 1
            f = sess.pending.pop(k)
            delivered.append(f.i)
            f.complete()
    except InvalidStateError as e:
        invalid = e
    finally:
        ccon.Future = orig_future
    V.check(invalid is None, 'future:completed-at-most-once', note='InvalidStateError: the future was completed twice (%r)' % [s[0] for s in sets])
    if invalid is not None or fut is None:
        return
    V.check(len(sets) == 1, 'future:completes-exactly-once', note=repr([s[0] for s in sets]))
    V.check(fut.done(), 'future:done-after-all-statements-finished')
    failing = [i for i in range(n) if not expected(beh, i)]
    if not fut.done():
        return
    if ff and failing:
        V.check(fut.exception() is not None and isinstance(fut.exception(), Boom), 'future:fail-fast-sets-the-failure')
    else:
        V.check(fut.exception() is None, 'future:no-exception-without-fail-fast-failure', note=repr(fut.exception()))
        if fut.exception() is None:
            check_results(V, fut.result(), n, beh, 'future')
    V.check(sess.max_in_flight <= conc, 'future:at-most-concurrency-in-flight')


def h_generator_race(V, maxn=3):
    """results_generator=True with the consumer thread and a callback thread interleaved at the executor's sync
    points: completions are delivered by the callback thread (the harness), and at every acquire/release of the
    executor condition inside _put_result the consumer thread may run as far as it can without blocking"""
    n = V.choice('statements', maxn) + 1
    conc = V.choice('concurrency', maxn) + 1
    beh = [V.pick('behaviour%d' % i, ['later-ok', 'later-error', 'sync-ok']) for i in range(n)]
    w = kit.World()
    sess = _Session(beh)
    res = []
    state = dict(done=False, gen=None, ex=None)

    def can_progress():
        # the consumer is either not started or suspended at its `yield`; resuming it first does `_current += 1`
        ex = state['ex']
        cur = ex._current + (1 if state.get('yielded') else 0)
        return (ex._results_queue and ex._results_queue[0][0] == cur) or cur >= ex._exec_count

    def consumer_runs(*a):
        for _ in range(3):
            g = state['gen']
            if g is None or state['done'] or g.gi_running or not can_progress():
                return
            try:
                res.append(next(g))
                state['yielded'] = True
            except StopIteration:
                state['done'] = True

    pre = kit.Preempter(V, ('_put_result',), consumer_runs, budget=2)
    orig_cond = ccon.Condition
    ccon.Condition = lambda *a: kit.VirtualCondition(kit.SchedLock('executor.condition', pre))
    w.on_wait = lambda cond, timeout: False
    try:
        ex = ccon.ConcurrentExecutorGenResults(sess, [(i, None) for i in range(n)], None)
        state['ex'] = ex
        state['gen'] = ex.execute(conc, False)
        step = 0
        while sess.pending:
            k = V.choice('deliver%d' % step, len(sess.pending))
            step += 1
            f = sess.pending.pop(k)
            f.complete()
            if V.flag('consumer_runs_after_%d' % step):
                consumer_runs()
        # the consumer drains what is left
        for _ in range(2 * n + 2):
            if state['done']:
                break
            if not can_progress():
                break
            consumer_runs()
    finally:
        ccon.Condition = orig_cond
    V.tag('scenario', '%d/%d/%s/%r' % (n, conc, ','.join(b[:8] for b in beh), pre.log))
    V.check(state['done'], 'generator-race:consumer-reaches-the-end', note='%d results so far' % len(res))
    check_results(V, res, n, beh, 'generator-race')
    V.check(sess.order == list(range(n)), 'generator-race:every-statement-executed-once-in-order', note=repr(sess.order))
    V.check(sess.max_in_flight <= conc, 'generator-race:at-most-concurrency-in-flight')


def jobs(tier):
    maxn = 3 if tier == 'quick' else 4
    J = []
    for n in range(maxn):
        J.append(Job('list/n%d' % (n + 1), 'h_list', dict(maxn=maxn), dict(pin={'statements': n})))
        J.append(Job('generator/n%d' % (n + 1), 'h_list', dict(maxn=maxn, generator=True), dict(pin={'statements': n})))
        J.append(Job('future/n%d' % (n + 1), 'h_future', dict(maxn=maxn), dict(pin={'statements': n})))
        J.append(Job('generator-race/n%d' % (n + 1), 'h_generator_race', dict(maxn=maxn), dict(pin={'statements': n})))
    return J
