"""C33 — driver collection types behave as their mathematical models.

One inductive step from an arbitrary valid state: the sorted set's state is k symbolic elements
under its representation invariant (strictly ascending), the operation's arguments are symbolic,
and the post-state / result is compared with the mathematical set by a universally quantified probe
element (a fresh symbolic element y: y in result <=> spec(y in A, y in B, ...)), so one step covers
histories of any length.  The ordered map's state is k entries with pairwise distinct symbolic keys;
every operation is followed by the representation invariant (index[flat(key_i)] == i) and compared
with an insertion-ordered association list.
"""
import warnings
import pickle
import sx
from sx.run import Job
from sx import hooks

warnings.simplefilter('ignore')
sx.instrument('cassandra.util', 'cassandra.cqltypes', 'cassandra.marshal')
from harness import kit                       # noqa: E402
from cassandra import util                    # noqa: E402
from cassandra import cqltypes as ct          # noqa: E402

META = dict(
    level='model_checking',
    level_text='one operation from an arbitrary valid state with symbolic elements/keys/values: z3 proves, per path of the real SortedSet / OrderedMap code, that the result equals the mathematical model for every element value (membership is checked with a universally quantified probe element) and that the representation invariant is re-established, which extends the claim to operation sequences of any length',
    level_note='state size bounded (sets of at most 3+2(+2) elements, maps of at most 3 entries); element kinds: 32-bit ints, pairs and lists of small ints (unhashable, comparable); the inductive argument relies on the invariants stated in the harness; z3 trusted',
    technique='symbolic execution (sx proxies over the real cassandra.util.SortedSet / OrderedMap / OrderedMapSerializedKey) from a symbolic pre-state constrained by the representation invariant + z3 validity queries per path (inductive step)',
    bounds=dict(quick='sorted set: |A| <= 3, |B| <= 2, |C| <= 1, elements int32 / (int,int) tuples / [int,int] lists over 0..3; ordered map: <= 3 entries, int32 keys (OrderedMapSerializedKey with Int32Type, OrderedMap with an injective key-pickling stub), values symbolic',
                thorough='|A| <= 4, |B| <= 3, |C| <= 2'),
    assumptions=['representation invariant of SortedSet: _items strictly ascending; of OrderedMap: keys pairwise distinct by their flat encoding and _index[flat(key_i)] == i',
                 'elements of one totally ordered type; sets of sets (ordered by their items) are covered by the nested-sets job'],
    stubs=['pickle.dumps(key) for symbolic keys: an injective tagged tuple', 'dict(...) over symbolic keys: kit.SymDict (compares keys instead of hashing)'],
    outside=['in-place operators beyond those listed', 'elements of mixed types'],
)


def encoded_functions():
    S, M = util.SortedSet, util.OrderedMap
    return [S.__contains__, S.add, S.remove, S.pop, S.union, S.intersection, S.difference, S.symmetric_difference, S._diff,
            S._intersect, S._find_insertion, S.issubset, S.issuperset, S.isdisjoint, S.__eq__, S.__ne__, S.__lt__, S.__le__,
            S.__gt__, S.__ge__, S.update, S.copy, M._insert, M.__getitem__, M.__delitem__, M.popitem, M.__iter__, M.__eq__,
            util.OrderedMapSerializedKey._serialize_key, util.OrderedMapSerializedKey._insert_unchecked]


# ---- elements -----------------------------------------------------------------------------------
def elem(V, name, kind):
    if kind == 'int':
        return V.int(name, -(1 << 31), (1 << 31) - 1)
    a, b = V.int(name + '.0', 0, 3), V.int(name + '.1', 0, 3)
    return (a, b) if kind == 'pair' else [a, b]


def eqv(a, b):
    if isinstance(a, (tuple, list)):
        return sx.land(*[eqv(x, y) for x, y in zip(a, b)])
    return a == b


def ltv(a, b):
    if isinstance(a, (tuple, list)):
        return sx.lor(a[0] < b[0], sx.land(a[0] == b[0], a[1] < b[1]))
    return a < b


def member(y, items):
    return sx.lor(*[eqv(y, e) for e in items]) if items else False


def ascending(items):
    return sx.land(*[ltv(a, b) for a, b in zip(items, items[1:])]) if len(items) > 1 else True


def mkset(V, name, k, kind):
    items = [elem(V, '%s%d' % (name, i), kind) for i in range(k)]
    V.assume(ascending(items))
    s = util.sortedset()
    s._items = list(items)
    return s, items


def subset(A, B):
    return sx.land(*[member(a, B) for a in A]) if A else True


# ---- sorted set -----------------------------------------------------------------------------------
def h_set_unary(V, kind='int', maxa=3, op='add'):
    ka = V.choice('|A|', maxa + 1)
    s, A = mkset(V, 'a', ka, kind)
    x = elem(V, 'x', kind)
    y = elem(V, 'y', kind)               # the universally quantified probe
    V.tag('shape', '%s/%d' % (op, ka))
    if op == 'contains':
        V.check(sx.iff(x in s, member(x, A)), 'set:contains-is-membership')
        return
    if op == 'add':
        s.add(x)
        post = list(s._items)
        V.check(ascending(post), 'set:add-keeps-ascending-order')
        V.check(sx.iff(member(y, post), sx.lor(member(y, A), eqv(y, x))), 'set:add-is-union-with-singleton')
        V.check(len(post) == ka + (0 if sx.conc_bool(member(x, A)) else 1), 'set:add-cardinality')
        return
    if op == 'remove':
        was = sx.conc_bool(member(x, A))
        try:
            s.remove(x)
            raised = False
        except KeyError:
            raised = True
        post = list(s._items)
        V.check(raised == (not was), 'set:remove-raises-keyerror-iff-absent')
        V.check(ascending(post), 'set:remove-keeps-ascending-order')
        V.check(sx.iff(member(y, post), sx.land(member(y, A), sx.lnot(eqv(y, x)))), 'set:remove-is-difference-with-singleton')
        return
    if op == 'pop':
        if ka == 0:
            try:
                s.pop()
                V.check(False, 'set:pop-from-empty-raises')
            except KeyError:
                V.check(True, 'set:pop-from-empty-raises')
            return
        got = s.pop()
        post = list(s._items)
        V.check(member(got, A), 'set:pop-returns-a-member')
        V.check(sx.iff(member(y, post), sx.land(member(y, A), sx.lnot(eqv(y, got)))), 'set:pop-removes-exactly-that-member')
        V.check(len(post) == ka - 1 and ascending(post), 'set:pop-keeps-invariant')
        return
    if op == 'iter':
        V.check(ascending(list(iter(s))) and len(list(s)) == ka and len(s) == ka, 'set:iteration-ascending-and-complete')
        sc = util.sortedset(list(reversed(A)) + A[:1])            # built through add() from any order, with a duplicate
        V.check(len(sc) == ka and ascending(list(sc)) and sx.iff(member(y, list(sc)), member(y, A)), 'set:construction-sorts-and-dedups')
        return
    raise AssertionError(op)


def h_set_binary(V, kind='int', maxa=3, maxb=2, maxc=1, op='union', other='set'):
    ka, kb = V.choice('|A|', maxa + 1), V.choice('|B|', maxb + 1)
    s, A = mkset(V, 'a', ka, kind)
    t, B = mkset(V, 'b', kb, kind)
    if other == 'list':
        t = list(reversed(B)) + B[:1]                 # a plain iterable, unordered with a duplicate
    nc = V.choice('|C|', maxc + 1) if op in ('union2', 'intersection2', 'difference2') else 0
    u, C = mkset(V, 'c', nc, kind)
    y = elem(V, 'y', kind)
    inA, inB, inC = member(y, A), member(y, B), member(y, C)
    V.tag('shape', '%s/%d/%d/%d' % (op, ka, kb, nc))
    spec = None
    if op == 'union':
        r, spec = s.union(t), sx.lor(inA, inB)
    elif op == 'or':
        r, spec = s | t, sx.lor(inA, inB)
    elif op == 'intersection':
        r, spec = s.intersection(t), sx.land(inA, inB)
    elif op == 'and':
        r, spec = s & t, sx.land(inA, inB)
    elif op == 'difference':
        r, spec = s.difference(t), sx.land(inA, sx.lnot(inB))
    elif op == 'sub':
        r, spec = s - t, sx.land(inA, sx.lnot(inB))
    elif op == 'symmetric_difference':
        r, spec = s.symmetric_difference(t), sx.lnot(sx.iff(inA, inB))
    elif op == 'xor':
        r, spec = s ^ t, sx.lnot(sx.iff(inA, inB))
    elif op == 'union2':
        r, spec = s.union(t, u), sx.lor(inA, inB, inC)
    elif op == 'intersection2':
        r, spec = s.intersection(t, u), sx.land(inA, inB, inC)
    elif op == 'difference2':
        r, spec = s.difference(t, u), sx.land(inA, sx.lnot(inB), sx.lnot(inC))
    if spec is not None:
        R = list(r._items)
        V.check(ascending(R), 'set:%s-result-ascending' % op)
        V.check(sx.iff(member(y, R), spec), 'set:%s-is-the-mathematical-%s' % (op, op.rstrip('2')))
        V.check(sx.land(ascending(list(s._items)), sx.iff(member(y, list(s._items)), inA)), 'set:%s-leaves-receiver-unchanged' % op)
        return
    sub, sup = subset(A, B), subset(B, A)
    if op == 'compare':
        V.check(sx.iff(s == t, sx.land(sub, sup)), 'set:eq')
        V.check(sx.iff(s != t, sx.lnot(sx.land(sub, sup))), 'set:ne')
        V.check(sx.iff(s <= t, sub), 'set:le-is-subset')
        V.check(sx.iff(s >= t, sup), 'set:ge-is-superset')
        V.check(sx.iff(s < t, sx.land(sub, sx.lnot(sup))), 'set:lt-is-proper-subset')
        V.check(sx.iff(s > t, sx.land(sup, sx.lnot(sub))), 'set:gt-is-proper-superset')
    elif op == 'predicates':
        V.check(sx.iff(s.issubset(t), sub), 'set:issubset')
        V.check(sx.iff(s.issuperset(t), sup), 'set:issuperset')
        V.check(sx.iff(s.isdisjoint(t), sx.lnot(sx.lor(*[member(a, B) for a in A])) if A else True), 'set:isdisjoint')
    else:
        raise AssertionError(op)


def h_nested_sets(V):
    """a set whose elements are sets (set<frozen<set<int>>>): every inserted element must be found again"""
    n = V.choice('elements', 3) + 1
    elems = []
    for i in range(n):
        k = V.choice('size%d' % i, 3)
        vals = [V.int('e%d_%d' % (i, j), 0, 2) for j in range(k)]
        V.assume(ascending(vals))
        e = util.sortedset()
        e._items = list(vals)
        elems.append(e)
    s = util.sortedset()
    for e in elems:
        s.add(e)
    V.tag('n', n)
    V.tag('nested_kind', 'sortedset')
    for i, e in enumerate(elems):
        V.check(e in s, 'set:nested-set-element-found-after-add', note='element %d of %d' % (i, n))
    # no duplicates, a probe set is found exactly when it equals an inserted one, removal works
    def same(a, b):
        return len(a._items) == len(b._items) and (sx.land(*[x == y for x, y in zip(a._items, b._items)]) if a._items else True)
    distinct = []
    for e in elems:
        if not any(sx.conc_bool(same(e, d)) for d in distinct):
            distinct.append(e)
    V.check(len(s) == len(distinct), 'set:nested-sets-no-duplicates', note='%d stored, %d distinct' % (len(s), len(distinct)))
    k = V.choice('probe_size', 3)
    pv = [V.int('p%d' % j, 0, 2) for j in range(k)]
    V.assume(ascending(pv))
    probe = util.sortedset()
    probe._items = list(pv)
    V.check(sx.iff(probe in s, sx.lor(*[same(probe, d) for d in distinct])), 'set:nested-set-membership-is-equality-with-a-member')
    s.remove(elems[0])
    V.check(elems[0] not in s and len(s) == len(distinct) - 1 and all(d in s for d in distinct if not sx.conc_bool(same(d, elems[0]))),
            'set:nested-set-remove')


# ---- ordered map -----------------------------------------------------------------------------------
def _pickle_model(obj, *a, **k):
    if hooks.is_sym(obj) or (isinstance(obj, (tuple, list)) and hooks.any_sym(obj)):
        return ('pickle', obj)
    return NotImplemented


def _dict_model(*a, **k):
    if len(a) == 1 and not k and not isinstance(a[0], (dict, kit.SymDict)):
        return kit.SymDict(list(a[0])) if sx.symbolic_mode() else dict(a[0])
    return NotImplemented


hooks.register(pickle.dumps, _pickle_model)
hooks.register(dict, _dict_model)


def mkmap(V, k, flavour):
    if flavour == 'serialized':
        m = util.OrderedMapSerializedKey(ct.Int32Type, 4)
    else:
        m = util.OrderedMap()
    if sx.symbolic_mode():
        m._index = kit.SymDict()
    keys = [V.int('k%d' % i, -(1 << 31), (1 << 31) - 1) for i in range(k)]
    vals = [V.int('v%d' % i, -100, 100) for i in range(k)]
    for i in range(k):
        for j in range(i):
            V.assume(keys[i] != keys[j])
    for kk, vv in zip(keys, vals):
        m[kk] = vv
    return m, list(zip(keys, vals))


def map_invariant(m, model):
    """_items is the association list and _index maps each key's flat form to its position"""
    if len(m._items) != len(model) or len(m._index) != len(model):
        return False
    conds = []
    for i, ((k, v), (mk, mv)) in enumerate(zip(m._items, model)):
        conds += [k == mk, v == mv]
        try:
            conds.append(m._index[m._serialize_key(mk)] == i)
        except KeyError:
            return False
    return sx.land(*conds) if conds else True


def model_find(model, key):
    for i, (k, v) in enumerate(model):
        if sx.conc_bool(k == key):
            return i
    return -1


def h_map(V, flavour='serialized', maxk=3, ops=1):
    k = V.choice('entries', maxk + 1)
    m, model = mkmap(V, k, flavour)
    V.check(map_invariant(m, model), 'map:construction-establishes-invariant')
    trace = []
    for step in range(ops):
        op = V.pick('op%d' % step, ['set', 'get', 'del', 'popitem', 'iter'])
        trace.append(op)
        key = V.int('key%d' % step, -(1 << 31), (1 << 31) - 1)
        if op == 'set':
            val = V.int('val%d' % step, -100, 100)
            m[key] = val
            i = model_find(model, key)
            if i >= 0:
                model[i] = (model[i][0], val)          # overwrite keeps the original position
            else:
                model.append((key, val))
        elif op == 'get':
            i = model_find(model, key)
            try:
                got = m[key]
                V.check(i >= 0 and got == model[i][1], 'map:get-returns-the-value-last-set')
            except KeyError:
                V.check(i < 0, 'map:get-raises-keyerror-iff-absent')
            V.check(sx.iff(key in m, i >= 0) if not isinstance(key in m, bool) else (key in m) == (i >= 0), 'map:contains')
        elif op == 'del':
            i = model_find(model, key)
            try:
                del m[key]
                V.check(i >= 0, 'map:del-raises-keyerror-iff-absent')
                if i >= 0:
                    model.pop(i)
            except KeyError:
                V.check(i < 0, 'map:del-raises-keyerror-iff-absent')
        elif op == 'popitem':
            try:
                kv = m.popitem()
                V.check(bool(model) and sx.land(kv[0] == model[-1][0], kv[1] == model[-1][1]), 'map:popitem-returns-the-last-inserted')
                if model:
                    model.pop()
            except KeyError:
                V.check(not model, 'map:popitem-raises-keyerror-iff-empty')
        else:
            ks = list(m)
            V.check(len(ks) == len(model) and sx.land(*[a == b[0] for a, b in zip(ks, model)]) if model else ks == [], 'map:iteration-in-insertion-order')
            V.check(len(m) == len(model), 'map:len')
        V.check(map_invariant(m, model), 'map:invariant-after-%s' % op)
    V.tag('trace', '%d/%s' % (k, '/'.join(trace)))
    # every key of the model is still found at the right value
    for mk, mv in model:
        try:
            V.check(m[mk] == mv, 'map:every-entry-readable-after-operations')
        except KeyError:
            V.check(False, 'map:every-entry-readable-after-operations')


def jobs(tier):
    big = tier != 'quick'
    maxa, maxb, maxc = (4, 3, 2) if big else (3, 2, 1)
    J = []
    for kind in ('int', 'pair', 'list'):
        ma, mb = (maxa, maxb) if kind == 'int' else (maxa - 1, maxb)
        for op in ('contains', 'add', 'remove', 'pop', 'iter'):
            J.append(Job('set/%s/%s' % (kind, op), 'h_set_unary', dict(kind=kind, maxa=ma, op=op)))
        for op in ('union', 'or', 'intersection', 'and', 'difference', 'sub', 'symmetric_difference', 'xor',
                   'union2', 'intersection2', 'difference2', 'compare', 'predicates'):
            J.append(Job('set/%s/%s' % (kind, op), 'h_set_binary', dict(kind=kind, maxa=ma, maxb=mb, maxc=maxc, op=op)))
        for op in ('union', 'intersection', 'difference'):
            J.append(Job('set/%s/%s-with-list' % (kind, op), 'h_set_binary', dict(kind=kind, maxa=ma, maxb=mb, op=op, other='list')))
    J.append(Job('set/nested-sets', 'h_nested_sets', {}))
    for flavour in ('serialized', 'pickled'):
        J.append(Job('map/%s/1op' % flavour, 'h_map', dict(flavour=flavour, maxk=3, ops=1)))
        J.append(Job('map/%s/2ops' % flavour, 'h_map', dict(flavour=flavour, maxk=3 if big else 2, ops=2)))
    return J
