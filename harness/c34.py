"""C34 — date, time and time-UUID helpers convert consistently.

Time: the nanosecond count is symbolic over the whole day (and beyond it, for rejection); the real
Time.__init__/__str__/_from_timestring run on it and the string is read back.  Time-UUIDs: the
timestamp (whole seconds, or a datetime described by symbolic UTC fields and offset), the node and
the clock sequence are symbolic; uuid.UUID (pure Python) runs on the proxies; decoding and
Cassandra's ordering (timestamp, then the low 8 bytes compared as signed bytes) are stated
independently.  Date: the C-level datetime arithmetic is not symbolic, so the day is a
solver-enumerated choice (every day of a list of boundary years).
"""
import warnings
import datetime
import time as _time
import sx
from sx.run import Job
from sx import hooks
from sx.symstr import cps

warnings.simplefilter('ignore')
sx.instrument('cassandra.util', 'calendar')
from cassandra import util                    # noqa: E402

META = dict(
    level='model_checking',
    level_text='Time and time-UUID helpers: every path of the real code is explored with the nanosecond count / timestamp / node / clock sequence symbolic over their whole range and z3 proves the round trips and the ordering bounds; Date: every day of the listed years is enumerated (solver-forked choice) and compared with an independent civil-calendar algorithm',
    level_note='Date conversions go through C-level datetime, so the solver only enumerates days there (bounded-exhaustive over the listed years); float timestamps are outside (only whole seconds and datetimes); uuid.UUID is the standard library\'s pure-Python class running on proxies; z3 trusted',
    technique='symbolic execution (sx proxies over the real cassandra.util Time / uuid_from_time / min_/max_uuid_from_time / unix_time_from_uuid1 and the stdlib uuid.UUID) + z3 validity queries per path; Date by solver-enumerated days',
    bounds=dict(quick='Time: nanoseconds -2^40..2^47 (whole day 0..86399999999999 accepted); time-UUID: timestamps 0..2^33 s or datetimes of years {1970,2024} (quick: months 1,2,3,12), day in {1,28}, hour in {0,23}, minute in {0,59}, any second/microsecond/offset, node 48 bit, clock_seq 0..2^14+1; Date: every day of years 1, 999, 1000, 1969, 1970, 2024, 9999',
                thorough='Date: additionally years 2, 4, 100, 400, 1582, 1900, 2000, 2100, 9998'),
    assumptions=['Cassandra orders time-UUIDs by timestamp, then by the least significant 8 bytes compared as signed bytes (TimeUUIDType.compare)',
                 'exact-rational model of int*1e6 / int*10 float arithmetic (all values are integers < 2^53)'],
    stubs=['time.strptime(s, "%H:%M:%S") for a symbolic string: two-digit fields with range checks 0..23/0..59/0..61', 'datetime proxy as in C29 (UTC fields + offset)'],
    outside=['float timestamps', 'DateRange', 'datetime_from_uuid1 (C datetime arithmetic)'],
)


def encoded_functions():
    T = util.Time
    return [T.__init__, T._from_timestamp, T._from_timestring, T._from_time, T.__str__, T.hour.fget, T.minute.fget, T.second.fget,
            T.nanosecond.fget, T.__eq__, util.Date.__init__, util.Date.__str__, util.Date._from_datestring, util.Date._from_timetuple,
            util.Date.date, util.uuid_from_time, util.min_uuid_from_time, util.max_uuid_from_time, util.unix_time_from_uuid1]


DAY_NS = 86400 * 10 ** 9


class _ST(object):
    def __init__(self, h, m, s):
        self.tm_hour, self.tm_min, self.tm_sec = h, m, s


def _strptime_model(s, fmt):
    if not hooks.is_sym(s):
        return NotImplemented
    if fmt != "%H:%M:%S":
        raise sx.core.Inconclusive('time.strptime format %r' % fmt)
    c = cps(s)
    # %H, %M, %S accept one or two digits; the strings produced by Time.__str__ have two
    if len(c) != 8 or not bool((c[2] == 58) & (c[5] == 58)):
        raise ValueError('time data does not match format')
    for i in (0, 1, 3, 4, 6, 7):
        if not bool((c[i] >= 48) & (c[i] <= 57)):
            raise ValueError('time data does not match format')
    h, m, sec = [(c[i] - 48) * 10 + (c[i + 1] - 48) for i in (0, 3, 6)]
    if bool(h > 23) or bool(m > 59) or bool(sec > 61):
        raise ValueError('time data does not match format')
    return _ST(h, m, sec)


hooks.register(_time.strptime, _strptime_model)


def h_time(V):
    ns = V.int('ns', -(1 << 40), 1 << 47)
    try:
        t = util.Time(ns)
        ok = True
    except ValueError:
        ok = False
    V.check(sx.iff(ok, sx.land(ns >= 0, ns < DAY_NS)) if not isinstance(ok, bool) else ok == sx.conc_bool(sx.land(ns >= 0, ns < DAY_NS)), 'time:only-times-within-one-day-accepted')
    if not ok:
        return
    V.check(sx.land(t.hour >= 0, t.hour <= 23, t.minute >= 0, t.minute <= 59, t.second >= 0, t.second <= 59, t.nanosecond >= 0, t.nanosecond < 10 ** 9), 'time:fields-in-range')
    V.check(sx.eq(((t.hour * 60 + t.minute) * 60 + t.second) * 10 ** 9 + t.nanosecond, ns), 'time:fields-recompose-to-nanoseconds')
    s = t.__str__()
    c = cps(s)
    V.check(len(c) == 18, 'time:string-is-hh:mm:ss.nnnnnnnnn')
    back = util.Time(s)
    V.check(sx.eq(back.nanosecond_time, ns), 'time:string-round-trip')
    V.check(back == t, 'time:equality-after-round-trip')


def h_time_strings(V):
    """strings with fewer fractional digits are right-padded; out-of-range fields are rejected"""
    h, m, s = V.int('h', 0, 99), V.int('m', 0, 99), V.int('s', 0, 99)
    nd = V.choice('fraction_digits', 10)
    frac = V.int('frac', 0, 10 ** nd - 1) if nd else 0
    text = hooks.mod('%02d:%02d:%02d', (h, m, s))
    if nd:
        text = sx.symstr.mkstr(cps(text) + [46] + cps(hooks.mod('%0' + str(nd) + 'd', (frac,))))
    elif not isinstance(text, str):
        text = sx.symstr.mkstr(cps(text))
    try:
        t = util.Time(text)
        ok = True
    except ValueError:
        ok = False
    # strptime accepts second 60/61 (leap seconds): such a string is fine as long as the time stays within the day
    total = ((h * 60 + m) * 60 + s) * 10 ** 9 + frac * 10 ** (9 - nd)
    valid = sx.land(h <= 23, m <= 59, s <= 61, total < DAY_NS)
    if ok:
        V.check(sx.land(t.nanosecond_time >= 0, t.nanosecond_time < DAY_NS), 'time:parsed-string-within-one-day')
        V.check(sx.eq(t.nanosecond_time, total), 'time:string-value')
        V.check(valid, 'time:invalid-string-rejected')
    else:
        V.check(sx.lnot(valid), 'time:valid-string-accepted')


# ---- time uuids ------------------------------------------------------------------------------------
EPOCH_100NS = 0x01b21dd213814000


def signed_bytes_le(a, b):
    """lexicographic <= of two 8-byte strings compared as signed bytes (lists of byte items)"""
    r = True
    for x, y in reversed(list(zip(a, b))):
        sx_, sy = (x ^ 0x80), (y ^ 0x80)          # signed order == unsigned order after flipping the sign bit
        r = sx.lor(sx_ < sy, sx.land(sx_ == sy, r))
    return r


def lsb_bytes(u):
    v = u.int & ((1 << 64) - 1)
    return [(v >> (8 * (7 - i))) & 0xff for i in range(8)]


def h_uuid(V, source='seconds'):
    node = V.int('node', 0, (1 << 48) - 1)
    clock = V.int('clock_seq', 0, (1 << 14) + 1)
    if source == 'seconds':
        ts = V.int('timestamp_s', 0, 1 << 33)
        arg = ts
        want_100ns = ts * 10 ** 7
    else:
        from harness.c29 import SymDateTime, days_from_civil
        y = V.pick('year', [1970, 2024])
        mo = V.choice('month0', 12) + 1
        # day/hour/minute from boundary values (concrete per path), second/microsecond/offset symbolic: keeps the
        # instant linear in the symbolic fields (the general form did not finish in either solver mode)
        d = V.pick('day', [1, 28])
        h, mi = V.pick('hour', [0, 23]), V.pick('minute', [0, 59])
        s = V.int('second', 0, 59)
        us = V.int('microsecond', 0, 999999)
        aware = V.flag('tz_aware')
        off = V.int('utc_offset_minutes', -1439, 1439) if aware else 0
        if sx.symbolic_mode():
            arg = _DT(y, mo, d, h, mi, s, us, off)
        else:
            tz = datetime.timezone(datetime.timedelta(minutes=off)) if aware else None
            utc = datetime.datetime(y, mo, d, h, mi, s, us)
            arg = (utc + datetime.timedelta(minutes=off)).replace(tzinfo=tz) if aware else utc
        secs = ((days_from_civil(y, mo, d) * 24 + h) * 60 + mi) * 60 + s
        want_100ns = (secs * 10 ** 6 + us) * 10
    try:
        u = util.uuid_from_time(arg, node, clock)
    except ValueError:
        V.check(clock > 0x3fff, 'timeuuid:clock-seq-range-error-only-when-out-of-range')
        return
    V.check(clock <= 0x3fff, 'timeuuid:out-of-range-clock-seq-rejected')
    V.check(sx.eq(u.time, want_100ns + EPOCH_100NS), 'timeuuid:encodes-the-instant')
    V.check(sx.land(sx.eq(u.node, node), sx.eq(u.clock_seq, clock)), 'timeuuid:keeps-node-and-clock-seq')
    V.check(sx.eq(u.version, 1), 'timeuuid:is-version-1')
    dec = util.unix_time_from_uuid1(u)
    if isinstance(dec, float):
        V.check(abs(dec * 10 ** 7 - want_100ns) < 10, 'timeuuid:decodes-back-to-the-instant')
    else:
        # exact rational (u.time - epoch) / 10^7: the numerator is the instant in 100 ns units
        V.check(dec.den == 10 ** 7 and sx.eq(dec.num, want_100ns), 'timeuuid:decodes-back-to-the-instant')
    lo, hi = util.min_uuid_from_time(arg), util.max_uuid_from_time(arg)
    V.check(sx.land(sx.eq(lo.time, u.time), sx.eq(hi.time, u.time)), 'timeuuid:min-max-carry-the-same-instant')
    V.check(signed_bytes_le(lsb_bytes(lo), lsb_bytes(u)), 'timeuuid:min-bounds-every-uuid-of-the-instant')
    V.check(signed_bytes_le(lsb_bytes(u), lsb_bytes(hi)), 'timeuuid:max-bounds-every-uuid-of-the-instant')


class _T(object):
    def __init__(self, us):
        self.microsecond = us


class _DT(object):
    __sx_pytype__ = datetime.datetime

    def __init__(self, y, mo, d, h, mi, s, us, off):
        self.f = (y, mo, d, h, mi, s)
        self.us = us
        self.off = off

    def utctimetuple(self):
        return self.f + (0, 0, 0)

    def timetuple(self):
        y, mo, d, h, mi, s = self.f
        return (y, mo, d, h, mi, s + self.off * 60, 0, 0, -1)

    def time(self):
        return _T(self.us)

    microsecond = property(lambda self: self.us)


# ---- dates --------------------------------------------------------------------------------------------
def civil_from_days(z):
    z += 719468
    era = (z if z >= 0 else z - 146096) // 146097
    doe = z - era * 146097
    yoe = (doe - doe // 1460 + doe // 36524 - doe // 146096) // 365
    y = yoe + era * 400
    doy = doe - (365 * yoe + yoe // 4 - yoe // 100)
    mp = (5 * doy + 2) // 153
    d = doy - (153 * mp + 2) // 5 + 1
    m = mp + 3 if mp < 10 else mp - 9
    return (y + (1 if m <= 2 else 0), m, d)


def days_of_year_start(y):
    from harness.c29 import days_from_civil
    return days_from_civil(y, 1, 1)


def h_date(V, years=(1970,)):
    y = V.pick('year', list(years))
    leap = (y % 4 == 0 and (y % 100 != 0 or y % 400 == 0))
    doy = V.choice('day_of_year', 366 if leap else 365)
    days = days_of_year_start(y) + doy
    cy, cm, cd = civil_from_days(days)
    V.tag('date', '%04d-%02d-%02d' % (cy, cm, cd))
    d = util.Date(days)
    text = str(d)
    V.check(text == '%04d-%02d-%02d' % (cy, cm, cd), 'date:string-is-yyyy-mm-dd', note='%d -> %r' % (days, text))
    try:
        back = util.Date(text).days_from_epoch
    except ValueError as e:
        back = repr(e)
    V.check(back == days, 'date:string-round-trip', note='%r -> %r' % (text, back))
    V.check(util.Date(datetime.date(cy, cm, cd)).days_from_epoch == days, 'date:from-datetime-date')
    V.check(d.date() == datetime.date(cy, cm, cd), 'date:to-datetime-date')
    V.check(d == datetime.date(cy, cm, cd) and d == days and d == util.Date(days) and d.seconds == days * 86400, 'date:equalities')
    V.check(util.Date('+' + text).days_from_epoch == days, 'date:leading-plus-accepted')


def jobs(tier):
    J = [Job('time/nanoseconds', 'h_time', {}, dict(arith='int')),
         Job('time/strings', 'h_time_strings', {}, dict(arith='int')),
         Job('timeuuid/seconds', 'h_uuid', dict(source='seconds')),
         ]
    for yi, y in enumerate((1970, 2024)):
        for mo in ((0, 1, 2, 11) if tier == 'quick' else range(12)):
            J.append(Job('timeuuid/datetime/%d-%02d' % (y, mo + 1), 'h_uuid', dict(source='datetime'), dict(pin={'year': yi, 'month0': mo})))
    years = [1, 999, 1000, 1969, 1970, 2024, 9999]
    if tier != 'quick':
        years += [2, 4, 100, 400, 1582, 1900, 2000, 2100, 9998]
    for y in years:
        J.append(Job('date/%d' % y, 'h_date', dict(years=(y,)), dict(conc_cap=400)))
    return J
