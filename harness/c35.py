"""C35 — cqlengine persists exactly the model state.

The real cqlengine Model / DMLQuery / ModelQuerySet code runs a solver-chosen sequence of operations
(create, attribute changes + save, instance update, queryset update with collection operations,
nulling, delete) with symbolic column values.  Every statement it hands to the connection (CQL text
with placeholders + parameter dict) is executed by a small CQL DML interpreter written here from
Cassandra's documented semantics (INSERT / UPDATE ... SET with list prepend/append, set add/remove,
map put, counter increments / DELETE of columns, map entries and rows; null and empty collections
are the same; UPDATE upserts).  After every operation the stored row must equal the instance's
current values (for queryset updates: the documented effect of the operation on the stored row).
"""
import re
import types
import warnings
import sx
from sx.run import Job

warnings.simplefilter('ignore')
sx.instrument('cassandra.cqlengine.statements', 'cassandra.cqlengine.query', 'cassandra.cqlengine.functions', 'cassandra.cqlengine.operators',
              'cassandra.cqlengine.columns', 'cassandra.cqlengine.models', 'cassandra.cqltypes', 'cassandra.marshal', 'cassandra.query')
from harness import kit                       # noqa: E402
kit.install_reactor()
from cassandra.cqlengine import query as cq         # noqa: E402
from cassandra.cqlengine import columns as cols     # noqa: E402
from cassandra.cqlengine import statements as st    # noqa: E402
from cassandra.cqlengine.models import Model        # noqa: E402

META = dict(
    level='model_checking',
    level_text='every operation sequence within the bound (solver-forked choice of operations and of which fields they touch) runs through the real cqlengine code with symbolic column values; each emitted statement is executed by an independent interpreter of Cassandra\'s DML semantics and z3 proves per path that the stored row equals the model state for every value',
    level_note='one model (int key; int, text, list<int>, set<int>, map<int,int> columns), one counter model, one model with a clustering key and a static column; sequences of at most 3 operations; set elements and map keys from a small range (they are hashed), other values symbolic; the interpreter covers exactly the statement forms cqlengine emits and is hand-written from the CQL documentation; conditional (IF) statements and TTL/timestamps are outside',
    technique='symbolic execution (sx proxies over the real cassandra.cqlengine Model/DMLQuery/ModelQuerySet/statement classes) of solver-enumerated operation sequences + an independent CQL DML interpreter as oracle + z3 validity queries per path',
    bounds=dict(quick='<= 3 operations from {create, change+save, update(**kw), queryset update (assign / None / list append, prepend / set add, remove / map update), delete}; lists of <= 2 symbolic ints, sets and map keys over 0..3, values 32-bit symbolic',
                thorough='<= 4 operations'),
    assumptions=['Cassandra semantics as implemented by the interpreter in this file: null == empty collection; UPDATE upserts; list + prepends/appends in the order given; set +/-; map + puts; DELETE of columns / map entries / the row'],
    stubs=['cassandra.cqlengine.connection.execute / get_cluster: the interpreter / a recorder'],
    outside=['conditional statements (IF / IF EXISTS / IF NOT EXISTS)', 'TTL and timestamps',  'UDT and tuple columns'],
)


def encoded_functions():
    D = cq.DMLQuery
    return [D.save, D.update, D.delete, D._delete_null_columns, cq.ModelQuerySet.update, st.UpdateStatement.add_update,
            st.SetUpdateClause._analyze, st.ListUpdateClause._analyze, st.MapUpdateClause._analyze, st.MapDeleteClause._analyze,
            st.CounterUpdateClause.update_context, Model.save, Model.update, Model.delete]


class Doc(Model):
    __keyspace__ = 'ks'
    __table_name__ = 'doc'
    id = cols.Integer(primary_key=True)
    a = cols.Integer()
    t = cols.Text()
    l = cols.List(cols.Integer)
    s = cols.Set(cols.Integer)
    m = cols.Map(cols.Integer, cols.Integer)


class Cnt(Model):
    __keyspace__ = 'ks'
    __table_name__ = 'cnt'
    id = cols.Integer(primary_key=True)
    n = cols.Counter()


PH = r'%\((\d+)\)s'


def plain(v):
    """strip cqlengine's literal quoting wrappers"""
    while isinstance(v, st.ValueQuoter):
        v = v.value
    return v


def is_null(v):
    return v is None or (isinstance(v, (list, set, frozenset, dict, tuple)) and len(v) == 0)


class Store(object):
    """rows of one table: {pk: {column: value}}; only equality on the integer key `id`"""

    def __init__(self, V):
        self.V = V
        self.rows = []          # [(key, {col: value})]
        self.log = []

    def _find(self, key, create=False):
        for k, r in self.rows:
            if sx.conc_bool(k == key):
                return r
        if create:
            r = {}
            self.rows.append((key, r))
            return r
        return None

    def _drop(self, key):
        self.rows = [(k, r) for k, r in self.rows if not sx.conc_bool(k == key)]

    def execute(self, cql, params):
        if cql.startswith('BEGIN '):
            lines = cql.split('\n')
            assert lines[-1] == 'APPLY BATCH;' and lines[0].rstrip().endswith('BATCH'), cql
            for line in lines[1:-1]:
                self.execute(line.strip(), params)
            return
        self.log.append(cql)
        params = dict((k, plain(v)) for k, v in params.items())
        P = lambda i: params[i]
        m = re.fullmatch(r'INSERT INTO (\S+) \((.*?)\) VALUES \((.*)\)', cql)
        if m:
            colnames = [c.strip('"') for c in m.group(2).split(', ')]
            vals = [P(re.fullmatch(PH, x).group(1)) for x in m.group(3).split(', ')]
            d = dict(zip(colnames, vals))
            row = self._find(d['id'], create=True)
            for c, v in d.items():
                if c != 'id':
                    row[c] = None if is_null(v) else v
            return
        m = re.fullmatch(r'UPDATE (\S+) SET (.*?) WHERE "id" = %s' % PH, cql)
        if m:
            row = self._find(P(m.group(3)), create=True)
            for frag in m.group(2).split(', '):
                self._assign(row, frag, P)
            return
        m = re.fullmatch(r'DELETE(.*?) FROM (\S+) WHERE "id" = %s' % PH, cql)
        if m:
            key = P(m.group(3))
            what = m.group(1).strip()
            if not what:
                self._drop(key)
                return
            row = self._find(key)
            if row is None:
                return
            for frag in what.split(', '):
                mm = re.fullmatch(r'"(\w+)"\[%s\]' % PH, frag)
                if mm:
                    cur = row.get(mm.group(1))
                    if cur:
                        k = P(mm.group(2))
                        cur = dict((kk, vv) for kk, vv in cur.items() if not sx.conc_bool(kk == k))
                        row[mm.group(1)] = cur or None
                else:
                    row[frag.strip('"')] = None
            return
        raise AssertionError('statement form not covered by the interpreter: %s' % cql)

    def _assign(self, row, frag, P):
        m = re.fullmatch(r'"(\w+)" = %s' % PH, frag)
        if m:
            v = P(m.group(2))
            row[m.group(1)] = None if is_null(v) else v
            return
        m = re.fullmatch(r'"(\w+)" = %s \+ "\1"' % PH, frag)
        if m:                                   # list prepend
            row[m.group(1)] = (list(P(m.group(2))) + list(row.get(m.group(1)) or [])) or None
            return
        m = re.fullmatch(r'"(\w+)" = "\1" \+ %s' % PH, frag)
        if m:
            c, v = m.group(1), P(m.group(2))
            cur = row.get(c)
            if isinstance(v, dict):
                nd = dict(cur or {})
                for k, val in v.items():
                    nd = dict((kk, vv) for kk, vv in nd.items() if not sx.conc_bool(kk == k))
                    nd[k] = val
                row[c] = nd or None
            elif isinstance(v, (set, frozenset)):
                row[c] = (set(cur or ()) | set(v)) or None
            elif isinstance(v, (list, tuple)):
                row[c] = (list(cur or []) + list(v)) or None
            else:                               # counter
                row[c] = (cur or 0) + v
            return
        m = re.fullmatch(r'"(\w+)" = "\1" - %s' % PH, frag)
        if m:
            c, v = m.group(1), P(m.group(2))
            cur = row.get(c)
            if isinstance(v, (set, frozenset)):
                row[c] = (set(cur or ()) - set(v)) or None
            elif isinstance(v, (list, tuple)):
                row[c] = [x for x in (cur or []) if not any(sx.conc_bool(x == y) for y in v)] or None
            else:
                row[c] = (cur or 0) - v
            return
        m = re.fullmatch(r'"(\w+)"\[%s\] = %s' % (PH, PH), frag)
        if m:
            c, k, v = m.group(1), P(m.group(2)), P(m.group(3))
            nd = dict((kk, vv) for kk, vv in (row.get(c) or {}).items() if not sx.conc_bool(kk == k))
            nd[k] = v
            row[c] = nd
            return
        raise AssertionError('assignment form not covered by the interpreter: %s' % frag)


def veq(a, b):
    a, b = (None if is_null(a) else a), (None if is_null(b) else b)
    if a is None or b is None:
        return a is None and b is None
    if isinstance(a, (list, tuple)) or isinstance(b, (list, tuple)):
        return isinstance(a, (list, tuple)) and isinstance(b, (list, tuple)) and len(a) == len(b) and sx.land(*[veq(x, y) for x, y in zip(a, b)])
    if isinstance(a, (set, frozenset)) or isinstance(b, (set, frozenset)):
        return set(a) == set(b)
    if isinstance(a, dict) or isinstance(b, dict):
        if not (isinstance(a, dict) and isinstance(b, dict)) or set(a) != set(b):
            return False
        return sx.land(*[veq(a[k], b[k]) for k in a]) if a else True
    if hasattr(a, 'c') or isinstance(a, str) or hasattr(b, 'c') or isinstance(b, str):
        from sx.symstr import cps
        from sx.symseq import seq_eq
        return len(a) == len(b) and (seq_eq(cps(a), cps(b)) if len(a) else True)
    return sx.eq(a, b)


FIELDS = ['a', 't', 'l', 's', 'm']


def install(store):
    saved = (cq.conn.execute, cq.conn.get_cluster)
    cq.conn.execute = lambda stmt, params, *a, **k: store.execute(stmt if isinstance(stmt, str) else stmt.query_string, params) or []
    cq.conn.get_cluster = lambda connection=None: types.SimpleNamespace(protocol_version=4)
    return saved


def row_matches(V, store, key, expected, label, trace):
    row = store._find(key)
    if expected is None:
        V.check(row is None or all(v is None for v in row.values()), label + ':row-gone', note=trace)
        return
    if not V.check(row is not None, label + ':row-exists', note=trace):
        return
    for f in FIELDS:
        V.check(veq(row.get(f), expected.get(f)), label + ':column-%s-equals-the-model-value' % f,
                note='%s: stored %r, model %r' % (trace, _show(row.get(f)), _show(expected.get(f))))


def _show(v):
    return '<null>' if is_null(v) else type(v).__name__


def inst_values(inst):
    return dict((f, getattr(inst, f)) for f in FIELDS)


def fresh(V, name):
    return V.int(name, -(1 << 31), (1 << 31) - 1)


def small(V, name):
    return sx.conc(V.int(name, 0, 3))


def h_instance(V, steps=3):
    store = Store(V)
    saved = install(store)
    try:
        K = V.int('key', 0, 1000)
        kw = dict(id=K)
        if V.flag('create_a'):
            kw['a'] = fresh(V, 'a0')
        if V.flag('create_l'):
            kw['l'] = [fresh(V, 'l0'), fresh(V, 'l1')][:V.choice('create_l_len', 2) + 1]
        if V.flag('create_s'):
            kw['s'] = {1, 2}
        if V.flag('create_m'):
            kw['m'] = {1: fresh(V, 'm1')}
        inst = Doc.create(**kw)
        trace = ['create(%s)' % ','.join(sorted(k for k in kw if k != 'id'))]
        row_matches(V, store, K, inst_values(inst), 'create', ' / '.join(trace))
        alive = True
        for step in range(steps - 1):
            if not alive:
                break
            op = V.pick('op%d' % step, ['a=new', 'a=None', 'l.append', 'l.prepend', 'l=shorter', 'l=None', 's.add', 's.remove', 's=None',
                                        'm.put', 'm.del', 'm=None', 'update(a,l)', 'delete', 'l.prepend+append'])
            n = 'v%d' % step
            via_update = False
            if op == 'a=new':
                inst.a = fresh(V, n)
            elif op == 'a=None':
                inst.a = None
            elif op == 'l.append':
                inst.l = list(inst.l or []) + [fresh(V, n)]
            elif op == 'l.prepend':
                inst.l = [fresh(V, n)] + list(inst.l or [])
            elif op == 'l.prepend+append':
                inst.l = [fresh(V, n)] + list(inst.l or []) + [fresh(V, n + 'z')]
            elif op == 'l=shorter':
                inst.l = list(inst.l or [])[:-1]
            elif op == 'l=None':
                inst.l = None
            elif op == 's.add':
                inst.s = set(inst.s or ()) | {small(V, n)}
            elif op == 's.remove':
                inst.s = set(inst.s or ()) - {small(V, n)}
            elif op == 's=None':
                inst.s = None
            elif op == 'm.put':
                d = dict(inst.m or {})
                d[small(V, n + 'k')] = fresh(V, n)
                inst.m = d
            elif op == 'm.del':
                d = dict(inst.m or {})
                d.pop(small(V, n + 'k'), None)
                inst.m = d
            elif op == 'm=None':
                inst.m = None
            elif op == 'update(a,l)':
                via_update = True
                inst.update(a=fresh(V, n), l=[fresh(V, n + 'l')])
            else:
                inst.delete()
                alive = False
            trace.append(op)
            if alive and not via_update:
                inst.save()
            row_matches(V, store, K, inst_values(inst) if alive else None, 'instance', ' / '.join(trace))
        V.tag('trace', ' / '.join(trace))
    finally:
        cq.conn.execute, cq.conn.get_cluster = saved


def h_queryset(V):
    store = Store(V)
    saved = install(store)
    try:
        K = V.int('key', 0, 1000)
        base = dict(a=fresh(V, 'a0'), l=[fresh(V, 'l0')], s={1, 2}, m={1: fresh(V, 'm1')})
        present = dict((f, v) for f, v in base.items() if V.flag('has_' + f))
        Doc.create(id=K, **present)
        expected = dict((f, present.get(f)) for f in FIELDS)
        op = V.pick('op', ['a=new', 'a=None', 'l__append', 'l__prepend', 'l__append-empty', 'l=None', 's__add', 's__remove', 's__add-empty',
                           's__remove-empty', 'm__update', 'l__append+l__prepend'])
        kw = {}
        if op == 'a=new':
            x = fresh(V, 'x')
            kw['a'] = x
            expected['a'] = x
        elif op == 'a=None':
            kw['a'] = None
            expected['a'] = None
        elif op == 'l__append':
            x = fresh(V, 'x')
            kw['l__append'] = [x]
            expected['l'] = list(expected['l'] or []) + [x]
        elif op == 'l__prepend':
            x = fresh(V, 'x')
            kw['l__prepend'] = [x]
            expected['l'] = [x] + list(expected['l'] or [])
        elif op == 'l__append-empty':
            kw['l__append'] = []
        elif op == 'l=None':
            kw['l'] = None
            expected['l'] = None
        elif op == 's__add':
            x = small(V, 'x')
            kw['s__add'] = {x}
            expected['s'] = set(expected['s'] or ()) | {x}
        elif op == 's__remove':
            x = small(V, 'x')
            kw['s__remove'] = {x}
            expected['s'] = (set(expected['s'] or ()) - {x}) or None
        elif op == 's__add-empty':
            kw['s__add'] = set()
        elif op == 's__remove-empty':
            kw['s__remove'] = set()
        elif op == 'm__update':
            k, x = small(V, 'k'), fresh(V, 'x')
            kw['m__update'] = {k: x}
            d = dict(expected['m'] or {})
            d[k] = x
            expected['m'] = d
        else:
            x, y = fresh(V, 'x'), fresh(V, 'y')
            kw['l__append'] = [x]
            kw['l__prepend'] = [y]
            expected['l'] = [y] + list(expected['l'] or []) + [x]
        Doc.objects(id=K).update(**kw)
        V.tag('op', op)
        row_matches(V, store, K, expected, 'queryset-update', '%s on %s' % (op, sorted(present)))
    finally:
        cq.conn.execute, cq.conn.get_cluster = saved


def h_counter(V):
    store = Store(V)
    saved = install(store)
    try:
        K = V.int('key', 0, 1000)
        d1, d2 = V.int('d1', -100, 100), V.int('d2', -100, 100)
        c = Cnt(id=K)
        c.n += d1
        c.save()
        row = store._find(K)
        V.check(row is not None and sx.eq(row.get('n') or 0, d1), 'counter:first-increment', note=repr(store.log))
        c.n += d2
        c.update()
        row = store._find(K)
        V.check(row is not None and sx.eq(row.get('n') or 0, d1 + d2), 'counter:second-increment-adds-the-difference', note=repr(store.log))
    finally:
        cq.conn.execute, cq.conn.get_cluster = saved


class Part(Model):
    __keyspace__ = 'ks'
    __table_name__ = 'part'
    pk = cols.Integer(partition_key=True)
    ck = cols.Integer(primary_key=True)
    st = cols.Integer(static=True)
    v = cols.Integer()


class PStore(object):
    """a table with partition key pk, clustering key ck, static column st and regular column v"""

    def __init__(self):
        self.parts = []       # [(pk, {'st': value, 'rows': [(ck, {'v': value})]})]
        self.log = []

    def part(self, pk, create=False):
        for k, p in self.parts:
            if sx.conc_bool(k == pk):
                return p
        if create:
            p = {'st': None, 'rows': []}
            self.parts.append((pk, p))
            return p
        return None

    def row(self, p, ck, create=False):
        for k, r in p['rows']:
            if sx.conc_bool(k == ck):
                return r
        if create:
            r = {'v': None}
            p['rows'].append((ck, r))
            return r
        return None

    def execute(self, cql, params):
        self.log.append(cql)
        params = dict((k, plain(v)) for k, v in params.items())
        P = lambda i: params[i]

        def where(text):
            d = {}
            for cond in text.split(' AND '):
                m = re.fullmatch(r'"(\w+)" = %s' % PH, cond)
                assert m, 'WHERE form not covered: %s' % cond
                d[m.group(1)] = P(m.group(2))
            return d
        m = re.fullmatch(r'INSERT INTO (\S+) \((.*?)\) VALUES \((.*)\)', cql)
        if m:
            names = [c.strip('"') for c in m.group(2).split(', ')]
            vals = [P(re.fullmatch(PH, x).group(1)) for x in m.group(3).split(', ')]
            d = dict(zip(names, vals))
            p = self.part(d['pk'], create=True)
            if 'st' in d:
                p['st'] = d['st']
            if 'ck' in d:
                r = self.row(p, d['ck'], create=True)
                if 'v' in d:
                    r['v'] = d['v']
            else:
                assert 'v' not in d, 'regular column without its clustering key: %s' % cql
            return
        m = re.fullmatch(r'UPDATE (\S+) SET (.*?) WHERE (.*)', cql)
        if m:
            w = where(m.group(3))
            p = self.part(w['pk'], create=True)
            for frag in m.group(2).split(', '):
                mm = re.fullmatch(r'"(\w+)" = %s' % PH, frag)
                assert mm, 'assignment form not covered: %s' % frag
                if mm.group(1) == 'st':
                    p['st'] = P(mm.group(2))
                else:
                    assert 'ck' in w, 'regular column updated without its clustering key: %s' % cql
                    self.row(p, w['ck'], create=True)[mm.group(1)] = P(mm.group(2))
            return
        m = re.fullmatch(r'DELETE(.*?) FROM (\S+) WHERE (.*)', cql)
        if m:
            w = where(m.group(3))
            p = self.part(w['pk'])
            if p is None:
                return
            what = [x.strip('"') for x in m.group(1).strip().split(', ')] if m.group(1).strip() else []
            if not what:
                if 'ck' in w:
                    p['rows'] = [(k, r) for k, r in p['rows'] if not sx.conc_bool(k == w['ck'])]
                else:
                    p['rows'] = []
                    p['st'] = None
                return
            # Cassandra: "Invalid restrictions on clustering columns since the DELETE statement modifies only static columns"
            assert not (set(what) <= {'st'} and 'ck' in w), 'Cassandra rejects a static-only DELETE restricted by a clustering key: %s' % cql
            for c in what:
                if c == 'st':
                    p['st'] = None
                else:
                    assert 'ck' in w, 'regular column deleted without its clustering key: %s' % cql
                    r = self.row(p, w['ck'])
                    if r is not None:
                        r[c] = None
            return
        raise AssertionError('statement form not covered by the interpreter: %s' % cql)


def h_static(V):
    """a table with a clustering key and a static column: two rows of one partition share the static value"""
    store = PStore()
    saved = (cq.conn.execute, cq.conn.get_cluster)
    cq.conn.execute = lambda stmt, params, *a, **k: store.execute(stmt if isinstance(stmt, str) else stmt.query_string, params) or []
    cq.conn.get_cluster = lambda connection=None: types.SimpleNamespace(protocol_version=4)
    try:
        PK = V.int('pk', 0, 1000)
        c1, c2 = V.int('ck1', 0, 10), V.int('ck2', 11, 20)
        s0, v1, v2, x = fresh(V, 's0'), fresh(V, 'v1'), fresh(V, 'v2'), fresh(V, 'x')
        r1 = Part.create(pk=PK, ck=c1, st=s0, v=v1)
        r2 = Part.create(pk=PK, ck=c2, v=v2)
        exp = {'st': s0, 'v1': v1, 'v2': v2}
        op = V.pick('op', ['st=new via row1', 'st=None via row1', 'v=new on row2', 'v=None on row2', 'static-only instance', 'delete row1', 'update(st) on row2'])
        if op == 'st=new via row1':
            r1.st = x
            r1.save()
            exp['st'] = x
        elif op == 'st=None via row1':
            r1.st = None
            r1.save()
            exp['st'] = None
        elif op == 'v=new on row2':
            r2.v = x
            r2.save()
            exp['v2'] = x
        elif op == 'v=None on row2':
            r2.v = None
            r2.save()
            exp['v2'] = None
        elif op == 'static-only instance':
            Part.create(pk=PK, st=x)           # no clustering key: only the static column is written
            exp['st'] = x
        elif op == 'delete row1':
            r1.delete()
            exp['v1'] = 'gone'
        else:
            r2.update(st=x)
            exp['st'] = x
        V.tag('op', op)
        p = store.part(PK)
        V.check(p is not None, 'static:partition-exists')
        V.check(veq(p['st'], exp['st']), 'static:static-column-equals-the-model-value', note='%s: %r' % (op, store.log[-2:]))
        for ck, key in ((c1, 'v1'), (c2, 'v2')):
            r = store.row(p, ck)
            if exp[key] == 'gone':
                V.check(r is None, 'static:deleted-row-gone', note=op)
            else:
                V.check(r is not None and veq(r.get('v'), exp[key]), 'static:regular-column-of-each-row-equals-its-model-value', note='%s: %r' % (op, store.log[-2:]))
    finally:
        cq.conn.execute, cq.conn.get_cluster = saved


def h_batch(V):
    """several model operations collected in one BatchQuery and sent as one BEGIN BATCH ... APPLY BATCH statement"""
    store = Store(V)
    saved = install(store)
    try:
        K1, K2 = V.int('key1', 0, 1000), V.int('key2', 1001, 2000)
        a1, a2, x = fresh(V, 'a1'), fresh(V, 'a2'), fresh(V, 'x')
        inst2 = Doc.create(id=K2, a=a2, l=[fresh(V, 'l0')])
        second = V.pick('second_op', ['update-a', 'append', 'delete', 'null-a'])
        b = cq.BatchQuery()
        inst1 = Doc.batch(b).create(id=K1, a=a1, s={1})
        if second == 'update-a':
            inst2.batch(b).update(a=x)
        elif second == 'append':
            inst2.l = list(inst2.l) + [x]
            inst2.batch(b).save()
        elif second == 'null-a':
            inst2.a = None
            inst2.batch(b).save()
        else:
            inst2.batch(b).delete()
        V.check(store._find(K1) is None, 'batch:nothing-sent-before-execute')
        b.execute()
        V.tag('second', second)
        row_matches(V, store, K1, inst_values(inst1), 'batch-create', 'create in batch')
        row_matches(V, store, K2, None if second == 'delete' else inst_values(inst2), 'batch-second', second)
    finally:
        cq.conn.execute, cq.conn.get_cluster = saved


def jobs(tier):
    steps = 3 if tier == 'quick' else 4
    J = []
    for i in range(15):
        J.append(Job('instance/op%d' % i, 'h_instance', dict(steps=steps), dict(pin={'op0': i}, max_paths=300000)))
    for i in range(12):
        J.append(Job('queryset/op%d' % i, 'h_queryset', {}, dict(pin={'op': i})))
    J.append(Job('counter', 'h_counter', {}))
    J.append(Job('batch', 'h_batch', {}))
    J.append(Job('static', 'h_static', {}))
    return J
