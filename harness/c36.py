"""C36 — cqlengine column values are stored as the core driver would store them.

cqlengine sends column values as CQL literals: Column.to_database(value) goes into the statement
context and is rendered by the core Encoder.  For every column kind the real to_database and the real
Encoder run on a symbolic value; the literal is read back with C29's independent CQL term parser and
must denote the same CQL value as the bytes the core prepared-statement path
(cqltypes.<Type>.serialize) produces for the same Python value.  DateTime gets a datetime stand-in
described by symbolic UTC fields and UTC offset that supports exactly what DateTime.to_database and
DateType.serialize use (tzinfo.utcoffset, subtraction from the epoch, total_seconds with the real
timedelta normalisation of days/seconds/microseconds, utctimetuple, microsecond).
"""
import datetime
import warnings
import sx
from sx.run import Job
from sx import hooks

warnings.simplefilter('ignore')
sx.instrument('cassandra.cqlengine.columns', 'cassandra.cqlengine.functions', 'calendar')
from harness import c29                       # noqa: E402  (instruments encoder / cqltypes / util / marshal; term parser)
from harness.c29 import parse_one, int_of, days_from_civil   # noqa: E402
from cassandra.cqlengine import columns as cols   # noqa: E402
from cassandra import cqltypes as ct          # noqa: E402
from cassandra import util                    # noqa: E402

META = dict(
    level='model_checking',
    level_text='every path of the real Column.to_database + Encoder code is explored with the column value symbolic (integers of each width, text, blobs, day numbers, nanoseconds of day, datetimes by UTC fields and offset, collections of integers); z3 proves per path that the literal cqlengine sends denotes the value the core serializer encodes',
    level_note='datetime is a stand-in honouring the documented datetime/timedelta arithmetic (aware minus aware = difference of instants; timedelta normalised with 0 <= seconds < 86400); year and month are fixed per path; floats, decimals and uuids are drawn from boundary lists; z3 trusted',
    technique='symbolic execution (sx proxies over the real cassandra.cqlengine.columns to_database implementations, the core Encoder and cqltypes serializers) + z3 validity queries per path; literal read back by the independent CQL term parser of C29',
    bounds=dict(quick='Integer/BigInt/SmallInt/TinyInt/VarInt/Counter full range; Text 0..2 chars; Blob 0..2 bytes; Boolean; Date days 0..2^32-1 (as util.Date); Time 0..86399999999999 ns; DateTime years {1969, 1970, 2024} x months {1, 2, 12}, day 1..28, any time/microsecond, naive or aware with offset -1439..1439 min; List/Set/Map of <= 2 ints; Float/Double/Decimal/UUID from boundary lists',
                thorough='DateTime: all 12 months, years {1, 1969, 1970, 2024, 9999}'),
    assumptions=['exact-rational model of total_seconds()*1000 and timestamp*1e3 + us/1e3 (exact below 2^43 ms)'],
    stubs=['datetime stand-in (see docstring)'],
    outside=['Tuple / Duration columns, nested UDTs', 'truncate_microseconds on the read path', 'float text formatting beyond the boundary list'],
)


def encoded_functions():
    return [cols.DateTime.to_database, cols.Date.to_database, cols.Time.to_database, cols.Integer.to_database, cols.Text.to_database,
            cols.Blob.to_database, cols.Boolean.to_database, cols.BaseCollectionColumn.to_database if hasattr(cols, 'BaseCollectionColumn') else cols.List.to_database,
            cols.List.to_database, cols.Set.to_database, cols.Map.to_database, cols.UUID.to_database, cols.Decimal.to_database]


E = c29.E


def be(v, n):
    return [(v >> (8 * (n - 1 - i))) & 0xff for i in range(n)]

US_DAY = 86400 * 10 ** 6


class TD(object):
    """timedelta by its total microseconds (normalised like datetime.timedelta)"""
    __sx_pytype__ = datetime.timedelta

    def __init__(self, us):
        self.us = us

    def total_seconds(self):
        from sx.symfloat import SymRat
        return SymRat(self.us, 10 ** 6) if hooks.is_sym(self.us) else self.us / 10 ** 6

    days = property(lambda s: s.us // US_DAY)
    seconds = property(lambda s: (s.us // 10 ** 6) % 86400)
    microseconds = property(lambda s: s.us % 10 ** 6)


class TZ(object):
    __sx_pytype__ = datetime.tzinfo

    def __init__(self, off_min):
        self.off_min = off_min

    def utcoffset(self, dt):
        return TD(self.off_min * 60 * 10 ** 6)


class DT(object):
    """a datetime given by its UTC instant (microseconds since the epoch, built from symbolic fields) and its tzinfo"""
    __sx_pytype__ = datetime.datetime

    def __init__(self, fields, us, tz, utc_us):
        self.f, self.microsecond, self.tzinfo, self.utc_us = fields, us, tz, utc_us

    def utctimetuple(self):
        return self.f + (0, 0, 0)

    def timetuple(self):
        y, mo, d, h, mi, s = self.f
        return (y, mo, d, h, mi, s + (self.tzinfo.off_min * 60 if self.tzinfo else 0), 0, 0, -1)

    def __sub__(self, other):
        if isinstance(other, DT):
            return TD(self.utc_us - other.utc_us)
        return NotImplemented


def _datetime_model(*a, **k):
    """datetime(1970, 1, 1, tzinfo=<stand-in tz>) -> the epoch in that zone"""
    tz = k.get('tzinfo')
    if isinstance(tz, TZ) and tuple(a[:3]) == (1970, 1, 1):
        # wall clock 1970-01-01T00:00 at UTC offset off: the instant is -off
        return DT((1970, 1, 1, 0, 0, 0), 0, tz, -tz.off_min * 60 * 10 ** 6)
    if tz is None and len(a) == 3 and tuple(a) == (1970, 1, 1) and getattr(_datetime_model, 'naive_proxy', False):
        return DT((1970, 1, 1, 0, 0, 0), 0, None, 0)
    return NotImplemented


hooks.register(datetime.datetime, _datetime_model)


def lit(col, value):
    """the CQL term cqlengine sends for this column value"""
    return parse_one(E.cql_encode_all_types(col.to_database(value)))


def h_datetime(V, years=(1969, 1970, 2024), months=(1, 2, 12)):
    y = V.pick('year', list(years))
    mo = V.pick('month', list(months))
    d = V.int('day', 1, 28)
    h, mi, s = V.int('hour', 0, 23), V.int('minute', 0, 59), V.int('second', 0, 59)
    us = V.int('microsecond', 0, 999999)
    aware = V.flag('tz_aware')
    off = V.int('utc_offset_minutes', -1439, 1439) if aware else 0
    secs = ((days_from_civil(y, mo, d) * 24 + h) * 60 + mi) * 60 + s
    utc_us = secs * 10 ** 6 + us
    if sx.symbolic_mode():
        _datetime_model.naive_proxy = not aware
        val = DT((y, mo, d, h, mi, s), us, TZ(off) if aware else None, utc_us)
    else:
        tz = datetime.timezone(datetime.timedelta(minutes=off)) if aware else None
        utc = datetime.datetime(y, mo, d, h, mi, s, us)
        val = (utc + datetime.timedelta(minutes=off)).replace(tzinfo=tz) if aware else utc
    col = cols.DateTime()
    col.column_name = 'dt'
    p = lit(col, val)
    if not V.check(p is not None and p[0] == 'int', 'datetime:sent-as-one-integer-literal'):
        return
    want = sx.ite(utc_us >= 0, utc_us // 1000, -((-utc_us) // 1000))
    V.check(sx.eq(int_of(p[1]), want), 'datetime:exact-millisecond-instant', note='naive = UTC; aware = the instant, whatever the offset')
    sent = ct.DateType.serialize(val, 4)
    # (the literal equals `want` by the previous obligation)
    V.check(sx.beq(sent, sx.cat(be(want, 8))), 'datetime:same-as-the-core-prepared-encoding')


INTS = (('int', cols.Integer, ct.Int32Type, 32), ('bigint', cols.BigInt, ct.LongType, 64),
        ('smallint', cols.SmallInt, ct.ShortType, 16), ('tinyint', cols.TinyInt, ct.ByteType, 8))


def h_ints(V, which=0):
    for name, colcls, typ, bits in INTS[which:which + 1]:
        v = V.int(name, -(1 << (bits - 1)), (1 << (bits - 1)) - 1)
        col = colcls()
        col.column_name = name
        out = E.cql_encode_all_types(col.to_database(v))
        from sx.symstr import rendered_source, cps
        src = rendered_source(cps(out)) if sx.symbolic_mode() else int(out)
        V.check(src is not None and sx.eq(src, v), '%s:literal-is-the-decimal-value' % name)
        sent = typ.serialize(v, 4)
        V.check(sx.beq(sent, sx.cat(be(v, bits // 8))), '%s:core-encoding-is-the-same-value' % name)
    b = V.bool('flag')
    col = cols.Boolean()
    p = lit(col, sx.conc_bool(b))
    V.check(p == ('const', 'true' if sx.conc_bool(b) else 'false'), 'boolean:literal')


def h_text(V, n=2):
    s = V.str('s', n)
    col = cols.Text()
    p = lit(col, s)
    from sx.symstr import cps
    from sx.symseq import seq_eq
    V.check(p is not None and p[0] == 'str' and seq_eq(p[1], cps(s)), 'text:literal-denotes-the-text')
    raw = V.bytes('b', n)
    colb = cols.Blob()
    pb = lit(colb, raw)
    items = sx.blist(raw)
    V.check(pb is not None and pb[0] == 'blob' and len(pb[1]) == 2 * n and
            (sx.land(*[sx.eq(pb[1][2 * i] * 16 + pb[1][2 * i + 1], items[i]) for i in range(n)]) if n else True), 'blob:literal-denotes-the-bytes')


def h_date_time(V):
    days = V.int('days', 0, 2 ** 32 - 1)
    dcol = cols.Date()
    dval = util.Date(days - 2 ** 31)
    out = dcol.to_database(dval)
    V.check(sx.eq(out, days), 'date:offset-day-number')
    V.check(sx.beq(ct.SimpleDateType.serialize(dval, 4), sx.cat(be(days, 4))), 'date:same-as-the-core-prepared-encoding')
    ns = V.int('ns', 0, 86400 * 10 ** 9 - 1)
    tcol = cols.Time()
    tval = tcol.to_database(util.Time(ns))
    V.check(isinstance(tval, util.Time) and sx.eq(tval.nanosecond_time, ns), 'time:value-kept')
    V.check(sx.beq(ct.TimeType.serialize(tval, 4), sx.cat(be(ns, 8))), 'time:core-encoding-is-nanoseconds')


def h_collections(V):
    kind = V.pick('kind', ['list', 'set', 'map'])
    n = V.choice('n', 3)
    xs = [V.int('x%d' % i, -(1 << 31), (1 << 31) - 1) for i in range(n)]
    if kind == 'list':
        col = cols.List(cols.Integer)
        p = lit(col, list(xs))
        V.check(p is not None and p[0] == 'list' and len(p[1]) == n and
                (sx.land(*[a[0] == 'int' and sx.eq(int_of(a[1]), x) for a, x in zip(p[1], xs)]) if n else True), 'list:elements-in-order')
    elif kind == 'set':
        small = [sx.conc(V.int('s%d' % i, 0, 3)) for i in range(n)]
        col = cols.Set(cols.Integer)
        p = lit(col, set(small))
        V.check(p is not None and p[0] == 'set' and sorted(sx.conc(int_of(a[1])) for a in p[1]) == sorted(set(small)), 'set:elements')
    else:
        keys = list(range(n))
        col = cols.Map(cols.Integer, cols.Integer)
        p = lit(col, dict(zip(keys, xs)))
        if n == 0:
            V.check(p in (('set', []), ('map', [])), 'map:empty')
        else:
            V.check(p is not None and p[0] == 'map' and len(p[1]) == n and
                    sx.land(*[sx.land(sx.eq(int_of(k[1]), kk), sx.eq(int_of(v[1]), x)) for (k, v), kk, x in zip(p[1], keys, xs)]), 'map:entries')


def h_scalars(V):
    import decimal
    import uuid
    kind = V.pick('kind', ['float', 'double', 'decimal', 'uuid'])
    if kind in ('float', 'double'):
        f = V.pick('f', [0.0, -0.0, 1.5, -2.25, 1e16, 0.1])
        col = cols.Double() if kind == 'double' else cols.Float()
        p = lit(col, f)
        V.check(p is not None and p[0] in ('float', 'int') and float(p[1] if p[0] == 'float' else ''.join(chr(c) for c in p[1])) == f, 'float:literal')
    elif kind == 'decimal':
        dv = decimal.Decimal(V.pick('d', ['0', '1.10', '-123456789012345678901234567890.5', '1E+30']))
        p = lit(cols.Decimal(), dv)
        V.check(p is not None and p[0] in ('float', 'int') and decimal.Decimal(p[1] if p[0] == 'float' else ''.join(chr(c) for c in p[1])) == dv,
                'decimal:literal-is-exact')
    else:
        u = uuid.UUID(V.pick('u', ['00000000-0000-0000-0000-000000000000', '12345678-1234-5678-1234-56789abcdef0']))
        p = lit(cols.UUID(), u)
        V.check(p == ('uuid', str(u)), 'uuid:literal')


_UDT = []


def _udt():
    if not _UDT:
        from cassandra.cqlengine.usertype import UserType

        class Stamp(UserType):
            n = cols.Integer()
            day = cols.Date()
        _UDT.append(Stamp)
    return _UDT[0]


def h_udt(V):
    """a user-type value: converting it leaves the caller's instance untouched, so converting it again gives the same"""
    Stamp = _udt()
    days = V.int('days', -1000, 1000)
    n = V.int('n', -(1 << 31), (1 << 31) - 1)
    inst = Stamp(n=n, day=util.Date(days))
    col = cols.UserDefinedType(Stamp)
    first = col.to_database(inst)
    V.check(isinstance(inst.day, util.Date) and sx.eq(inst.day.days_from_epoch, days) and sx.eq(inst.n, n), 'udt:conversion-leaves-the-instance-untouched',
            note='field day is now %r' % (type(inst.day).__name__,))
    V.check(sx.eq(first.day, days + 2 ** 31) and sx.eq(first.n, n), 'udt:fields-converted-like-their-columns')
    second = col.to_database(inst)
    V.check(sx.eq(second.day, days + 2 ** 31) and sx.eq(second.n, n), 'udt:second-conversion-gives-the-same')


def jobs(tier):
    big = tier != 'quick'
    years = (1, 1969, 1970, 2024, 9999) if big else (1969, 1970, 2024)
    months = tuple(range(1, 13)) if big else (1, 2, 12)
    J = []
    for yi in range(len(years)):
        for mi in range(len(months)):
            J.append(Job('datetime/%d-%02d' % (years[yi], months[mi]), 'h_datetime', dict(years=years, months=months),
                         dict(pin={'year': yi, 'month': mi}, arith='int')))
    for i in range(4):
        J.append(Job('ints/%s' % INTS[i][0], 'h_ints', dict(which=i)))
    for n in range(3):
        J.append(Job('text-blob/n%d' % n, 'h_text', dict(n=n)))
    J.append(Job('date-time', 'h_date_time', {}, dict(arith='int')))
    J.append(Job('collections', 'h_collections', {}))
    J.append(Job('scalars', 'h_scalars', {}))
    J.append(Job('udt', 'h_udt', {}))
    return J
