"""C37 — cqlengine statements bind every placeholder to its own clause's value.

The real statement/clause classes build UPDATE / INSERT / DELETE / SELECT statements from a
solver-chosen set of requested filters, conditions and assignments (plain, list
assign/append/prepend/partial, set assign/add/remove, counter) whose operand values are symbolic
integers; a context-id offset (as a batch applies) and a real BatchQuery.execute of two statements
are included.  The rendered CQL is split by an independent reader into its SET / WHERE / IF parts;
for each requested item the expected fragment is located and the placeholder found in it must be
bound, in the statement's context, to exactly that item's operand.
"""
import re
import warnings
import sx
from sx.run import Job

warnings.simplefilter('ignore')
sx.instrument('cassandra.cqlengine.statements', 'cassandra.cqlengine.query', 'cassandra.cqlengine.functions', 'cassandra.cqlengine.operators',
              'cassandra.cqlengine.columns', 'cassandra.cqlengine.models', 'cassandra.cqltypes', 'cassandra.marshal', 'cassandra.query')
from harness import kit                       # noqa: E402
kit.install_reactor()
from cassandra.cqlengine import statements as st    # noqa: E402
from cassandra.cqlengine import operators as ops    # noqa: E402
from cassandra.cqlengine import query as cq         # noqa: E402

META = dict(
    level='model_checking',
    level_text='every combination of requested filters, conditions and assignments within the bounds is explored (solver-forked choices) with symbolic operand values; per path z3 proves that each placeholder of the rendered statement is bound to the operand of the clause that introduced it, and the rendered parts are exactly the requested ones',
    level_note='statement shapes bounded (see bounds); the CQL text is concrete per path (placeholder ids are concrete), the bound values are symbolic; oracle fragments hand-written from the CQL grammar for collection updates',
    technique='symbolic execution (sx) of the real cassandra.cqlengine.statements classes and BatchQuery.execute with solver-forked statement shapes and symbolic operand values; z3 validity queries for placeholder/value identity',
    bounds=dict(quick='UPDATE with 0..1 plain assignment, list column {none, assign, append, prepend, partial prepend+append, partial append}, set column {none, assign, add, remove, partial add+remove}, counter {none,+,-}; 1..2 WHERE filters over {=, >=, IN}; 0..1 IF conditions; context offsets {0, 7}; INSERT/DELETE/SELECT with the same filters; batches of two statements',
                thorough='3 WHERE filters over {=, >, >=, <, <=, IN}, 0..2 conditions, offsets {0, 3, 7}, with/without TTL'),
    assumptions=[],
    stubs=['cassandra.cqlengine.connection.execute captured for BatchQuery.execute'],
    outside=['ModelQuerySet / DMLQuery orchestration (C35)', 'map update clauses', 'token() and other query functions'],
)


def encoded_functions():
    return [st.BaseCQLStatement.get_context, st.BaseCQLStatement.update_context_id, st.BaseCQLStatement.add_conditional_clause,
            st.BaseCQLStatement._add_where_clause, st.AssignmentStatement._add_assignment_clause, st.AssignmentStatement.update_context_id,
            st.AssignmentStatement.get_context, st.UpdateStatement.__unicode__, st.UpdateStatement.get_context, st.UpdateStatement.update_context_id,
            st.InsertStatement.__unicode__, st.DeleteStatement.__unicode__, st.DeleteStatement.get_context, st.DeleteStatement.update_context_id,
            st.SelectStatement.__unicode__, st.WhereClause.__unicode__, st.WhereClause.update_context, st.AssignmentClause.__unicode__,
            st.ConditionalClause.__unicode__, st.ListUpdateClause.__unicode__, st.ListUpdateClause.update_context, st.ListUpdateClause._analyze,
            st.ListUpdateClause.get_context_size, st.SetUpdateClause.__unicode__, st.SetUpdateClause.update_context, st.SetUpdateClause._analyze,
            st.CounterUpdateClause.__unicode__, st.CounterUpdateClause.update_context, cq.BatchQuery.execute]


OPS = [('=', ops.EqualsOperator), ('>', ops.GreaterThanOperator), ('>=', ops.GreaterThanOrEqualOperator),
       ('<', ops.LessThanOperator), ('<=', ops.LessThanOrEqualOperator), ('IN', ops.InOperator)]
OPS_QUICK = [OPS[0], OPS[2], OPS[5]]
PH = r'%\((\d+)\)s'


def veq(a, b):
    """symbolic equality of operand values (ints, lists, sets given as lists)"""
    if isinstance(a, st.InQuoter):
        a = a.value
    if isinstance(a, (list, tuple)) or isinstance(b, (list, tuple)):
        if not isinstance(a, (list, tuple)) or not isinstance(b, (list, tuple)) or len(a) != len(b):
            return False
        return sx.land(*[veq(x, y) for x, y in zip(a, b)]) if a else True
    if isinstance(a, (set, frozenset)) or isinstance(b, (set, frozenset)):
        return isinstance(a, (set, frozenset)) and isinstance(b, (set, frozenset)) and a == b
    return sx.eq(a, b)


class Want(object):
    """one requested item: the fragment it must render as (regex with one placeholder group per operand) and the operands"""
    def __init__(self, part, pattern, operands, what):
        self.part, self.pattern, self.operands, self.what = part, pattern, operands, what


def build(V, name, nwhere=2, kind='update', light=False, big=False):
    """(statement, [Want]) for a solver-chosen shape"""
    wants = []
    where = []
    nw = (V.choice(name + ':filters', nwhere) + 1) if kind != 'insert' else 0      # INSERT has no WHERE
    for i in range(nw):
        sym, opc = V.pick('%s:op%d' % (name, i), OPS if big else OPS_QUICK)
        field = 'k%d' % i
        if sym == 'IN':
            val = [V.int('%s:w%d_%d' % (name, i, j), -9, 9) for j in range(2)]
        else:
            val = V.int('%s:w%d' % (name, i), -1000, 1000)
        where.append(st.WhereClause(field, opc(), val))
        wants.append(Want('where', r'"%s" %s %s' % (field, re.escape(sym), PH), [val], 'filter %s %s' % (field, sym)))
    conds = []
    if kind in ('update', 'delete'):
        nc = V.choice(name + ':conditions', 3 if big else 2)
        for i in range(nc):
            val = V.int('%s:c%d' % (name, i), -1000, 1000)
            conds.append(st.ConditionalClause('c%d' % i, val))
            wants.append(Want('if', r'"c%d" = %s' % (i, PH), [val], 'condition c%d' % i))
    if kind == 'select':
        return st.SelectStatement('t', where=where, limit=V.pick(name + ':limit', [None, 5])), wants
    if kind == 'delete':
        return st.DeleteStatement('t', where=where, conditionals=conds), wants
    assigns = []
    if kind == 'insert' or V.flag(name + ':plain'):
        val = V.int(name + ':a', -1000, 1000)
        assigns.append(st.AssignmentClause('a', val))
        wants.append(Want('set', r'"a" = %s' % PH, [val], 'assignment a'))
    if kind == 'insert':
        return st.InsertStatement('t', assignments=assigns, ttl=V.pick(name + ':ttl', [None, 60])), wants
    # list column
    lm = V.pick(name + ':list', ['none', 'partial-both'] if light else ['none', 'assign', 'append', 'prepend', 'partial-both', 'partial-append'])
    x, y, z = [V.int('%s:l%d' % (name, i), 0, 5) for i in range(3)]
    if lm == 'assign':
        assigns.append(st.ListUpdateClause('l', [x, y]))
        wants.append(Want('set', r'"l" = %s' % PH, [[x, y]], 'list assign'))
    elif lm == 'append':
        assigns.append(st.ListUpdateClause('l', [x], operation='append'))
        wants.append(Want('set', r'"l" = "l" \+ %s' % PH, [[x]], 'list append'))
    elif lm == 'prepend':
        assigns.append(st.ListUpdateClause('l', [x], operation='prepend'))
        wants.append(Want('set', r'"l" = %s \+ "l"' % PH, [[x]], 'list prepend'))
    elif lm == 'partial-both':
        # previous [7]; new [x, 7, z]  ->  prepend [x] and append [z]
        assigns.append(st.ListUpdateClause('l', [x, 7, z], previous=[7]))
        wants.append(Want('set', r'"l" = %s \+ "l"' % PH, [[x]], 'list partial prepend'))
        wants.append(Want('set', r'"l" = "l" \+ %s' % PH, [[z]], 'list partial append'))
    elif lm == 'partial-append':
        assigns.append(st.ListUpdateClause('l', [7, 8, z], previous=[7, 8]))
        wants.append(Want('set', r'"l" = "l" \+ %s' % PH, [[z]], 'list partial append'))
    # set column (concrete small elements: the clause uses set algebra)
    sm = V.pick(name + ':set', ['none', 'add'] if light else ['none', 'assign', 'add', 'remove', 'partial'])
    if sm == 'assign':
        assigns.append(st.SetUpdateClause('s', {1, 2}))
        wants.append(Want('set', r'"s" = %s' % PH, [{1, 2}], 'set assign'))
    elif sm == 'add':
        assigns.append(st.SetUpdateClause('s', {3}, operation='add'))
        wants.append(Want('set', r'"s" = "s" \+ %s' % PH, [{3}], 'set add'))
    elif sm == 'remove':
        assigns.append(st.SetUpdateClause('s', {4}, operation='remove'))
        wants.append(Want('set', r'"s" = "s" - %s' % PH, [{4}], 'set remove'))
    elif sm == 'partial':
        assigns.append(st.SetUpdateClause('s', {1, 5}, previous={1, 6}))
        wants.append(Want('set', r'"s" = "s" \+ %s' % PH, [{5}], 'set partial add'))
        wants.append(Want('set', r'"s" = "s" - %s' % PH, [{6}], 'set partial remove'))
    cm = V.pick(name + ':counter', ['none'] if light else ['none', 'up', 'down'])
    if cm != 'none':
        d = V.int(name + ':delta', 1, 100)
        prev = V.int(name + ':prev', -100, 100)
        new = prev + d if cm == 'up' else prev - d
        assigns.append(st.CounterUpdateClause('n', new, prev))
        wants.append(Want('set', r'"n" = "n" %s %s' % (r'\+' if cm == 'up' else '-', PH), [d], 'counter %s' % cm))
    if not assigns:
        V.assume(False)
    return st.UpdateStatement('t', assignments=assigns, where=where, conditionals=conds,
                              ttl=V.pick(name + ':ttl', [None, 60] if big else [60])), wants


def split_parts(text):
    """{'set': [...], 'where': [...], 'if': [...], 'values': ...} fragments of one statement"""
    parts = {'set': [], 'where': [], 'if': []}
    m = re.search(r' IF (.*?)$', text)
    if m and not m.group(1).startswith('EXISTS') and not m.group(1).startswith('NOT EXISTS'):
        parts['if'] = m.group(1).split(' AND ')
        text = text[:m.start()]
    m = re.search(r' WHERE (.*?)( LIMIT \d+| ALLOW FILTERING)*$', text)
    if m:
        parts['where'] = m.group(1).split(' AND ')
        text = text[:m.start()]
    m = re.search(r' SET (.*)$', text)
    if m:
        parts['set'] = m.group(1).split(', ')
    m = re.match(r'INSERT INTO \S+ \((.*?)\) VALUES \((.*)\)', text)
    if m:
        cols, vals = m.group(1).split(', '), m.group(2).split(', ')
        parts['set'] = ['%s = %s' % (c, v) for c, v in zip(cols, vals)]
    return parts


def check_statement(V, text, ctx, wants, label):
    phs = re.findall(PH, text)
    V.check(len(phs) == len(set(phs)), label + ':each-placeholder-appears-once', note=text)
    V.check(set(phs) == set(ctx.keys()), label + ':exactly-one-bound-value-per-placeholder', note='%s / %s' % (text, sorted(ctx.keys())))
    parts = split_parts(text)
    used = set()
    for w in wants:
        found = [f for f in parts[w.part] if re.fullmatch(w.pattern, f)]
        if not V.check(len(found) == 1, label + ':requested-item-rendered-once', note='%s in %r' % (w.what, parts[w.part])):
            continue
        ids = re.fullmatch(w.pattern, found[0]).groups()
        for pid, operand in zip(ids, w.operands):
            used.add(pid)
            V.check(pid in ctx and veq(ctx[pid], operand), label + ':placeholder-bound-to-its-own-clause-value', note='%s: %%(%s)s' % (w.what, pid))
    V.check(sum(len(parts[p]) for p in parts) == len(wants), label + ':nothing-rendered-that-was-not-requested',
            note='%r for %d requested items' % (parts, len(wants)))
    V.check(used == set(phs), label + ':every-placeholder-belongs-to-a-requested-item')


def h_single(V, kind='update', nwhere=2, big=False):
    s, wants = build(V, 's', nwhere, kind, big=big)
    off = V.pick('context_offset', [0, 3, 7] if big else [0, 7])
    if off:
        s.update_context_id(off)
    text = str(s)
    ctx = s.get_context()
    V.tag('cql', text)
    check_statement(V, text, ctx, wants, kind)
    if off:
        V.check(all(int(k) >= off for k in ctx), kind + ':offset-applied-to-every-placeholder')


class _Captured(Exception):
    pass


def h_batch(V):
    s1, w1 = build(V, 'p', 1, V.pick('kind1', ['update', 'insert', 'delete']), light=True)
    s2, w2 = build(V, 'q', 1, V.pick('kind2', ['update', 'delete']), light=True)
    sent = []
    orig = cq.conn.execute

    def fake_execute(query, params, *a, **k):
        sent.append((query, params))
        raise _Captured()
    cq.conn.execute = fake_execute
    try:
        b = cq.BatchQuery()
        b.add_query(s1)
        b.add_query(s2)
        try:
            b.execute()
        except _Captured:
            pass
    finally:
        cq.conn.execute = orig
    if not V.check(len(sent) == 1, 'batch:one-request'):
        return
    text, params = sent[0]
    lines = text.split('\n')
    V.check(lines[0].startswith('BEGIN') and lines[-1] == 'APPLY BATCH;' and len(lines) == 4, 'batch:structure', note=text)
    phs = re.findall(PH, text)
    V.check(len(phs) == len(set(phs)) and set(phs) == set(params.keys()), 'batch:one-bound-value-per-placeholder-across-statements', note=text)
    for line, wants, lab in ((lines[1].strip(), w1, 'batch-1'), (lines[2].strip(), w2, 'batch-2')):
        sub = dict((k, params[k]) for k in re.findall(PH, line) if k in params)
        check_statement(V, line, sub, wants, lab)


_MODEL = []


def _model():
    if not _MODEL:
        from cassandra.cqlengine import columns as cols
        from cassandra.cqlengine.models import Model

        class QsModel(Model):
            __keyspace__ = 'ks'
            __table_name__ = 'qs_model'
            k = cols.Integer(primary_key=True)
            a = cols.Integer()
            b = cols.Integer()
            c1 = cols.Integer()
            c2 = cols.Integer()
        _MODEL.append(QsModel)
    return _MODEL[0]


def h_queryset(V):
    """ModelQuerySet.update: the UPDATE and the follow-up DELETE (for columns set to None) each carry their own bindings"""
    import types
    M = _model()
    K, A = V.int('k', -1000, 1000), V.int('a', -1000, 1000)
    conds = {}
    which = V.pick('conditions', [['c1'], ['c1', 'c2'], ['a', 'c1'], ['b', 'c1'], []])
    for name in which:
        conds[name] = V.int('if_' + name, -1000, 1000)
    null_b = V.flag('b_set_to_none')
    sent = []
    orig_exec, orig_cluster = cq.conn.execute, cq.conn.get_cluster
    cq.conn.execute = lambda stmt, params, *a, **k: sent.append((stmt.query_string, dict(params))) or []
    cq.conn.get_cluster = lambda connection=None: types.SimpleNamespace(protocol_version=4)
    orig_conn = M._get_connection
    try:
        M._get_connection = classmethod(lambda cls: 'c')
        qs = M.objects(k=K)
        if conds:
            qs = qs.iff(**conds)
        upd = {'a': A}
        if null_b:
            upd['b'] = None
        qs.update(**upd)
    finally:
        cq.conn.execute, cq.conn.get_cluster = orig_exec, orig_cluster
        M._get_connection = orig_conn
    V.tag('statements', [t for t, _ in sent])
    V.check(len(sent) == (2 if null_b else 1), 'queryset:one-statement-per-phase', note=repr([t for t, _ in sent]))
    for text, params in sent:
        is_update = text.startswith('UPDATE')
        wants = [Want('where', r'"k" = %s' % PH, [K], 'filter k')]
        if is_update:
            wants.append(Want('set', r'"a" = %s' % PH, [A], 'assignment a'))
            wanted_conds = list(which)
        else:
            wanted_conds = [c for c in which if c != 'a']      # conditions on updated columns stay with the UPDATE
        for c in wanted_conds:
            wants.append(Want('if', r'"%s" = %s' % (c, PH), [conds[c]], 'condition %s' % c))
        check_statement(V, text, params, wants, 'queryset-update' if is_update else 'queryset-delete')


def jobs(tier):
    nw = 2 if tier == 'quick' else 3
    J = []
    for li in range(6):
        J.append(Job('update/list%d' % li, 'h_single', dict(kind='update', nwhere=nw, big=(tier != 'quick')), dict(pin={'s:list': li}, max_paths=400000)))
    for kind in ('insert', 'delete', 'select'):
        J.append(Job(kind, 'h_single', dict(kind=kind, nwhere=nw, big=(tier != 'quick'))))
    for k1 in range(3):
        for k2 in range(2):
            J.append(Job('batch/%d%d' % (k1, k2), 'h_batch', {}, dict(pin={'kind1': k1, 'kind2': k2}, max_paths=400000)))
    J.append(Job('queryset-update', 'h_queryset', {}))
    return J
