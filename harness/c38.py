"""C38 — cqlengine routing keys equal the partition key Cassandra hashes.

The real cqlengine _execute_statement / Model key_serializer / Statement._set_routing_key run for
models with one and two partition-key columns (also with a clustering column declared before the
partition key in the class body) on statements whose equality filters have symbolic values; the
routing key attached to the SimpleStatement handed to the connection is compared with Cassandra's
partition-key encoding (single component: the serialized value; composite: <u16 len><bytes><0>
per component) built from an independent serializer.
"""
import types
import warnings
import sx
from sx.run import Job

warnings.simplefilter('ignore')
sx.instrument('cassandra.cqlengine.statements', 'cassandra.cqlengine.query', 'cassandra.cqlengine.functions', 'cassandra.cqlengine.operators',
              'cassandra.cqlengine.columns', 'cassandra.cqlengine.models', 'cassandra.cqltypes', 'cassandra.marshal', 'cassandra.query')
from harness import kit                       # noqa: E402
kit.install_reactor()
from cassandra.cqlengine import statements as st    # noqa: E402
from cassandra.cqlengine import operators as ops    # noqa: E402
from cassandra.cqlengine import query as cq         # noqa: E402
from cassandra.cqlengine import columns as cols     # noqa: E402
from cassandra.cqlengine.models import Model        # noqa: E402

META = dict(
    level='model_checking',
    level_text='every path of the real cqlengine routing-key code is explored with the partition-key values symbolic over their full range (32/64-bit integers, short texts and blobs); z3 proves the attached routing key equals the specification encoding, and that a key is attached exactly when every partition-key component is fixed by an equality filter',
    level_note='three model shapes (see bounds); the statement kind and which components are filtered are solver-forked choices; the connection is a recorder; z3 trusted',
    technique='symbolic execution (sx proxies over the real cassandra.cqlengine.query._execute_statement, ModelMetaClass key_serializer, Statement._set_routing_key and the core serializers) + z3 validity queries per path',
    bounds=dict(quick='models: single int key; composite (int, text) with a clustering column; clustering bigint column declared before an int partition key; values int32/int64 full range, text 0..2 ASCII chars; SELECT / UPDATE / DELETE; each partition-key component filtered by =, by >= or not at all',
                thorough='text 0..3 chars'),
    assumptions=[],
    stubs=['cassandra.cqlengine.connection.execute / get_cluster recorded'],
    outside=['token() filters', 'models with __compute_routing_key__ = False'],
)


def encoded_functions():
    return [cq._execute_statement, Model._routing_key_from_values, st.BaseCQLStatement.partition_key_values,
            st.AssignmentStatement.partition_key_values]


class Single(Model):
    __keyspace__ = 'ks'
    k = cols.Integer(primary_key=True)
    v = cols.Integer()


class Composite(Model):
    __keyspace__ = 'ks'
    p1 = cols.Integer(partition_key=True)
    p2 = cols.Text(partition_key=True)
    c = cols.BigInt(primary_key=True)
    v = cols.Integer()


class ClusteringFirst(Model):
    __keyspace__ = 'ks'
    c = cols.BigInt(primary_key=True)
    p = cols.Integer(partition_key=True)
    v = cols.Integer()


MODELS = {'single': (Single, [('k', 'int')]), 'composite': (Composite, [('p1', 'int'), ('p2', 'text')]),
          'clustering-first': (ClusteringFirst, [('p', 'int')])}


def be(v, n):
    return [(v >> (8 * (n - 1 - i))) & 0xff for i in range(n)]


def value(V, name, kind, maxtext):
    if kind == 'int':
        v = V.int(name, -(1 << 31), (1 << 31) - 1)
        return v, be(v, 4)
    n = V.choice(name + ':len', maxtext + 1)
    s = V.str(name, n, 0x20, 0x7e)
    return s, (list(s.c) if hasattr(s, 'c') else [ord(ch) for ch in s])


def h_routing(V, model='single', maxtext=2):
    M, keys = MODELS[model]
    kind = V.pick('statement', ['select', 'update', 'delete'])
    where = []
    specs = []
    complete = True
    for name, typ in keys:
        how = V.pick('filter_' + name, ['eq', 'range', 'absent'])
        val, spec = value(V, name, typ, maxtext)
        if how == 'eq':
            where.append(st.WhereClause(name, ops.EqualsOperator(), val))
            specs.append(spec)
        else:
            complete = False
            if how == 'range':
                where.append(st.WhereClause(name, ops.GreaterThanOrEqualOperator(), val))
    if 'c' in M._columns and V.flag('clustering_filtered'):
        where.append(st.WhereClause('c', ops.EqualsOperator(), V.int('c', -(1 << 63), (1 << 63) - 1)))
    if kind == 'select':
        s = st.SelectStatement(M.column_family_name(), where=where)
    elif kind == 'update':
        s = st.UpdateStatement(M.column_family_name(), assignments=[st.AssignmentClause('v', V.int('v', -5, 5))], where=where)
    else:
        s = st.DeleteStatement(M.column_family_name(), where=where)
    sent = []
    orig_exec, orig_cluster = cq.conn.execute, cq.conn.get_cluster
    cq.conn.execute = lambda stmt, params, *a, **k: sent.append(stmt) or []
    cq.conn.get_cluster = lambda connection=None: types.SimpleNamespace(protocol_version=4)
    try:
        cq._execute_statement(M, s, None, None, connection='c')
    finally:
        cq.conn.execute, cq.conn.get_cluster = orig_exec, orig_cluster
    V.tag('complete', complete)
    rk = sent[0].routing_key
    if not complete:
        V.check(rk is None, 'no-routing-key-without-the-whole-partition-key')
        return
    if not V.check(rk is not None, 'routing-key-attached-when-the-partition-key-is-fixed', note='whole partition key fixed by equality filters'):
        return
    if len(specs) == 1:
        want = specs[0]
    else:
        want = []
        for sp in specs:
            want += be(len(sp), 2) + list(sp) + [0]
    V.check(sx.beq(rk, sx.cat(want)) if want else len(rk) == 0, 'routing-key-is-cassandras-partition-key-encoding')
    V.check(sent[0].keyspace == 'ks', 'keyspace-attached-with-the-routing-key')


def jobs(tier):
    mt = 2 if tier == 'quick' else 3
    return [Job('routing/%s' % m, 'h_routing', dict(model=m, maxtext=mt)) for m in MODELS]
