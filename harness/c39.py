"""C39 — column encryption is transparent, including for nulls.

The AES cipher and the PKCS7 padder of the `cryptography` package are C code; they are replaced by
stubs that keep their documented contract (padding to the block size; a keyed, IV-dependent,
length-preserving, invertible byte transformation: here XOR with a key/IV stream).  Around them the
real AES256ColumnEncryptionPolicy (IV prefix, padding, per-column key/type lookup), the real
BoundStatement.bind and the real ResultMessage.recv_results_rows / decode_val run with symbolic
column values, nulls, two encrypted columns with different keys and types, and bind markers that
span two tables.
"""
import warnings
import sx
from sx.run import Job

warnings.simplefilter('ignore')
sx.instrument('cassandra.column_encryption._policies', 'cassandra.query', 'cassandra.protocol', 'cassandra.cqltypes', 'cassandra.marshal', 'cassandra.util')
from harness import kit                       # noqa: E402
kit.install_reactor()
from harness.c04 import u, s_string, s_type, _decode     # noqa: E402
from cassandra.column_encryption import _policies as pol  # noqa: E402
from cassandra.policies import ColDesc        # noqa: E402
from cassandra import query as cq             # noqa: E402
from cassandra import cqltypes as ct          # noqa: E402
from cassandra.protocol import ColumnMetadata, ProtocolHandler  # noqa: E402

META = dict(
    level='model_checking',
    level_text='every path of the real policy / bind / result-decoding code is explored with the column values symbolic (32-bit ints, short texts) and null/non-null as solver choices; z3 proves that what is bound is the encryption of the value\'s serialization under that column\'s own key, and that decoding the server\'s bytes gives back the original value (or None)',
    level_note='the cipher and padder are stubs honouring their contract (the real ones are C code): the claim is about the driver code around them; two encrypted columns, two tables; pure-Python result decoder only (the compiled decoder is C07, not applicable); z3 trusted',
    technique='symbolic execution (sx proxies over the real AES256ColumnEncryptionPolicy, BoundStatement.bind and ResultMessage.recv_results_rows) with contract stubs for the cryptography primitives + z3 validity queries per path',
    bounds=dict(quick='columns: int (encrypted with key A), text 0..2 chars (encrypted with key B), int (clear); each value null or not; bind markers in one table or across two tables with a same-named column; 1 row results',
                thorough='text 0..3 chars, 2 rows'),
    assumptions=['cipher contract: decrypt(key, iv, encrypt(key, iv, x)) == x, length preserving on whole blocks, different keys give different streams',
                 'padder contract: PKCS7 to 16 bytes'],
    stubs=['cryptography Cipher/encryptor/decryptor: XOR with a stream derived from key and IV', 'cryptography padding.PKCS7: pure-Python PKCS7'],
    outside=['the AES primitive itself', 'the compiled (Cython) result decoder', 'key management'],
)


def encoded_functions():
    P = pol.AES256ColumnEncryptionPolicy
    return [P.encrypt, P.decrypt, P.add_column, P.contains_column, P.column_type, P._get_cipher, cq.BoundStatement.bind]


# ---- contract stubs for the C primitives -----------------------------------------------------------
class _Padder(object):
    def __init__(self, block):
        self.block = block // 8
        self.buf = b''

    def update(self, data):
        self.buf = data
        return b''

    def finalize(self):
        n = self.block - (len(self.buf) % self.block)
        return sx.cat(self.buf, bytes([n] * n))


class _Unpadder(_Padder):
    def finalize(self):
        items = sx.blist(self.buf)
        if not items or len(items) % self.block:
            raise ValueError('Invalid padding bytes.')
        n = sx.conc(items[-1])
        if n < 1 or n > self.block:
            raise ValueError('Invalid padding bytes.')
        return sx.cat(items[:len(items) - n]) if len(items) > n else b''


class _PKCS7(object):
    def __init__(self, block):
        self.block = block

    def padder(self):
        return _Padder(self.block)

    def unpadder(self):
        return _Unpadder(self.block)


class _Stream(object):
    def __init__(self, key, iv):
        self.key, self.iv = key, iv

    def update(self, data):
        items = sx.blist(data)
        if len(items) % 16:
            raise ValueError('The length of the provided data is not a multiple of the block length.')
        return sx.cat([x ^ self.key[i % len(self.key)] ^ self.iv[i % len(self.iv)] for i, x in enumerate(items)]) if items else b''

    def finalize(self):
        return b''


class _Cipher(object):
    def __init__(self, algo, mode):
        self.key, self.iv = algo, mode

    def encryptor(self):
        return _Stream(self.key, self.iv)
    decryptor = encryptor


pol.padding = type('padding', (), {'PKCS7': _PKCS7})
pol.Cipher = _Cipher
pol.algorithms = type('algorithms', (), {'AES256': staticmethod(lambda key: key)})
pol.AES256ColumnEncryptionPolicy.mode = staticmethod(lambda iv: iv)

KEY_A = bytes(range(1, 33))
KEY_B = bytes(range(101, 133))
IV = bytes(range(200, 216))


def spec_encrypt(key, plain):
    n = 16 - (len(plain) % 16)
    padded = list(plain) + [n] * n
    return list(IV) + [x ^ key[i % 32] ^ IV[i % 16] for i, x in enumerate(padded)]


def be(v, n):
    return [(v >> (8 * (n - 1 - i))) & 0xff for i in range(n)]


def make_policy():
    p = pol.AES256ColumnEncryptionPolicy(iv=IV)
    pol.AES256ColumnEncryptionPolicy._build_cipher.cache_clear()
    p.add_column(ColDesc('ks', 't1', 'a'), KEY_A, 'int')
    p.add_column(ColDesc('ks', 't2', 'b'), KEY_B, 'text')
    return p


def values(V, maxtext):
    a = None if V.flag('a_is_null') else V.int('a', -(1 << 31), (1 << 31) - 1)
    if V.flag('b_is_null'):
        b = None
    else:
        b = V.str('b', V.choice('b:len', maxtext) + 1, 0x20, 0x7e)
    c = None if V.flag('c_is_null') else V.int('c', -(1 << 31), (1 << 31) - 1)
    return a, b, c


def text_items(s):
    return list(s.c) if hasattr(s, 'c') else [ord(ch) for ch in s]


def h_bind(V, maxtext=2):
    p = make_policy()
    a, b, c = values(V, maxtext)
    # encrypted columns are blobs on the server; the third marker is a same-named, unencrypted column "a" of t2
    meta = [ColumnMetadata('ks', 't1', 'a', ct.BytesType), ColumnMetadata('ks', 't2', 'b', ct.BytesType), ColumnMetadata('ks', 't2', 'a', ct.Int32Type)]
    ps = cq.PreparedStatement(meta, b'id', None, 'q', 'ks', 4, None, None, column_encryption_policy=p)
    bs = ps.bind([a, b, c])
    got = bs.values
    V.check(len(got) == 3, 'bind:one-value-per-marker')
    want = [None if a is None else spec_encrypt(KEY_A, be(a, 4)), None if b is None else spec_encrypt(KEY_B, text_items(b)), None if c is None else be(c, 4)]
    for name, g, w in zip('abc', got, want):
        if w is None:
            V.check(g is None, 'bind:null-stays-null', note=name)
        else:
            V.check(g is not None and sx.beq(g, sx.cat(w)), 'bind:%s' % ('encrypted-column-sent-encrypted-under-its-own-key' if name != 'c' else 'clear-column-sent-in-clear'), note=name)


def h_decode(V, maxtext=2, nrows=1):
    p = make_policy()
    body = u(2, 4) + u(0, 4) + u(3, 4)
    for tbl, col in (('t1', 'a'), ('t2', 'b'), ('t2', 'a')):
        body += s_string('ks') + s_string(tbl) + s_string(col) + (s_type('int') if (tbl, col) == ('t2', 'a') else u(0x0003, 2))
    body += u(nrows, 4)
    rows = []
    for r in range(nrows):
        a, b, c = values(V if r == 0 else _Suffix(V, '_r%d' % r), maxtext)
        for val, key, ser in ((a, KEY_A, (lambda x: be(x, 4))), (b, KEY_B, text_items), (c, None, (lambda x: be(x, 4)))):
            if val is None:
                body += u(-1, 4)
            else:
                raw = spec_encrypt(key, ser(val)) if key else ser(val)
                body += u(len(raw), 4) + raw
        rows.append((a, b, c))
    old = ProtocolHandler.column_encryption_policy
    ProtocolHandler.column_encryption_policy = p
    try:
        msg = _decode(4, 0, 0x08, body)
    finally:
        ProtocolHandler.column_encryption_policy = old
    got = msg.parsed_rows
    V.check(len(got) == nrows, 'decode:row-count')
    for grow, wrow in zip(got, rows):
        for name, g, w in zip('abc', grow, wrow):
            if w is None:
                V.check(g is None, 'decode:null-in-an-encrypted-column-reads-as-none' if name != 'c' else 'decode:null', note=name)
            elif name == 'b':
                V.check(g is not None and len(g) == len(w) and sx.land(*[x == y for x, y in zip(text_items(g), text_items(w))]), 'decode:encrypted-text-reads-back', note=name)
            else:
                V.check(g is not None and sx.eq(g, w), 'decode:%s' % ('encrypted-int-reads-back' if name == 'a' else 'clear-int-reads-back'), note=name)


class _Suffix(object):
    def __init__(self, V, suf):
        self.V, self.suf = V, suf

    def flag(self, n): return self.V.flag(n + self.suf)
    def int(self, n, lo, hi): return self.V.int(n + self.suf, lo, hi)
    def str(self, n, k, lo, hi): return self.V.str(n + self.suf, k, lo, hi)
    def choice(self, n, k): return self.V.choice(n + self.suf, k)


def jobs(tier):
    mt = 2 if tier == 'quick' else 3
    return [Job('bind', 'h_bind', dict(maxtext=mt)), Job('decode', 'h_decode', dict(maxtext=mt, nrows=1 if tier == 'quick' else 2))]
