"""C40 — GraphSON values survive serialization and deserialization.

The real GraphSON2/GraphSON3 serializers and readers (and GraphSON1 serializer / typed deserializers)
run on symbolic integers (full 64-bit range: the Int32/Int64 specialisation is decided by the solver),
booleans, short symbolic strings and lists / sets / maps of them; values whose GraphSON form is
produced by C-level formatting (uuid, decimal, date, time, instant, duration, blob, inet, point) are
solver-chosen from boundary lists.  The obligation is deserialize(serialize(v)) == v, and that the
serialized form is a type-tagged object carrying a value.  json.dumps / json.loads between the two
halves is outside (C accelerator); the structures exchanged are the JSON-able ones they would carry.
"""
import datetime
import decimal
import ipaddress
import uuid
import warnings
import sx
from sx.run import Job

warnings.simplefilter('ignore')
sx.instrument('cassandra.datastax.graph.graphson')
from harness import kit                       # noqa: E402
kit.install_reactor()
from cassandra.datastax.graph import graphson as gs   # noqa: E402
from cassandra.util import Duration, Point            # noqa: E402

META = dict(
    level='model_checking',
    level_text='integers over the whole 64-bit range, booleans, symbolic short strings and collections of them are symbolic through the real GraphSON 2/3 serializers and readers; z3 proves the round trip and the Int32/Int64 tagging for every value per path; values formatted by C code are drawn from boundary lists',
    level_note='the JSON text step (json.dumps/loads) is outside; uuid/decimal/date/time/instant/duration/blob/inet/point values are enumerated from fixed lists, not symbolic; GraphSON1 is covered for the scalar types through its typed deserializers; z3 trusted',
    technique='symbolic execution (sx proxies over the real cassandra.datastax.graph.graphson serializers/readers) + z3 validity queries per path; boundary-value lists for C-formatted types',
    bounds=dict(quick='ints -2^63..2^63-1, bool, text 0..2 chars; GraphSON3 list/set/map of <= 2 symbolic ints or strings (nested once); fixed lists for uuid, decimal, date, time, instant, duration, blob, point, float; GraphSON 1, 2 and 3',
                thorough='text 0..3 chars, collections of <= 3'),
    assumptions=['JSON transports ints, strings, booleans, lists and string-keyed objects unchanged'],
    stubs=[],
    outside=['json text encoding', 'inet (deserializes to its text form by design)', 'vertices/edges/paths (server-to-client only)', 'user-defined types and tuples (need cluster metadata)', 'float text round trips'],
)


def encoded_functions():
    return [gs.GraphSON2Serializer.serialize, gs.GraphSON2Reader.deserialize, gs._BaseGraphSONSerializer.get_serializer, gs._BaseGraphSONSerializer.serialize,
            gs.IntegerTypeIO.get_specialized_serializer, gs.GraphSON3Serializer.get_serializer, gs.MapTypeIO.serialize, gs.MapTypeIO.deserialize,
            gs.ListTypeIO.serialize, gs.ListTypeIO.deserialize, gs.SetTypeIO.serialize, gs.SetTypeIO.deserialize, gs.TypeWrapperTypeIO.serialize]


def ser_des(version):
    ctx = {'cluster': type('C', (), {'_user_types': {}})(), 'graph_name': 'g'}
    if version == 2:
        return gs.GraphSON2Serializer(), gs.GraphSON2Reader(ctx)
    return gs.GraphSON3Serializer(ctx), gs.GraphSON3Reader(ctx)


def eqv(a, b):
    if isinstance(b, (list, tuple)):
        return isinstance(a, (list, tuple)) and len(a) == len(b) and (sx.land(*[eqv(x, y) for x, y in zip(a, b)]) if b else True)
    if hasattr(b, 'c') or isinstance(b, str):
        from sx.symstr import cps
        from sx.symseq import seq_eq
        return (hasattr(a, 'c') or isinstance(a, str)) and len(a) == len(b) and (seq_eq(cps(a), cps(b)) if len(b) else True)
    return sx.eq(a, b) if not isinstance(b, bool) and not isinstance(a, bool) else a == b


def h_int(V, version=2):
    s, r = ser_des(version)
    v = V.int('v', -(1 << 63), (1 << 63) - 1)
    out = s.serialize(v)
    small = sx.land(v >= -(1 << 31), v <= (1 << 31) - 1)
    V.check(isinstance(out, dict) and '@value' in out, 'int:typed-object-with-a-value', note=repr(out)[:80])
    V.check(sx.iff(out['@type'] == 'g:Int32', small) if isinstance(small, bool) else (out['@type'] == 'g:Int32') == sx.conc_bool(small), 'int:int32-exactly-when-it-fits')
    V.check(out['@type'] in ('g:Int32', 'g:Int64'), 'int:tag')
    V.check(sx.eq(r.deserialize(out), v), 'int:round-trip')
    # forcing a type with to_bigint()/to_int()/to_smallint() is a GraphSON3 feature (the wrapper is only registered there)
    for name, wrap, tag in ((('bigint', gs.to_bigint, 'g:Int64'), ('int', gs.to_int, 'g:Int32'), ('smallint', gs.to_smallint, 'gx:Int16')) if version == 3 else ()):
        o = s.serialize(wrap(v))
        V.check(o.get('@type') == tag and '@value' in o and sx.eq(r.deserialize(o), v), 'int:forced-%s-round-trip' % name, note=repr(o)[:80])
    b = V.bool('b')
    ob = s.serialize(sx.conc_bool(b))
    V.check(r.deserialize(ob) is sx.conc_bool(b), 'bool:round-trip')


def h_text(V, version=2, maxlen=2):
    s, r = ser_des(version)
    t = V.str('t', V.choice('len', maxlen + 1))
    out = s.serialize(t)
    V.check(eqv(r.deserialize(out), t), 'text:round-trip')


def h_collections(V, maxn=2):
    s, r = ser_des(3)
    kind = V.pick('kind', ['list', 'set', 'map', 'list-of-lists'])
    n = V.choice('n', maxn + 1)
    elems = [V.int('e%d' % i, -(1 << 40), 1 << 40) for i in range(n)]
    if kind == 'list':
        val = list(elems)
        back = r.deserialize(s.serialize(val))
        V.check(eqv(back, val), 'list:round-trip')
    elif kind == 'list-of-lists':
        val = [list(elems), []]
        back = r.deserialize(s.serialize(val))
        V.check(eqv(back, val), 'nested-list:round-trip')
    elif kind == 'set':
        small = [V.int('s%d' % i, 0, 3) for i in range(n)]
        for a, b in zip(small, small[1:]):
            V.assume(a < b)
        val = set(sx.conc(x) for x in small)
        out = s.serialize(val)
        V.check(out.get('@type') == 'g:Set' and '@value' in out, 'set:typed-object-with-a-value', note=repr(out)[:80])
        V.check(set(r.deserialize(out)) == val, 'set:round-trip')
    else:
        keys = ['k%d' % i for i in range(n)]
        val = dict(zip(keys, elems))
        out = s.serialize(val)
        V.check(out.get('@type') == 'g:Map' and '@value' in out, 'map:typed-object-with-a-value', note=repr(out)[:80])
        back = r.deserialize(out)
        V.check(sorted(back.keys()) == keys and (sx.land(*[sx.eq(back[k], val[k]) for k in keys]) if keys else True), 'map:round-trip')


SCALARS = [
    ('uuid', [uuid.UUID(int=0), uuid.UUID('12345678-1234-5678-1234-56789abcdef0'), uuid.UUID(int=(1 << 128) - 1)]),
    ('decimal', [decimal.Decimal('0'), decimal.Decimal('1.10'), decimal.Decimal('-123456789012345678901234567890.5'), decimal.Decimal('1E+30')]),
    ('date', [datetime.date(1, 1, 1), datetime.date(999, 12, 31), datetime.date(1970, 1, 1), datetime.date(2024, 2, 29), datetime.date(9999, 12, 31)]),
    ('time', [datetime.time(0, 0, 0), datetime.time(23, 59, 59, 999000), datetime.time(12, 0, 0, 1000)]),
    ('instant', [datetime.datetime(1970, 1, 1), datetime.datetime(2024, 5, 17, 13, 45, 59, 123000), datetime.datetime(1969, 12, 31, 23, 59, 59, 999000)]),
    ('duration', [datetime.timedelta(0), datetime.timedelta(days=2, hours=4), datetime.timedelta(seconds=1, milliseconds=500)]),
    ('blob', [b'', b'\x00', b'\xff\xfe\x00abc']),
    ('point', [Point(0.0, 0.0), Point(1.5, -2.25)]),
    ('float', [0.0, 1.5, -2.25, 1e300]),
]


def h_scalars(V, version=2):
    s, r = ser_des(version)
    name, vals = V.pick('type', SCALARS)
    v = V.pick('value', vals) if len(vals) > 1 else vals[0]
    out = s.serialize(v)
    V.tag('type', name)
    V.check(isinstance(out, dict) and '@type' in out and '@value' in out, 'scalar:typed-object-with-a-value', note='%s %r -> %r' % (name, v, out))
    if isinstance(out, dict) and '@value' in out:
        back = r.deserialize(out)
        if name == 'blob':
            back = bytes(back)
        V.check(back == v and (type(back) is type(v) or name in ('blob', 'duration')), 'scalar:round-trip', note='%s %r -> %r -> %r' % (name, v, out, back))


G1 = [('int', 5, 'deserialize_int'), ('int', -(1 << 31), 'deserialize_int'), ('bigint', 1 << 40, 'deserialize_bigint'),
      ('text', "a'b", None), ('boolean', True, 'deserialize_boolean'),
      ('uuid', uuid.UUID('12345678-1234-5678-1234-56789abcdef0'), 'deserialize_uuid'), ('decimal', decimal.Decimal('1.10'), 'deserialize_decimal'),
      ('date', datetime.date(2024, 2, 29), 'deserialize_date'), ('time', datetime.time(12, 0, 0, 1000), 'deserialize_time'),
      ('timestamp', datetime.datetime(2024, 5, 17, 13, 45, 59, 123000), 'deserialize_timestamp'),
      ('blob', b'\xff\x00a', 'deserialize_blob'), ('point', Point(1.5, -2.25), 'deserialize_point')]


def h_graphson1(V):
    name, v, des = V.pick('case', G1)
    out = gs.GraphSON1Serializer.serialize(v)
    V.tag('type', name)
    if des is None:
        V.check(out == v, 'graphson1:text-is-itself')
        return
    back = getattr(gs.GraphSON1Deserializer, des)(out)
    if name == 'blob':
        back = bytes(back)
    V.check(back == v, 'graphson1:round-trip', note='%s %r -> %r -> %r' % (name, v, out, back))
    i = V.int('i', -(1 << 31), (1 << 31) - 1)
    V.check(sx.eq(gs.GraphSON1Deserializer.deserialize_int(gs.GraphSON1Serializer.serialize(i)), i), 'graphson1:int-round-trip')


def jobs(tier):
    big = tier != 'quick'
    J = []
    for ver in (2, 3):
        J.append(Job('int/g%d' % ver, 'h_int', dict(version=ver)))
        J.append(Job('text/g%d' % ver, 'h_text', dict(version=ver, maxlen=3 if big else 2)))
        J.append(Job('scalars/g%d' % ver, 'h_scalars', dict(version=ver)))
    J.append(Job('collections/g3', 'h_collections', dict(maxn=3 if big else 2)))
    J.append(Job('graphson1', 'h_graphson1', {}))
    return J
