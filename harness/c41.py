"""C41 — protocol version negotiation only steps down and terminates."""
import struct
import sx
from sx.run import Job
from harness import kit
kit.install_reactor()
from harness import rfworld as W
import cassandra.cluster as ccluster
import cassandra.connection as cconn
from cassandra.cluster import Cluster
from cassandra.pool import Host
from cassandra.policies import SimpleConvictionPolicy
from cassandra import ProtocolVersion, DriverException
from cassandra.connection import ProtocolVersionUnsupported
from harness.c18 import ServedEvent

META = dict(
    level='model_checking',
    level_text='the real ControlConnection._try_connect / Cluster.protocol_downgrade / ProtocolVersion.get_lower_supported / Connection.factory loop runs against a byte-level scripted server whose set of supported versions is a symbolic subset; starting version, explicit/implicit configuration and beta-rejection behaviour are symbolic choices; one step of get_lower_supported is additionally decided for an arbitrary integer version',
    level_note='the server answers in its own framing (v1/v2 8-byte or v3+ 9-byte headers) through the real frame reader; transport faked; the loop is cut once a connection is ready (registering watchers is not part of the property)',
    technique='symbolic execution (sx proxies) of the real negotiation loop over solver-enumerated server version sets + z3 validity per path',
    bounds=dict(quick='server support: every subset of {1,2,3,4,5,DSE_V1,DSE_V2} (128 sets); start: implicit default or explicit version in SUPPORTED; beta-style rejection of v5 on/off; get_lower_supported for previous_version in [-5, 200]',
                thorough='same plus V6 in the server set'),
    assumptions=['a server rejects an unsupported version with a protocol ERROR framed in the highest version it supports (or the client version if lower)'],
    stubs=['transport: harness kit', 'server: scripted'],
    outside=['TLS, authentication during negotiation'],
)

NONBETA = [66, 65, 5, 4, 3, 2, 1]


def encoded_functions():
    from cassandra.cluster import ControlConnection
    from cassandra.connection import Connection
    return [ProtocolVersion.get_lower_supported, Cluster.protocol_downgrade, ControlConnection._try_connect,
            Connection.factory, Connection._read_frame_header, Connection.process_msg]


class Connected(Exception):
    pass


class Server(object):
    def __init__(self, supported, beta5):
        self.supported = supported
        self.beta5 = beta5
        self.attempts = []        # client versions seen, in order

    def frame(self, version, stream, opcode, body):
        if version >= 3:
            return struct.pack('>BBhBi', 0x80 | version, 0, stream, opcode, len(body)) + body
        return struct.pack('>BBbBi', 0x80 | version, 0, stream, opcode, len(body)) + body

    def answer(self, conn, raw):
        v = raw.version
        if raw.opcode == 0x05:
            self.attempts.append(v)
            if len(self.attempts) > 12:
                raise RuntimeError('negotiation does not terminate: %r' % (self.attempts,))
        if v in self.supported and not (v == 5 and self.beta5):
            if raw.opcode == 0x05:
                return self.frame(v, raw.stream, 0x06, W.supported_body())
            return self.frame(v, raw.stream, 0x02, b'')
        top = max([s for s in self.supported] or [v])
        fv = min(top, v) if self.supported else min(v, 4)
        if v == 5 and self.beta5 and 5 in self.supported:
            msg = 'Beta version of the protocol used (5/v5-beta), but USE_BETA flag is unset'
            fv = 4
        else:
            msg = 'Invalid or unsupported protocol version (%d); supported versions are (%s)' % (v, ', '.join(map(str, sorted(self.supported))))
        return self.frame(fv, raw.stream if fv >= 3 or -128 <= raw.stream < 128 else 0, 0x00, W.error_body(0x000A, msg))


class HandshakeConnection(kit.FakeConnection):
    server = None

    def __init__(self, *a, **k):
        kit.FakeConnection.__init__(self, *a, **k)
        self._send_options_message()

    def push(self, data):
        raw = W.RawRequest(self.protocol_version, bytes(data))
        reply = HandshakeConnection.server.answer(self, raw)
        if reply is not None:
            self._iobuf.write(reply)
            self.process_io_buffer()

    def register_watchers(self, *a, **k):
        raise Connected(self.protocol_version)


def h_negotiate(V, with_v6=False):
    cconn.Event = ServedEvent
    ServedEvent.serve = None
    w = kit.World()
    w.auto_connect = False
    w.patch_time(ccluster, cconn)
    universe = [1, 2, 3, 4, 5, 65, 66] + ([6] if with_v6 else [])
    supported = [v for v in universe if V.flag('server_v%d' % v)]
    beta5 = V.flag('v5_rejected_as_beta') if 5 in supported else False
    explicit = V.flag('explicit')
    start = V.pick('start', NONBETA) if explicit else None
    if explicit:
        cl = Cluster(contact_points=['127.0.0.1'], protocol_version=start)
    else:
        cl = Cluster(contact_points=['127.0.0.1'])
    try:
        srv = Server(set(supported), beta5)
        HandshakeConnection.server = srv
        cl.connection_class = HandshakeConnection
        host = Host('127.0.0.1', SimpleConvictionPolicy)
        first = cl.protocol_version
        outcome = None
        try:
            cl.control_connection._try_connect(host)
            outcome = ('returned', None)
        except Connected as c:
            outcome = ('connected', c.args[0])
        except DriverException as e:
            outcome = ('gave-up', str(e))
        except Exception as e:          # noqa
            outcome = ('error', repr(e))
        tried = srv.attempts
        V.tag('tried', list(tried))
        V.tag('outcome', outcome[0])
        V.check(len(tried) <= len(NONBETA) + 1, 'negotiation-terminates', note=repr(tried))
        V.check(all(a > b for a, b in zip(tried, tried[1:])), 'versions-only-step-down', note=repr(tried))
        V.check(tried and tried[0] == first, 'first-attempt-uses-configured-version')
        usable = [v for v in supported if not (v == 5 and beta5)]
        if explicit:
            V.check(len(tried) == 1, 'explicit-version-is-never-downgraded', note=repr(tried))
            if start in usable:
                V.check(outcome == ('connected', start), 'explicit-supported-version-connects', note=repr(outcome))
            else:
                V.check(outcome[0] in ('gave-up', 'error'), 'explicit-unsupported-version-fails', note=repr(outcome))
        else:
            # expected: walk down the non-beta versions from the default until the server accepts one
            exp = []
            for v in NONBETA:
                if v > first:
                    continue
                exp.append(v)
                if v in usable:
                    break
            V.check(tried == exp, 'tries-each-lower-non-beta-version-in-turn', note='tried %r expected %r (server %r)' % (tried, exp, supported))
            if exp and exp[-1] in usable:
                V.check(outcome == ('connected', exp[-1]), 'connects-with-highest-common-version', note=repr(outcome))
                V.check(cl.protocol_version == exp[-1], 'cluster-remembers-negotiated-version')
            else:
                V.check(outcome[0] == 'gave-up', 'gives-up-with-an-error-below-the-minimum', note=repr(outcome))
    finally:
        try:
            cl.executor.shutdown(wait=False)
        except Exception:
            pass


def h_lower(V):
    p = V.int('previous_version', -5, 200)
    r = ProtocolVersion.get_lower_supported(p)
    cands = [v for v in NONBETA]
    exp = 0
    for v in sorted(cands):
        exp = sx.ite(v < p, v, exp)
    V.check(sx.eq(r, exp), 'get-lower-supported-is-next-lower-non-beta')
    V.check(sx.lor(r == 0, r < p), 'never-steps-up')
    V.check(r != ProtocolVersion.V6, 'beta-versions-skipped')


def jobs(tier):
    th = tier == 'thorough'
    o = dict(max_seconds=1500 if th else 280)
    js = [Job('lower', 'h_lower', {}, o)]
    for a in (False, True):
        for b in (False, True):
            js.append(Job('negotiate-66%s-65%s' % ('y' if a else 'n', 'y' if b else 'n'), 'h_negotiate', dict(with_v6=th),
                          dict(o, pin_flag={'server_v66': a, 'server_v65': b})))
    return js
