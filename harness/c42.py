"""C42 — node-list refreshes make cluster metadata mirror the system tables.

The real ControlConnection._refresh_node_list_and_token_map / _is_valid_peer / _update_location_info,
Cluster.add_host / remove_host and the real Metadata host table run over preloaded system.local /
system.peers results.  First a fixed baseline refresh establishes {control, p1, p2}; then a second
refresh whose rows are solver-chosen: per peer row presence, a missing or empty field, a duplicate
endpoint, a datacenter/rack change, a token change, a brand-new peer and a vanished one.  The oracle
recomputes the expected host set, the announcements, the policy notifications (with the location the
host carried at each call) and whether the token map had to be rebuilt, and with what content.
"""
import types
import warnings
import sx
from sx.run import Job

warnings.simplefilter('ignore')
sx.instrument('cassandra.cluster')
from harness import kit                       # noqa: E402
kit.install_reactor()
import cassandra.cluster as cc                # noqa: E402
from cassandra.metadata import Metadata       # noqa: E402
from cassandra.connection import DefaultEndPoint, DefaultEndPointFactory  # noqa: E402
from cassandra.policies import SimpleConvictionPolicy, IdentityTranslator  # noqa: E402

META = dict(
    level='model_checking',
    level_text='every second-refresh row set within the bounds is explored (solver-forked scenario variables: per peer present / which field is missing / duplicate / moved datacenter or rack / changed tokens, plus a new peer and a vanished peer); the resulting metadata, announcements, policy notifications and token-map rebuild are compared per path with an independent statement of the refresh rules',
    level_note='scenario space bounded (3 known peers + 1 new); the rows are concrete per path (membership logic is set/dict based); the control connection, listeners and policies are recorders; Metadata.rebuild_token_map is recorded, not executed',
    technique='symbolic execution (sx, solver-forked scenario variables) of the real cassandra.cluster.ControlConnection._refresh_node_list_and_token_map / _is_valid_peer / _update_location_info, Cluster.add_host / remove_host and cassandra.metadata.Metadata host table',
    bounds=dict(quick='baseline {control, p1, p2, p3}; second refresh: p1 row {present, absent, missing one of rpc_address/host_id/data_center/rack, empty tokens, no tokens column}, p2 row {same, other dc, other rack, other tokens, absent}, p3 vanished or not, new peer p4 {absent, valid, invalid, duplicate endpoint of p2}, local row with/without tokens, forced rebuild or not',
                thorough='same with peers_v2 style rows (native_address/native_port) as well'),
    assumptions=['a peer row is valid iff it has an address, host_id, data_center, rack and (when the tokens column was selected) non-empty tokens',
                 'the token map has to be rebuilt when membership, a location or any token list changed, or when forced / not yet built'],
    stubs=['Cluster stand-in: real add_host/remove_host bound to it, on_add/on_remove recorders, profile_manager recorder', 'Metadata.rebuild_token_map recorded'],
    outside=['the topology/status event paths (C25)', 'token map construction itself (C26)'],
)


def encoded_functions():
    C = cc.ControlConnection
    return [C._refresh_node_list_and_token_map, C._is_valid_peer, C._update_location_info, cc.Cluster.add_host, cc.Cluster.remove_host,
            Metadata.add_or_return_host, Metadata.remove_host, Metadata.get_host, Metadata.all_hosts]


class _Res(object):
    def __init__(self, rows):
        names = sorted(set(k for r in rows for k in r)) if rows else ['peer']
        self.column_names = names
        self.parsed_rows = [tuple(r.get(n) for n in names) for r in rows]


def peer_row(addr, dc='dc1', rack='r1', tokens=('1',), v2=False, **over):
    r = {'peer': addr, 'host_id': 'id-' + addr, 'data_center': dc, 'rack': rack, 'tokens': list(tokens) if tokens is not None else None,
         'release_version': '4.0', 'schema_version': 'v'}
    if v2:
        r['native_address'] = addr
        r['native_port'] = 9042
    else:
        r['rpc_address'] = addr
    r.update(over)
    return r


class World(object):
    def __init__(self):
        self.events = []
        self.meta = Metadata()
        self.rebuilds = []
        self.meta.rebuild_token_map = lambda part, tm: self.rebuilds.append((part, dict((h.endpoint.address, list(t)) for h, t in tm.items())))
        w = self

        class _Cluster(object):
            metadata = self.meta
            conviction_policy_factory = SimpleConvictionPolicy
            address_translator = IdentityTranslator()
            port = 9042
            add_host = cc.Cluster.add_host
            remove_host = cc.Cluster.remove_host

            def on_add(self_, host, refresh_nodes=True):
                w.events.append(('add', host.endpoint.address, host.datacenter, host.rack))

            def on_remove(self_, host):
                w.events.append(('remove', host.endpoint.address))

        self.cluster = _Cluster()
        self.cluster.profile_manager = types.SimpleNamespace(
            on_down=lambda h: self.events.append(('lb_down', h.endpoint.address, h.datacenter, h.rack)),
            on_up=lambda h: self.events.append(('lb_up', h.endpoint.address, h.datacenter, h.rack)))
        f = DefaultEndPointFactory(9042)
        f.cluster = self.cluster
        self.cluster.endpoint_factory = f
        self.ctl = cc.ControlConnection.__new__(cc.ControlConnection)
        self.ctl._cluster = self.cluster
        self.ctl._token_meta_enabled = True
        self.ctl._timeout = 2.0
        self.conn = types.SimpleNamespace(endpoint=DefaultEndPoint('10.0.0.1', 9042))
        self.cluster.add_host(self.conn.endpoint, signal=False)

    def refresh(self, peers, local, force=False):
        self.ctl._refresh_node_list_and_token_map(self.conn, preloaded_results=[_Res(peers), _Res(local)], force_token_rebuild=force)


def local_row(tokens=('0',), dc='dc1', rack='r1'):
    return {'cluster_name': 'c', 'partitioner': 'Murmur3Partitioner', 'tokens': list(tokens) if tokens is not None else None,
            'data_center': dc, 'rack': rack, 'host_id': 'id-local', 'rpc_address': '10.0.0.1', 'release_version': '4.0'}


P1, P2, P3, P4 = '10.0.0.2', '10.0.0.3', '10.0.0.4', '10.0.0.5'


def h_refresh(V, v2=False):
    w = World()
    base = [peer_row(P1, v2=v2), peer_row(P2, tokens=('2',), v2=v2), peer_row(P3, tokens=('3',), v2=v2)]
    w.refresh(base, [local_row()])
    w.meta.partitioner = 'Murmur3Partitioner'           # the baseline refresh built the token map
    w.events[:] = []
    w.rebuilds[:] = []
    prev_tokens = {'10.0.0.1': ['0'], P1: ['1'], P2: ['2'], P3: ['3']}
    prev_loc = dict((a, ('dc1', 'r1')) for a in prev_tokens)

    rows = []
    expect = {'10.0.0.1': (('dc1', 'r1'), None)}          # address -> (location, tokens)
    p1 = V.pick('p1_row', ['present', 'absent', 'no-address', 'no-host-id', 'no-dc', 'no-rack', 'empty-tokens', 'null-tokens'])
    if p1 != 'absent':
        over = {'no-address': dict(rpc_address=None, native_address=None, peer=None), 'no-host-id': dict(host_id=None), 'no-dc': dict(data_center=None),
                'no-rack': dict(rack=None), 'empty-tokens': dict(tokens=[]), 'null-tokens': dict(tokens=None)}.get(p1, {})
        r = peer_row(P1, v2=v2, **over)
        if p1 == 'no-address' and not v2:
            r.pop('native_address', None)
        rows.append(r)
        if p1 == 'present':
            expect[P1] = (('dc1', 'r1'), ['1'])
    p2 = V.pick('p2_row', ['same', 'other-dc', 'other-rack', 'other-tokens', 'absent'])
    if p2 != 'absent':
        dc, rack, toks = ('dc2' if p2 == 'other-dc' else 'dc1'), ('r2' if p2 == 'other-rack' else 'r1'), (['22'] if p2 == 'other-tokens' else ['2'])
        rows.append(peer_row(P2, dc=dc, rack=rack, tokens=toks, v2=v2))
        expect[P2] = ((dc, rack), toks)
    if not V.flag('p3_vanished'):
        rows.append(peer_row(P3, tokens=('3',), v2=v2))
        expect[P3] = (('dc1', 'r1'), ['3'])
    p4 = V.pick('p4_row', ['absent', 'valid', 'invalid', 'duplicate-of-p2'])
    if p4 == 'valid':
        rows.append(peer_row(P4, tokens=('4',), v2=v2))
        expect[P4] = (('dc1', 'r1'), ['4'])
    elif p4 == 'invalid':
        rows.append(peer_row(P4, tokens=('4',), v2=v2, host_id=None))
    elif p4 == 'duplicate-of-p2':
        if p2 == 'absent':
            V.assume(False)
        # a second row that resolves to p2's endpoint: the first one wins
        rows.append(peer_row(P2, tokens=('99',), v2=v2, host_id='other', peer='10.9.9.9'))
    order = V.choice('row_order', 2)
    if order and p4 != 'duplicate-of-p2':
        rows = rows[::-1]
    local_tokens = V.pick('local_tokens', [['0'], ['00'], None])
    force = V.flag('force_token_rebuild')
    expect['10.0.0.1'] = (('dc1', 'r1'), local_tokens)
    w.refresh(rows, [local_row(tokens=local_tokens)], force=force)
    V.tag('scenario', '%s/%s/%s' % (p1, p2, p4))

    got_hosts = dict((h.endpoint.address, h) for h in w.meta.all_hosts())
    V.check(set(got_hosts) == set(expect), 'hosts-are-control-plus-valid-distinct-peers', note='%r vs %r' % (sorted(got_hosts), sorted(expect)))
    for a, (loc, toks) in expect.items():
        if a in got_hosts:
            V.check((got_hosts[a].datacenter, got_hosts[a].rack) == loc, 'host-location-matches-its-row', note=a)
    adds = [e for e in w.events if e[0] == 'add']
    removes = [e for e in w.events if e[0] == 'remove']
    new = sorted(set(expect) - set(prev_tokens))
    gone = sorted(set(prev_tokens) - set(expect))
    V.check(sorted(e[1] for e in adds) == new, 'new-hosts-announced-once', note='%r vs %r' % (adds, new))
    V.check(sorted(e[1] for e in removes) == gone, 'vanished-hosts-removed-once', note='%r vs %r' % (removes, gone))
    # location changes reach the policies: down with the old location, then up with the new one
    moved = [a for a in expect if a in prev_loc and expect[a][0] != prev_loc[a]]
    lb = [e for e in w.events if e[0].startswith('lb_')]
    want_lb = []
    for a in moved:
        want_lb += [('lb_down', a) + prev_loc[a], ('lb_up', a) + expect[a][0]]
    V.check(sorted(lb) == sorted(want_lb), 'location-change-reaches-the-policies-old-then-new', note='%r vs %r' % (lb, want_lb))
    # token map
    want_map = dict((a, t) for a, (loc, t) in expect.items() if t)
    changed = bool(new or gone or moved or force or any(prev_tokens.get(a) != t for a, (loc, t) in expect.items() if a in prev_tokens))
    tokens_only = not (new or gone or moved or force) and changed
    V.tag('tokens_only_change', tokens_only)
    if changed:
        V.check(len(w.rebuilds) == 1, 'token-map-rebuilt-when-membership-or-tokens-changed', note='changed: new=%r gone=%r moved=%r' % (new, gone, moved))
    if w.rebuilds:
        V.check(w.rebuilds[-1][1] == want_map, 'token-map-content-mirrors-the-rows', note='%r vs %r' % (w.rebuilds[-1][1], want_map))
        V.check(len(w.rebuilds) == 1, 'token-map-rebuilt-at-most-once')


def jobs(tier):
    J = []
    for i in range(8):
        J.append(Job('refresh/v1/p1-%d' % i, 'h_refresh', dict(v2=False), dict(pin={'p1_row': i})))
    if tier != 'quick':
        for i in range(8):
            J.append(Job('refresh/v2/p1-%d' % i, 'h_refresh', dict(v2=True), dict(pin={'p1_row': i})))
    return J
