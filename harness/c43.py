"""C43 — schema agreement is reported only when all live nodes agree.

The real ControlConnection.wait_for_schema_agreement / _get_schema_mismatches run over a scripted
control connection: per polling round the local schema version, each peer's version, each peer's
up/down/unknown status and whether the peer is known to the metadata are solver variables, as are
the configured wait, the per-request timeout and which rounds time out.  Time is the virtual clock.
The oracle recomputes, per round actually polled, whether the versions of the control node and of
every known peer not marked down form a single version.  The second harness runs the real
ResponseFuture over a SCHEMA_CHANGE result and checks the verdict recorded on the future.
"""
import types
import warnings
import sx
from sx.run import Job

warnings.simplefilter('ignore')
sx.instrument('cassandra.cluster')
from harness import kit                       # noqa: E402
kit.install_reactor()
from harness.rfworld import RFWorld           # noqa: E402
import cassandra.cluster as cc                # noqa: E402
from cassandra import OperationTimedOut       # noqa: E402
from cassandra.connection import ConnectionShutdown  # noqa: E402
from cassandra.protocol import ResultMessage, RESULT_KIND_SCHEMA_CHANGE  # noqa: E402

META = dict(
    level='model_checking',
    level_text='every polling history within the bounds is explored: per round the schema versions, peer status (up/down/unknown), peer known/unknown, request time-outs, and the configured wait are solver variables; the verdict of the real wait_for_schema_agreement is compared per path with the independent definition of agreement over the rounds it actually polled',
    level_note='at most 2 (thorough 3) distinct polling rounds, 2 peers, versions from {missing, A, B}; virtual clock (1 ms per clock read, sleep advances it); the control connection and the metadata are scripted stand-ins',
    technique='symbolic execution (sx, solver-forked scenario variables) of the real cassandra.cluster.ControlConnection.wait_for_schema_agreement / _get_schema_mismatches and ResponseFuture._set_result / refresh_schema_and_set_result over a scripted connection and a virtual clock',
    bounds=dict(quick='2 peers (one of any status up/down/unknown and known/unknown, one known and up), local version {missing, A, no row}, peer versions {missing, A, B}, waits {0, 0.3, 10} s, request timeout 0.2 s, up to 2 rounds of answers (then repeating the last), any round may time out',
                thorough='3 rounds, waits {0, 0.3, 0.5, 10}, request timeout {0.2, 2}'),
    assumptions=['agreement = the non-missing versions of the control node and of every peer that the metadata knows and has not marked down form exactly one version',
                 'a wait of 0 or less disables the check (documented)'],
    stubs=['control connection: wait_for_responses answers from the scripted rounds or raises OperationTimedOut after the request timeout', 'Cluster: endpoint_factory / metadata.get_host / max_schema_agreement_wait stand-ins', 'virtual clock for ControlConnection._time'],
    outside=['the metadata refresh itself', 'more than one concurrent waiter'],
)


def encoded_functions():
    return [cc.ControlConnection.wait_for_schema_agreement, cc.ControlConnection._get_schema_mismatches,
            cc.refresh_schema_and_set_result, cc.ResponseFuture._set_result]


VERSIONS = [None, 'A', 'B']
STATUS = [True, False, None]


class _Res(object):
    def __init__(self, names, rows):
        self.column_names = names
        self.parsed_rows = rows


class _Clock(object):
    def __init__(self):
        self.now = 1000.0

    def time(self):
        self.now += 0.001
        return self.now

    def sleep(self, s):
        self.now += s


class _Conn(object):
    endpoint = 'control'

    def __init__(self, clock, rounds, timeouts):
        self.clock = clock
        self.rounds = rounds
        self.timeouts = timeouts
        self.polled = []          # index of the round answered at each successful poll
        self.calls = 0
        self.timeouts_passed = []

    def wait_for_responses(self, *msgs, **kw):
        i = self.calls
        self.calls += 1
        self.timeouts_passed.append(kw.get('timeout'))
        if self.calls > 60:
            raise RuntimeError('polling does not stop')
        if i < len(self.timeouts) and self.timeouts[i]:
            self.clock.now += kw.get('timeout') or 0
            raise OperationTimedOut()
        r = self.rounds[min(i, len(self.rounds) - 1)]
        self.polled.append(min(i, len(self.rounds) - 1))
        local_v, peers = r
        peers_res = _Res(['peer', 'schema_version'], [('p%d' % k, v) for k, (v, _, _) in enumerate(peers)])
        local_res = _Res(['schema_version'], [(local_v,)] if local_v != 'norow' else [])
        return peers_res, local_res


def agreed(round_):
    local_v, peers = round_
    vs = set()
    if local_v not in (None, 'norow'):
        vs.add(local_v)
    for v, status, known in peers:
        if v is not None and known and status is not False:
            vs.add(v)
    return len(vs) == 1


def h_wait(V, npeers=2, nrounds=3, big=False):
    clock = _Clock()
    n = V.choice('rounds', nrounds) + 1
    rounds = []
    # peer status / known-ness is a property of the host, constant over the wait
    # (the last peer is always a known, up host: keeps the scenario count down)
    hosts = [(V.pick('status%d' % k, STATUS), V.flag('known%d' % k)) if k < npeers - 1 else (True, True) for k in range(npeers)]
    for r in range(n):
        lv = V.pick('local%d' % r, [None, 'A', 'norow'])
        peers = [(V.pick('peer%d_%d' % (r, k), VERSIONS), hosts[k][0], hosts[k][1]) for k in range(npeers)]
        rounds.append((lv, peers))
    timeouts = [V.flag('timeout%d' % r) for r in range(n)]
    wait = V.pick('max_wait', [0, 0.3, 0.5, 10])
    req_timeout = V.pick('request_timeout', [0.2, 2.0] if big else [0.2])
    use_arg = V.flag('wait_time_argument')

    meta_hosts = {}
    for k, (status, known) in enumerate(hosts):
        if known:
            meta_hosts['p%d' % k] = types.SimpleNamespace(is_up=status)
    cluster = types.SimpleNamespace(
        max_schema_agreement_wait=(99 if use_arg else wait),
        endpoint_factory=types.SimpleNamespace(create=lambda row: row.get('peer')),
        metadata=types.SimpleNamespace(get_host=lambda ep: meta_hosts.get(ep)))
    ctl = cc.ControlConnection.__new__(cc.ControlConnection)
    ctl._cluster = cluster
    ctl._timeout = req_timeout
    ctl._time = clock
    ctl._is_shutdown = False
    import threading
    ctl._schema_agreement_lock = threading.Lock()
    ctl._uses_peers_v2 = True
    conn = _Conn(clock, rounds, timeouts)
    ctl._connection = conn
    t0 = clock.now
    got = ctl.wait_for_schema_agreement(wait_time=wait) if use_arg else ctl.wait_for_schema_agreement()
    elapsed = clock.now - t0
    V.tag('verdict', got)
    V.tag('polled', list(conn.polled))
    if wait <= 0:
        V.check(got is True and conn.calls == 0, 'disabled-wait-reports-agreement-without-polling')
        return
    polled = [rounds[i] for i in conn.polled]
    if got is True:
        V.check(bool(polled) and agreed(polled[-1]), 'agreement-reported-only-when-the-last-poll-agreed', note=repr(polled[-1:]))
        V.check(not any(agreed(r) for r in polled[:-1]), 'polling-stops-at-the-first-agreement')
    else:
        V.check(got is False, 'verdict-is-a-boolean', note=repr(got))
        V.check(not any(agreed(r) for r in polled), 'disagreement-reported-only-when-no-poll-agreed', note=repr(polled))
        V.check(elapsed >= wait - 1e-9, 'keeps-polling-until-the-wait-elapses', note='gave up after %.3f s of %s' % (elapsed, wait))
    # every request carried a timeout no longer than what was left of the wait
    V.check(all(t is not None and t <= min(req_timeout, wait) + 1e-9 for t in conn.timeouts_passed), 'request-timeouts-bounded-by-the-remaining-wait')
    V.check(elapsed <= wait + req_timeout + 0.5, 'wait-is-bounded', note='%.3f' % elapsed)


def h_result(V):
    """a schema-changing request's result records whether agreement was reached"""
    world = RFWorld(V, n_hosts=1)
    outcome = V.pick('refresh', ['agreed', 'not-agreed', 'raises'])
    calls = []

    def _refresh_schema(connection, **kw):
        calls.append(kw)
        if outcome == 'raises':
            raise ConnectionShutdown('control connection closed')
        return outcome == 'agreed'

    world.cluster.control_connection = types.SimpleNamespace(_connection=None, _refresh_schema=_refresh_schema,
                                                             refresh_schema=lambda **kw: calls.append(('resubmitted', kw)))
    rf = world.new_future(1)
    rf.send_request()
    c, stream, tag, m = world.pending()[0]
    r = ResultMessage(RESULT_KIND_SCHEMA_CHANGE)
    r.schema_change_event = {'target_type': 'KEYSPACE', 'change_type': 'CREATED', 'keyspace': 'ks'}
    world.respond(c, stream, r)
    before = rf.is_schema_agreed
    V.check(before is False or rf._final_result is not cc._NOT_SET if hasattr(cc, '_NOT_SET') else before is False,
            'not-agreed-while-the-refresh-is-pending')
    world.executor.run_all(5)
    V.tag('outcome', outcome)
    V.check(rf.is_schema_agreed == (outcome == 'agreed'), 'result-records-whether-agreement-was-reached',
            note='refresh %s, future says %r' % (outcome, rf.is_schema_agreed))
    V.check(len(rf.results) + len(rf.errors_seen) == 1, 'future-completes-once')


def jobs(tier):
    big = tier != 'quick'
    J = []
    for w in ((0, 1, 3) if not big else (0, 1, 2, 3)):
        for arg in (False, True):
            J.append(Job('wait/w%d/%s' % (w, 'argument' if arg else 'cluster-default'), 'h_wait',
                         dict(npeers=2, nrounds=3 if big else 2, big=big),
                         dict(pin={'max_wait': w}, pin_flag={'wait_time_argument': arg}, max_paths=600000)))
    J.append(Job('result', 'h_result', {}))
    return J
