"""C44 — heartbeats detect dead idle connections without leaking capacity."""
import sx
from sx.run import Job
from harness import kit
from harness import rfworld as W
from harness.rfworld import RFWorld
import cassandra.connection as cconn
from cassandra.connection import ConnectionHeartbeat
from harness.c18 import ServedEvent

META = dict(
    level='model_checking',
    level_text='two consecutive rounds of the real ConnectionHeartbeat.run loop body over 1-3 holders (pools and the control connection) whose connections are idle / busy / defunct / closed and whose node answers, answers with an error, or stays silent; load (in_flight against the request capacity) is symbolic; every combination is a forked symbolic choice decided by z3',
    level_note='the heartbeat thread loop is driven round by round (its sleeps are virtual); the answer to a heartbeat arrives while the heartbeat thread waits for it; transport faked, OPTIONS/SUPPORTED go through the real codec',
    technique='symbolic execution (sx proxies, LIA) of the real heartbeat round over solver-enumerated connection states and outcomes + z3 validity per path',
    bounds=dict(quick='1..3 holders x 1..2 connections, 2 rounds, states {idle, busy, defunct, closed}, outcomes {SUPPORTED, error reply, silence}, in_flight of the first connection in {0, symbolic mid-range, at capacity}; with 3 holders the control connection starts idle',
                thorough='same with 3 rounds'),
    assumptions=['a reply to a heartbeat arrives (or not) before the heartbeat timeout'],
    stubs=['transport/timers: harness kit', 'threading.Event: virtual', 'holders: recorders with get_connections/return_connection'],
    outside=['real thread timing of the heartbeat thread'],
)


def encoded_functions():
    return [ConnectionHeartbeat.run, cconn.HeartbeatFuture.__init__, cconn.HeartbeatFuture.wait,
            cconn.HeartbeatFuture._options_callback]


class Holder(object):
    shutdown_on_error = False

    def __init__(self, name, conns, control=False):
        self.name = name
        self.conns = conns
        self.returned = []
        self.control = control
        for c in conns:
            c.is_control_connection = control
            c.owner_name = name

    def get_connections(self):
        return list(self.conns)

    def return_connection(self, conn):
        self.returned.append(conn)


class Rounds(object):
    """stands in for the heartbeat thread's shutdown event: `n` rounds, no real sleeping"""

    def __init__(self, n):
        self.n = n
        self.started = 0

    def is_set(self):
        return self.started >= self.n

    def wait(self, t=None):
        self.started += 1
        return False


STATES = ['idle', 'busy', 'defunct', 'closed']
OUTCOMES = ['supported', 'error', 'silence']


def h_rounds(V, nholders=2, rounds=2):
    cconn.Event = ServedEvent
    world = RFWorld(V, n_hosts=1, protocol_version=4, make_pools=False)
    w = world.w
    holders = []
    conns = []
    for hi in range(nholders):
        nc = V.choice('conns%d' % hi, 2) + 1 if hi == 0 else 1
        cs = []
        for ci in range(nc):
            c = kit.FakeConnection('10.0.%d.%d' % (hi, ci), protocol_version=4)
            cs.append(c)
            conns.append(c)
        holders.append(Holder('holder%d' % hi, cs, control=(hi == nholders - 1 and nholders > 1)))
    state = {}
    for c in conns:
        st = STATES[V.choice('state%d' % c.idx, len(STATES))]
        state[c.idx] = st
        load = V.pick('load%d' % c.idx, ['none', 'some', 'full']) if st in ('idle', 'busy') and c.idx == 0 else 'none'
        if load == 'some':
            W.set_id_state(c, [0, 1, 2], V.int('highest%d' % c.idx, 2, 32766), c.max_request_id)
        elif load == 'full':
            W.set_id_state(c, [0], c.max_request_id, c.max_request_id)
            c.in_flight = c.max_request_id
        if st == 'busy':
            c.msg_received = True
        elif st == 'defunct':
            c.defunct(OSError('dead'))
        elif st == 'closed':
            c.close()
        V.tag('state%d' % c.idx, '%s/%s' % (st, load))
    hb = ConnectionHeartbeat.__new__(ConnectionHeartbeat)
    hb._interval = 30
    hb._timeout = 5
    hb._get_connection_holders = lambda: holders
    ctl = Rounds(1)
    hb._shutdown_event = ctl
    outcomes = {}

    def serve():
        pend = [p for p in world.pending() if getattr(p[3], 'opcode', None) == 0x05]
        progressed = False
        for (c, stream, tag, msg) in pend:
            key = (c.idx, ctl.total)
            if key not in outcomes:
                outcomes[key] = OUTCOMES[V.choice('outcome%d_r%d' % (c.idx, ctl.total), len(OUTCOMES))]
            oc = outcomes[key]
            if oc == 'supported':
                world.respond(c, stream, ('RAW', 0x06, W.supported_body()))
                progressed = True
            elif oc == 'error':
                world.respond(c, stream, ('RAW', 0x00, W.error_body(0x0000, 'server error')))
                progressed = True
            else:
                world.server.outstanding[c].pop(stream, None)     # never answered
        return progressed
    ServedEvent.serve = serve
    ctl.total = 0
    for r in range(rounds):
        ctl.total = r
        ctl.started = 0          # run() sleeps once, does one round, sleeps, sees the stop flag
        ctl.n = 2
        if r > 0:
            # nothing but heartbeats happened since the previous round: every live connection is idle again
            for c in conns:
                if not (c.is_defunct or c.is_closed):
                    V.check(not c.msg_received, 'idle-connection-is-heartbeated-every-interval',
                            note='connection #%d counts as busy in round %d although it only saw the heartbeat reply' % (c.idx, r))
        before = {c.idx: (c.in_flight, c.is_defunct or c.is_closed, c.msg_received) for c in conns}
        nsent = len(world.server.received)
        ret_before = {h.name: len(h.returned) for h in holders}
        hb.run()
        sent_to = [cidx for (cidx, tag, stream, msg) in world.server.received[nsent:]]
        for h in holders:
            for c in h.conns:
                inf0, dead0, traffic0 = before[c.idx]
                oc = outcomes.get((c.idx, r))
                returned = h.returned[ret_before[h.name]:].count(c)
                others = sum(o.returned[ret_before[o.name]:].count(c) for o in holders if o is not h)
                V.check(others == 0, 'only-the-owner-is-notified', note='connection #%d of %s' % (c.idx, h.name))
                V.check(c.in_flight >= 0, 'in-flight-never-negative')
                if dead0:
                    V.check(c.idx not in sent_to, 'no-heartbeat-on-dead-connection')
                    V.check(returned >= 1, 'owner-sees-dead-connection')
                    continue
                if traffic0:
                    V.check(c.idx not in sent_to, 'busy-connection-gets-no-heartbeat')
                    V.check(not c.msg_received, 'busy-connection-idle-flag-reset')
                    V.check(sx.eq(c.in_flight, inf0), 'capacity-unchanged-without-heartbeat')
                    continue
                at_capacity = sx.conc_bool(inf0 >= c.max_request_id)
                if at_capacity:
                    V.check(c.idx not in sent_to, 'no-heartbeat-beyond-capacity')
                    V.check(c.is_defunct and returned >= 1, 'unsendable-heartbeat-fails-the-connection')
                    continue
                V.check(sent_to.count(c.idx) == 1, 'idle-connection-gets-one-heartbeat-per-round', note='round %d connection #%d: %d sent' % (r, c.idx, sent_to.count(c.idx)))
                if oc == 'supported':
                    V.check(not c.is_defunct, 'answered-heartbeat-keeps-connection')
                    V.check(sx.eq(c.in_flight, inf0), 'successful-heartbeat-restores-capacity', note='round %d' % r)
                    V.check(returned == 0, 'owner-not-bothered-on-success')
                elif oc in ('error', 'silence'):
                    V.check(c.is_defunct, 'failed-heartbeat-defuncts-connection', note='%s on connection #%d (control=%s)' % (oc, c.idx, h.control))
                    V.check(returned >= 1, 'failed-heartbeat-notifies-owner', note='%s on connection #%d of %s' % (oc, c.idx, h.name))
                    if not h.control:
                        V.check(h.shutdown_on_error, 'owning-pool-told-to-shut-down-on-error')
        # between rounds: no other traffic on idle connections (answers to heartbeats are not application traffic)
    V.tag('outcomes', sorted((str(k), v) for k, v in outcomes.items()))


def jobs(tier):
    th = tier == 'thorough'
    o = dict(arith='int', max_seconds=1500 if th else 280)
    js = []
    for nh in (1, 2, 3):
        for s0 in range(4):
            pin = {'state0': s0}
            if nh == 3 and not th:
                pin['state2'] = 0          # third holder (control connection): idle
                pin['conns0'] = 0
            js.append(Job('holders%d-s%d' % (nh, s0), 'h_rounds', dict(nholders=nh, rounds=3 if th and nh < 3 else 2), dict(o, pin=pin)))
    return js
