"""C45 — shutdown releases every connection and stops accepting work.

Three parts, each running the real methods on stand-ins that expose what those methods read:
(a) control connection: the real ControlConnection._reconnect / _reconnect_internal / _try_connect /
_set_new_connection / shutdown with a scripted control connection; shutdown() may be called by
another thread at every environment call-out of the connect sequence (the blocking connection
factory, register_watchers, the peers/local queries, the metadata refresh) - a solver flag per
call-out; afterwards every connection the control connection opened must be closed.
(b) session: the real Session.shutdown / submit / add_or_renew_pool / update_created_pools on a
running cluster: after session.shutdown() a node-up event must not open a pool, and every pool is
shut down.  (c) cluster: the real Cluster.shutdown / connect ordering and idempotence.
The pool level (connections of HostConnection / HostConnectionPool, replacements that finish
connecting after shutdown) is C12.
"""
import threading
import types
import warnings
import sx
from sx.run import Job

warnings.simplefilter('ignore')
sx.instrument('cassandra.cluster')
from harness import kit                       # noqa: E402
kit.install_reactor()
from harness import c42                       # noqa: E402   (rows and the cluster stand-in for the node-list refresh)
import cassandra.cluster as cc                # noqa: E402
from cassandra import DriverException         # noqa: E402
from cassandra.connection import DefaultEndPoint  # noqa: E402
from cassandra.pool import Host               # noqa: E402
from cassandra.policies import SimpleConvictionPolicy, RoundRobinPolicy, HostDistance  # noqa: E402

META = dict(
    level='model_checking',
    level_text='every placement of a concurrent shutdown() at the environment call-outs of the control connection\'s connect sequence, and every order of session shutdown / node-up event / cluster shutdown within the bounds, is explored (solver-forked flags) through the real methods; per path the obligation is that every connection opened is closed, that nothing new is opened or scheduled after shutdown, and that shutdown is idempotent and ordered',
    level_note='stand-in Cluster/Session objects expose exactly what the real methods read; pre-emption at environment call-outs (blocking factory, connection requests, metadata refresh) and, in job control-race, a Cluster.shutdown() by another thread at any acquire/release of the two locks of the control connection (with every host of the plan refusing as one of the cases, so that the retry-scheduling branch is reached); not inside lock-free regions of driver code; pools themselves are C12',
    technique='symbolic execution (sx, solver-forked scheduler flags) of the real cassandra.cluster.ControlConnection._reconnect/_try_connect/_set_new_connection/shutdown, Session.shutdown/submit/add_or_renew_pool and Cluster.shutdown over scripted connections and recorders',
    bounds=dict(quick='control connection: 1..2 hosts in the plan (first may fail to connect), shutdown possible at each of 5 call-outs of the connect sequence or not at all, control-connection or cluster shutdown; session: shutdown before/after a node-up event, 2 hosts, shutdown at a sync point of the pool-creation task, two overlapping pool-creation tasks for one host, a node-down event (remove_pool) with shutdown() at its log call; cluster: 0..2 sessions, shutdown twice; connect() on a set-up cluster with shutdown() at a sync point of connect or afterwards',
                thorough='same, plus control-race2: two Cluster.shutdown() calls by other threads at sync points (concurrent shutdowns)'),
    assumptions=['another thread calls shutdown() only while the connecting thread is inside an environment call (factory, request round trip, metadata refresh)'],
    stubs=['connection_factory: scripted control connections (register_watchers / wait_for_responses / close recorded)', 'Cluster and Session stand-ins; executor runs submitted tasks inline or records them'],
    outside=['HostConnection internals (C12)', 'shutdown racing inside lock-free regions', 'the idle heartbeat thread'],
)


def encoded_functions():
    C = cc.ControlConnection
    return [C._reconnect, C._reconnect_internal, C._try_connect, C._set_new_connection, C.shutdown, C.reconnect, C._submit,
            cc.Session.shutdown, cc.Session.submit, cc.Session.add_or_renew_pool, cc.Session.remove_pool, cc.Session.update_created_pools, cc.Cluster.shutdown, cc.Cluster.connect, cc.Cluster._new_session]


# ---- (a) control connection ------------------------------------------------------------------------
class CtlConn(object):
    def __init__(self, world, endpoint, idx):
        self.w, self.endpoint, self.idx = world, endpoint, idx
        self.is_closed = False
        self._product_type = None

    def close(self):
        self.is_closed = True

    def register_watchers(self, watchers, register_timeout=None):
        self.w.callout('register')

    def wait_for_responses(self, *msgs, **kw):
        self.w.callout('queries')
        peers = c42._Res([c42.peer_row(c42.P1)])
        local = c42._Res([c42.local_row()])
        if kw.get('fail_on_error', True):
            return peers, local
        return (True, peers), (True, local)


class CtlWorld(object):
    def __init__(self, V, race=False, budget=1):
        self.V = V
        self.sched_down = False
        self.attempts_after_shutdown = 0
        base = c42.World()
        self.cluster = base.cluster
        self.meta = base.meta
        self.conns = []
        self.shutdown_at = None
        self.callouts = 0
        cl = self.cluster
        cl.is_shutdown = False
        cl.protocol_version = 4
        cl._protocol_version_explicit = True
        cl._config_mode = cc._ConfigMode.PROFILES
        cl._default_load_balancing_policy = types.SimpleNamespace(make_query_plan=lambda: list(self.plan))
        cl.connection_factory = self.factory
        cl.executor = types.SimpleNamespace(submit=lambda fn, *a, **k: fn(*a, **k))
        # cassandra.cluster._Scheduler ignores what is scheduled after its shutdown()
        cl.scheduler = types.SimpleNamespace(schedule=lambda *a, **k: None if self.sched_down else self.scheduled.append(a), shutdown=lambda: None)
        cl.reconnection_policy = types.SimpleNamespace(new_schedule=lambda: iter([1.0, 2.0]))
        self.scheduled = []
        self.meta.refresh = lambda *a, **k: self.callout('schema-refresh')
        self.ctl = base.ctl
        ctl = self.ctl
        ctl._connection = None
        ctl._is_shutdown = False
        ctl._lock = threading.RLock()
        ctl._reconnection_lock = threading.RLock()
        ctl._reconnection_handler = None
        ctl._schema_agreement_lock = threading.Lock()
        ctl._schema_meta_enabled = True
        ctl._uses_peers_v2 = True
        ctl._event_schedule_times = {}
        ctl._time = types.SimpleNamespace(time=lambda: 0.0, sleep=lambda s: None)
        cl.control_connection = ctl
        self.via_cluster = True if race else V.flag('shutdown_via_cluster')
        self.fail_first = V.flag('first_host_refuses')
        self.fail_all = race and self.fail_first and V.flag('every_host_refuses')
        hosts = [Host(DefaultEndPoint('10.0.0.%d' % (i + 1), 9042), SimpleConvictionPolicy) for i in range(2)]
        self.plan = hosts if self.fail_first else hosts[:1]
        if race:
            # sync-point pre-emption: Cluster.shutdown() by another thread at any acquire/release of the control
            # connection's locks reached while the connecting thread holds none of them
            def act(*a):
                self.shutdown_at = 'sync:%s' % '/'.join(str(x) for x in pre.log[-1])
                self.do_shutdown()
            pre = kit.Preempter(V, None, act, only_unlocked=True, budget=budget, enabled=lambda: budget > 1 or (self.shutdown_at is None and not ctl._is_shutdown))
            ctl._lock = kit.SchedLock('ctl._lock', pre)
            ctl._reconnection_lock = kit.SchedLock('ctl._reconnection_lock', pre)
            self.race = True
        else:
            self.race = False

    def do_shutdown(self):
        if self.via_cluster:
            # Cluster.shutdown(): flag, scheduler.shutdown(), control_connection.shutdown()
            self.cluster.is_shutdown = True
            self.sched_down = True
        self.ctl.shutdown()

    def callout(self, what):
        """an environment call made by the connecting thread: another thread may shut down now"""
        self.callouts += 1
        if not self.race and self.shutdown_at is None and not self.ctl._is_shutdown and self.V.flag('shutdown_during_%s_%d' % (what, self.callouts)):
            self.shutdown_at = what
            self.do_shutdown()

    def factory(self, endpoint, *a, **k):
        if self.ctl._is_shutdown:
            self.attempts_after_shutdown += 1
        self.callout('connect')
        if self.fail_all:
            raise OSError('connection refused')
        if self.fail_first and not self.conns and endpoint.address == '10.0.0.1' and not getattr(self, '_refused', False):
            self._refused = True
            raise OSError('connection refused')
        c = CtlConn(self, endpoint, len(self.conns))
        self.conns.append(c)
        return c


def h_control(V, race=False, budget=1):
    w = CtlWorld(V, race=race, budget=budget)
    try:
        w.ctl._reconnect()
        outcome = 'connected' if not w.fail_all else 'retry-scheduled'
    except DriverException:
        outcome = 'aborted'
    except cc.NoHostAvailable:
        outcome = 'no-host'
    late = False
    if w.shutdown_at is None and V.flag('shutdown_afterwards'):
        late = True
        w.do_shutdown()
    V.tag('shutdown_at', w.shutdown_at or ('after' if late else 'never'))
    V.tag('outcome', outcome)
    V.check(w.attempts_after_shutdown == 0, 'control:no-connection-attempt-started-after-shutdown',
            note='%d attempts (shutdown at %r)' % (w.attempts_after_shutdown, w.shutdown_at))
    if w.ctl._is_shutdown:
        # a reconnection that was scheduled and not cancelled would run later
        # (a shut-down scheduler runs nothing any more)
        live_handlers = [] if w.sched_down else [a for a in w.scheduled if not getattr(getattr(a[1], '__self__', None), '_cancelled', False)]
        V.check(not live_handlers, 'control:no-reconnection-left-scheduled-after-shutdown', note='%d scheduled (shutdown at %r)' % (len(live_handlers), w.shutdown_at))
        for c in w.conns:
            V.check(c.is_closed, 'control:every-connection-closed-after-shutdown',
                    note='connection #%d (opened %s shutdown at %r) left open' % (c.idx, 'before/around', w.shutdown_at))
        V.check(w.ctl._connection is None or w.ctl._connection.is_closed, 'control:no-live-connection-kept-after-shutdown')
        before = len(w.conns)
        w.ctl.reconnect()
        V.check(len(w.conns) == before, 'control:no-reconnect-after-shutdown')
    else:
        live = [c for c in w.conns if not c.is_closed]
        V.check(len(live) == (1 if outcome == 'connected' else 0), 'control:exactly-one-live-connection-when-running', note='%d live' % len(live))
        if outcome == 'retry-scheduled':
            V.check(len(w.scheduled) == 1, 'control:failed-reconnect-schedules-one-retry-when-running', note='%d scheduled' % len(w.scheduled))
        V.check(outcome != 'connected' or w.ctl._connection is live[0], 'control:the-live-connection-is-the-current-one')


# ---- (b) session ------------------------------------------------------------------------------------
class _Pool(object):
    _keyspace = None

    def __init__(self, host, distance, session):
        self.host, self.is_shutdown = host, False
        session._opened.append(self)

    def shutdown(self):
        self.is_shutdown = True


def h_session(V):
    hosts = [Host(DefaultEndPoint('10.0.0.%d' % (i + 1), 9042), SimpleConvictionPolicy) for i in range(2)]
    for h in hosts:
        h.set_up()
    tasks = []
    cluster = types.SimpleNamespace(
        is_shutdown=False, executor=types.SimpleNamespace(submit=lambda fn, *a, **k: tasks.append((fn, a, k)) or _Done()),
        profile_manager=types.SimpleNamespace(distance=lambda h: HostDistance.LOCAL),
        metadata=types.SimpleNamespace(all_hosts=lambda: list(hosts)), signal_connection_failure=lambda *a, **k: False,
        _default_load_balancing_policy=RoundRobinPolicy(), protocol_version=4)
    s = cc.Session.__new__(cc.Session)
    s.cluster = cluster
    s._lock = threading.RLock()
    s._pools = {}
    s.is_shutdown = False
    s._initial_connect_futures = set()
    s._monitor_reporter = None
    s._opened = []
    s._protocol_version = 4
    s.keyspace = None
    s._profile_manager = cluster.profile_manager
    orig = cc.HostConnection
    cc.HostConnection = _Pool
    try:
        order = V.pick('order', ['event-then-shutdown', 'shutdown-then-event', 'shutdown-while-task-queued', 'shutdown-at-a-sync-point-of-the-task',
                                 'two-pool-tasks-for-one-host', 'node-down-with-shutdown-at-a-call-out'])
        def run_tasks():
            while tasks:
                fn, a, k = tasks.pop(0)
                fn(*a, **k)
        if order == 'event-then-shutdown':
            s.add_or_renew_pool(hosts[0], False)
            run_tasks()
            s.shutdown()
        elif order == 'shutdown-then-event':
            s.add_or_renew_pool(hosts[0], False)
            run_tasks()
            s.shutdown()
            opened = len(s._opened)
            which = V.pick('event', ['add_or_renew_pool', 'update_created_pools'])
            if which == 'add_or_renew_pool':
                s.add_or_renew_pool(hosts[1], False)
            else:
                s.update_created_pools()
            run_tasks()
            V.check(len(s._opened) == opened, 'session:no-pool-opened-after-shutdown', note='%s opened %d pool(s) after shutdown' % (which, len(s._opened) - opened))
        elif order == 'shutdown-while-task-queued':
            s.add_or_renew_pool(hosts[0], False)     # queued on the executor
            s.shutdown()
            run_tasks()
        elif order == 'node-down-with-shutdown-at-a-call-out':
            # the node goes down (Session.on_down -> remove_pool) while another thread calls shutdown() at one of
            # remove_pool's calls into the environment (its log call)
            s.add_or_renew_pool(hosts[0], False)
            run_tasks()
            ncall = [0]

            class _Log(object):
                def __getattr__(self, name):
                    def call(*a, **k):
                        ncall[0] += 1
                        if not s.is_shutdown and V.flag('shutdown_at_log_call_%d' % ncall[0]):
                            s.shutdown()
                    return call
            real_log = cc.log
            cc.log = _Log()
            try:
                s.remove_pool(hosts[0])
            finally:
                cc.log = real_log
            run_tasks()
            s.shutdown()
        elif order == 'two-pool-tasks-for-one-host':
            # two pool-creation tasks for the same host are queued (a node-up event and update_created_pools after another
            # host came up); the executor has more than one thread: the second task runs at a sync point of the first
            s.add_or_renew_pool(hosts[0], False)
            s.add_or_renew_pool(hosts[0], False)

            def second_task(*a):
                fn, a_, k_ = tasks.pop(0)
                fn(*a_, **k_)
            pre = kit.Preempter(V, ('run_add_or_renew_pool',), second_task, enabled=lambda: bool(tasks))
            s._lock = kit.SchedLock('session._lock', pre)
            run_tasks()
            live = [p for p in s._opened if not p.is_shutdown]
            V.check(len(live) == 1 and s._pools.get(hosts[0]) is live[0], 'session:one-live-pool-per-host-and-it-is-the-registered-one',
                    note='%d live pools for the host' % len(live))
            s.shutdown()
        else:
            # another thread calls shutdown() at an acquire/release of the session lock inside the pool-creation task
            pre = kit.Preempter(V, ('run_add_or_renew_pool', 'add_or_renew_pool'), lambda *a: s.shutdown())
            s._lock = kit.SchedLock('session._lock', pre)
            s.add_or_renew_pool(hosts[0], False)
            run_tasks()
            s.shutdown()
    finally:
        cc.HostConnection = orig
    V.tag('order', order)
    V.check(s.is_shutdown, 'session:marked-shutdown')
    for p in s._opened:
        V.check(p.is_shutdown, 'session:every-pool-shut-down', note='pool for %s left running' % p.host)
    s.shutdown()         # idempotent
    V.check(cc.Session.submit(s, lambda: None) is None, 'session:no-work-accepted-after-shutdown')


class _Done(object):
    def result(self, timeout=None):
        return True

    def cancel(self):
        return False

    def done(self):
        return True


# ---- (c) cluster -------------------------------------------------------------------------------------
class _Sess(object):
    def __init__(self, log, i):
        self.log, self.i = log, i

    def shutdown(self):
        self.log.append('session%d' % self.i)


def h_cluster(V):
    log = []
    n = V.choice('sessions', 3)
    sessions = [_Sess(log, i) for i in range(n)]
    cl = cc.Cluster.__new__(cc.Cluster)
    cl._lock = threading.RLock()
    cl.is_shutdown = False
    cl._idle_heartbeat = types.SimpleNamespace(stop=lambda: log.append('heartbeat')) if V.flag('heartbeat') else None
    cl.scheduler = types.SimpleNamespace(shutdown=lambda: log.append('scheduler'))
    cl.control_connection = types.SimpleNamespace(shutdown=lambda: log.append('control'))
    cl.sessions = set(sessions)
    cl.executor = types.SimpleNamespace(shutdown=lambda: log.append('executor'))
    cl.shutdown()
    V.check(cl.is_shutdown, 'cluster:marked-shutdown')
    V.check(log.count('control') == 1 and log.count('scheduler') == 1 and log.count('executor') == 1, 'cluster:control-scheduler-executor-stopped-once', note=repr(log))
    V.check(sorted(x for x in log if x.startswith('session')) == ['session%d' % i for i in range(n)], 'cluster:every-session-shut-down', note=repr(log))
    V.check(log.index('scheduler') < log.index('executor') and log.index('control') < log.index('executor'), 'cluster:executor-stopped-last')
    before = list(log)
    cl.shutdown()
    V.check(log == before, 'cluster:shutdown-is-idempotent')
    try:
        cl.connect()
        V.check(False, 'cluster:connect-refused-after-shutdown')
    except DriverException:
        V.check(True, 'cluster:connect-refused-after-shutdown')


class _Sess2(object):
    made = []

    def __init__(self, cluster, hosts, keyspace=None):
        self.cluster, self.is_shutdown = cluster, False
        _Sess2.made.append(self)

    def shutdown(self):
        self.is_shutdown = True


def h_connect_race(V):
    """Cluster.connect() on a cluster that is already set up, while another thread calls Cluster.shutdown() at an
    acquire/release of the cluster lock inside connect(): whatever session connect() creates must end up shut down"""
    log = []
    cl = cc.Cluster.__new__(cc.Cluster)
    cl.is_shutdown = False
    cl._is_setup = True
    cl._idle_heartbeat = None
    cl._user_types = {}
    cl.metadata = types.SimpleNamespace(all_hosts=lambda: [], dbaas=False)
    cl.scheduler = types.SimpleNamespace(shutdown=lambda: log.append('scheduler'))
    cl.control_connection = types.SimpleNamespace(shutdown=lambda: log.append('control'))
    cl.sessions = set()
    cl.executor = types.SimpleNamespace(shutdown=lambda: log.append('executor'))
    _Sess2.made = []
    when = V.pick('shutdown', ['at-a-sync-point-of-connect', 'afterwards'])
    pre = kit.Preempter(V, ('connect',), lambda *a: cl.shutdown(), enabled=lambda: when == 'at-a-sync-point-of-connect' and not cl.is_shutdown)
    cl._lock = kit.SchedLock('cluster._lock', pre)
    orig = cc.Session
    cc.Session = _Sess2
    try:
        try:
            session = cl.connect()
            outcome = 'session'
        except DriverException:
            session = None
            outcome = 'refused'
    finally:
        cc.Session = orig
    if not cl.is_shutdown:
        V.check(outcome == 'session' and not session.is_shutdown, 'cluster:connect-returns-a-live-session-when-running')
        cl.shutdown()
    V.tag('outcome', outcome)
    V.tag('preempted', '/'.join('%s:%s' % (x[1], x[2]) for x in pre.log))
    for i, sess in enumerate(_Sess2.made):
        V.check(sess.is_shutdown, 'cluster:every-session-shut-down', note='the session created by a connect() that overlapped shutdown() (%s) is left running' % outcome)
    if outcome == 'session' and pre.log:
        V.check(session.is_shutdown, 'cluster:session-returned-after-shutdown-is-shut-down')


def jobs(tier):
    if tier == 'thorough':
        # two pre-emptions: a second thread calls Cluster.shutdown() as well (concurrent shutdowns)
        return [Job('control', 'h_control', {}), Job('control-race', 'h_control', dict(race=True)), Job('control-race2', 'h_control', dict(race=True, budget=2)),
                Job('session', 'h_session', {}), Job('cluster', 'h_cluster', {}), Job('connect-race', 'h_connect_race', {})]
    return [Job('control', 'h_control', {}), Job('control-race', 'h_control', dict(race=True)), Job('session', 'h_session', {}), Job('cluster', 'h_cluster', {}), Job('connect-race', 'h_connect_race', {})]
