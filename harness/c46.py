"""C46 — per-statement options override profile and session defaults.

The real Session._create_response_future (and BoundStatement.__init__ / PreparedStatement.bind for
the inheritance of prepared-statement options) runs on a stand-in session whose configuration mode,
defaults and execution profile are built per path; the consistency levels, fetch sizes and timeouts
are symbolic integers, and whether the statement / the prepared statement carries each option of its
own is a solver-forked flag.  The oracle is the precedence rule: statement (or, for a bound statement,
what it inherited from its prepared statement unless overridden), else profile (legacy mode: session).
The values are read off the request message and the ResponseFuture that would be sent; their
encoding into the frame is decided by C03.
"""
import types
import warnings
import sx
from sx.run import Job

warnings.simplefilter('ignore')
sx.instrument('cassandra.cluster', 'cassandra.query')
from harness import kit                       # noqa: E402
kit.install_reactor()
import cassandra.cluster as cc                # noqa: E402
from cassandra import query as cq             # noqa: E402
from cassandra.policies import RetryPolicy, FallthroughRetryPolicy, ConstantSpeculativeExecutionPolicy, RoundRobinPolicy  # noqa: E402
from cassandra.protocol import QueryMessage, ExecuteMessage, BatchMessage  # noqa: E402
from cassandra.encoder import Encoder        # noqa: E402

META = dict(
    level='model_checking',
    level_text='every combination of configuration mode, statement kind and which options the statement (and its prepared statement) carries is explored as solver-forked flags, with the consistency levels, fetch sizes and timeouts symbolic; z3 proves per path that the request message and the ResponseFuture carry the statement\'s own value when it has one and the profile\'s (legacy: the session\'s) otherwise',
    level_note='the session, cluster and profile manager are stand-ins exposing exactly the attributes _create_response_future reads; the encoding of the chosen values into the frame is C03\'s claim; z3 trusted',
    technique='symbolic execution (sx proxies over the real cassandra.cluster.Session._create_response_future, ResponseFuture.__init__, BoundStatement.__init__, PreparedStatement.bind) + z3 validity queries per path',
    bounds=dict(quick='modes {legacy, profiles (default profile / named profile / profile object)}; statements {simple, bound from prepared, batch}; protocol versions {1,2,4}; consistency 0..10 symbolic (0 = ANY), serial in {unset, SERIAL, LOCAL_SERIAL}, fetch size 1..2^31 symbolic, timeouts 0..100 symbolic; idempotent or not',
                thorough='same, protocol versions {1,2,3,4,5}'),
    assumptions=[],
    stubs=['Session / Cluster / profile manager stand-ins (attribute bags)', 'integer clock for cassandra.cluster.time', 'connection_class.create_timer recorder'],
    outside=['graph statements', 'continuous paging options', 'the wire encoding (C03)'],
)


def encoded_functions():
    return [cc.Session._create_response_future, cc.Session._maybe_get_execution_profile, cc.Session.get_execution_profile,
            cc.ResponseFuture.__init__, cq.BoundStatement.__init__, cq.PreparedStatement.bind, cq.Statement.__init__]


SERIALS = [None, 8, 9]


class _Timer(object):
    def __init__(self, t, cb):
        self.t, self.cb = t, cb

    def cancel(self):
        pass


def make_session(V, pv):
    legacy = V.flag('legacy_mode')
    lb_default, lb_profile = RoundRobinPolicy(), RoundRobinPolicy()
    retry_default, retry_profile = RetryPolicy(), FallthroughRetryPolicy()
    spec = ConstantSpeculativeExecutionPolicy(0.1, 2)
    prof = cc.ExecutionProfile(load_balancing_policy=lb_profile, retry_policy=retry_profile,
                               consistency_level=V.int('profile_cl', 0, 10), serial_consistency_level=(None if legacy else V.pick('profile_serial', SERIALS)),
                               request_timeout=V.int('profile_timeout', 1, 100), row_factory=cq.tuple_factory,
                               speculative_execution_policy=spec)
    profiles = {cc.EXEC_PROFILE_DEFAULT: prof, 'named': prof}
    cluster = types.SimpleNamespace(
        _config_mode=cc._ConfigMode.LEGACY if legacy else cc._ConfigMode.PROFILES,
        default_retry_policy=retry_default, load_balancing_policy=lb_default, _default_load_balancing_policy=lb_default,
        timestamp_generator=lambda: 12345, allow_beta_protocol_version=False,
        profile_manager=types.SimpleNamespace(profiles=profiles),
        connection_class=types.SimpleNamespace(create_timer=lambda t, cb: _Timer(t, cb)))
    sess = types.SimpleNamespace(
        cluster=cluster, default_timeout=V.int('session_timeout', 1, 100), default_consistency_level=V.int('session_cl', 0, 10),
        default_serial_consistency_level=(V.pick('session_serial', SERIALS) if legacy else None), row_factory=cq.named_tuple_factory,
        _protocol_version=pv, default_fetch_size=V.int('session_fetch_size', 1, (1 << 31) - 1), use_client_timestamp=True,
        encoder=Encoder(), _metrics=None, keyspace='ks')
    sess._maybe_get_execution_profile = lambda ep: cc.Session._maybe_get_execution_profile(sess, ep)
    sess.get_execution_profile = lambda name: cc.Session.get_execution_profile(sess, name)
    return sess, legacy, prof, dict(lb=(lb_default, lb_profile), retry=(retry_default, retry_profile), spec=spec)


def opt(V, name, make):
    """(value or None) depending on a solver flag"""
    return make() if V.flag('has_' + name) else None


def h_options(V, versions=(1, 2, 4)):
    cc.time = types.SimpleNamespace(time=lambda: 1000, sleep=lambda s: None)      # integer clock: timeouts are symbolic ints
    kind = V.pick('statement', ['simple', 'bound', 'batch'])
    pv = V.pick('protocol_version', list(versions) if kind == 'simple' else [v for v in versions if v != 3][-2:] if kind == 'bound' else [versions[0], versions[-1]])
    sess, legacy, prof, pol = make_session(V, pv)
    idem = V.flag('idempotent') if kind == 'simple' else True
    own_retry = FallthroughRetryPolicy()
    # which of statement / prepared statement carries each option (prepared only matters for bound statements)
    srcs = ['none', 'stmt'] if kind != 'bound' else ['none', 'stmt', 'prep', 'both']
    src_cl, src_serial = V.pick('cl_source', srcs), V.pick('serial_source', srcs)
    src_fetch, src_retry = V.pick('fetch_source', srcs[:3]), V.pick('retry_source', srcs[:3])
    s_cl = V.int('stmt_cl', 0, 10) if src_cl in ('stmt', 'both') else None
    s_serial = 8 if src_serial in ('stmt', 'both') else None
    s_fetch = V.int('stmt_fetch', 1, (1 << 31) - 1) if src_fetch == 'stmt' else None
    s_retry = own_retry if src_retry == 'stmt' else None
    kw = dict(consistency_level=s_cl, serial_consistency_level=s_serial, retry_policy=s_retry, is_idempotent=idem)
    if s_fetch is not None:
        kw['fetch_size'] = s_fetch
    exp = dict(cl=s_cl, serial=s_serial, fetch=s_fetch, retry=s_retry)
    if kind == 'simple':
        q = cq.SimpleStatement('SELECT 1', **kw)
    elif kind == 'batch':
        kw.pop('fetch_size', None)
        kw.pop('is_idempotent')
        q = cq.BatchStatement(**kw)
        q.is_idempotent = idem
        exp['fetch'] = 'n/a'
    else:
        # the prepared statement's own options are inherited by the bound statement
        ps = cq.PreparedStatement([], b'id', None, 'q', 'ks', pv, None, None)
        p_cl = V.int('prep_cl', 0, 10) if src_cl in ('prep', 'both') else None
        p_serial = 9 if src_serial in ('prep', 'both') else None
        p_fetch = V.int('prep_fetch', 1, (1 << 31) - 1) if src_fetch == 'prep' else None
        p_retry_obj = RetryPolicy()
        p_retry = p_retry_obj if src_retry == 'prep' else None
        ps.consistency_level, ps.serial_consistency_level, ps.retry_policy, ps.is_idempotent = p_cl, p_serial, p_retry, idem
        if p_fetch is not None:
            ps.fetch_size = p_fetch
        if V.flag('bound_directly'):
            bkw = dict(kw)
            bkw.pop('is_idempotent')
            q = cq.BoundStatement(ps, **bkw)
            q.bind([])
        else:
            q = ps                           # Session.execute(prepared, params): bound inside
            exp = dict(cl=None, serial=None, fetch=None, retry=None)
        exp = dict(cl=exp['cl'] if exp['cl'] is not None else p_cl, serial=exp['serial'] if exp['serial'] is not None else p_serial,
                   fetch=exp['fetch'] if exp['fetch'] is not None else p_fetch, retry=exp['retry'] if exp['retry'] is not None else p_retry)
    timeout_given = V.flag('timeout_argument')
    timeout = V.int('timeout', 0, 100) if timeout_given else cc._NOT_SET
    ep = cc.EXEC_PROFILE_DEFAULT if legacy else V.pick('execution_profile', [cc.EXEC_PROFILE_DEFAULT, 'named', prof] if kind == 'simple' else [cc.EXEC_PROFILE_DEFAULT, 'named'])
    V.tag('shape', '%s/%s/v%d' % ('legacy' if legacy else 'profiles', kind, pv))
    if kind == 'batch' and pv < 2:
        try:
            cc.Session._create_response_future(sess, q, None, False, None, timeout, ep)
            V.check(False, 'batch-needs-protocol-2')
        except cc.UnsupportedOperation:
            V.check(True, 'batch-needs-protocol-2')
        return
    rf = cc.Session._create_response_future(sess, q, [] if kind == 'bound' else None, False, None, timeout, ep)
    m = rf.message
    d_cl = sess.default_consistency_level if legacy else prof.consistency_level
    d_serial = sess.default_serial_consistency_level if legacy else prof.serial_consistency_level
    V.check(isinstance(m, {'simple': QueryMessage, 'bound': ExecuteMessage, 'batch': BatchMessage}[kind]), 'message-kind')
    V.check(sx.eq(m.consistency_level, exp['cl'] if exp['cl'] is not None else d_cl), 'consistency-level:statement-else-default',
            note='statement %r' % (exp['cl'],))
    want_serial = exp['serial'] if exp['serial'] is not None else d_serial
    V.check(m.serial_consistency_level == want_serial, 'serial-consistency-level:statement-else-default',
            note='sent %r, expected %r' % (m.serial_consistency_level, want_serial))
    if kind != 'batch':
        if pv == 1:
            V.check(m.fetch_size is None, 'fetch-size:none-on-protocol-1')
        else:
            V.check(sx.eq(m.fetch_size, exp['fetch'] if exp['fetch'] is not None else sess.default_fetch_size), 'fetch-size:statement-else-session')
    V.check(sx.eq(rf.timeout, timeout if timeout_given else (sess.default_timeout if legacy else prof.request_timeout)), 'timeout:argument-else-default')
    want_retry = exp['retry'] if exp['retry'] is not None else (pol['retry'][0] if legacy else pol['retry'][1])
    V.check(rf._retry_policy is want_retry, 'retry-policy:statement-else-default')
    V.check(rf.row_factory is (cq.named_tuple_factory if legacy else cq.tuple_factory), 'row-factory:profile-or-session')
    V.check(rf._load_balancer is (pol['lb'][0] if legacy else pol['lb'][1]), 'load-balancing-policy:profile-or-cluster')
    speculative = not isinstance(rf._spec_execution_plan, type(cc.NoSpeculativeExecutionPlan())) if hasattr(cc, 'NoSpeculativeExecutionPlan') else None
    if speculative is not None:
        V.check(speculative == (idem and not legacy), 'speculative-execution:only-idempotent-statements-under-a-profile-policy',
                note='idempotent=%r legacy=%r speculative=%r' % (idem, legacy, speculative))
    if pv >= 3:
        V.check(m.timestamp == 12345, 'client-timestamp-attached')


def jobs(tier):
    versions = (1, 2, 4) if tier == 'quick' else (1, 2, 3, 4, 5)
    J = []
    for k in range(3):
        for legacy in (False, True):
            J.append(Job('%s/%s' % (['simple', 'bound', 'batch'][k], 'legacy' if legacy else 'profiles'), 'h_options', dict(versions=versions),
                         dict(pin={'statement': k}, pin_flag={'legacy_mode': legacy}, max_paths=400000)))
    return J
