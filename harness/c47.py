"""C47 — a connection is usable only after a successful handshake."""
import struct
from collections import OrderedDict
import sx
from sx.run import Job
from harness import kit
from harness import rfworld as W
from harness.rfworld import RFWorld, RawRequest
import cassandra.connection as cconn
from cassandra.connection import Connection, ConnectionException, ConnectionShutdown
from cassandra import ProtocolVersion, AuthenticationFailed
from cassandra.auth import PlainTextAuthenticator

META = dict(
    level='model_checking',
    level_text='every bounded sequence of server replies to the real handshake handlers (through the real frame codec), crossed with authenticator kind, compression setting, locally / remotely supported algorithms and protocol version; each combination is a forked symbolic choice decided by z3',
    level_note='replies are delivered to Connection.process_msg as real frame bodies; compressors are stub codecs; transport faked; the connect timeout path of Connection.factory is exercised with the virtual clock',
    technique='symbolic execution (sx proxies) of the real handshake state machine over solver-enumerated reply sequences and configurations + z3 validity per path',
    bounds=dict(quick='reply sequences of <= 4 from {SUPPORTED, READY, AUTHENTICATE, AUTH_CHALLENGE, AUTH_SUCCESS, ERROR, disconnect}; authenticator {none, SASL, v1 credentials}; compression {True, False, lz4, snappy}; local algorithms subset of {lz4, snappy}; remote subset of {lz4, snappy}; protocol versions {1, 4, 5, DSE_V2}',
                thorough='same with sequences of <= 6 and versions {1,2,3,4,5,6,DSE_V1,DSE_V2}'),
    assumptions=['the server sends well-formed frames'],
    stubs=['transport: harness kit', 'compression codecs: stubs'],
    outside=['TLS', 'real LZ4/snappy'],
)

REPLIES = ['SUPPORTED', 'READY', 'AUTHENTICATE', 'AUTH_CHALLENGE', 'AUTH_SUCCESS', 'ERROR', 'DISCONNECT']


def encoded_functions():
    return [Connection._send_options_message, Connection._handle_options_response, Connection._send_startup_message,
            Connection._handle_startup_response, Connection._handle_auth_response, Connection._enable_compression,
            Connection._enable_checksumming, Connection.factory]


def _string(s):
    b = s.encode()
    return struct.pack('>H', len(b)) + b


def _bytes(b):
    return struct.pack('>i', len(b)) + b


def _reply(kind, remote_comp):
    if kind == 'SUPPORTED':
        return 0x06, W.supported_body({'COMPRESSION': list(remote_comp)})
    if kind == 'READY':
        return 0x02, b''
    if kind == 'AUTHENTICATE':
        return 0x03, _string('org.apache.cassandra.auth.PasswordAuthenticator')
    if kind == 'AUTH_CHALLENGE':
        return 0x0E, _bytes(b'challenge')
    if kind == 'AUTH_SUCCESS':
        return 0x10, _bytes(b'ok')
    if kind == 'ERROR':
        return 0x00, W.error_body(0x0100, 'bad credentials')
    raise ValueError(kind)


def _startup_options(raw):
    """string map of a STARTUP body"""
    b = raw.body
    n = struct.unpack('>H', b[:2])[0]
    p = 2
    out = {}
    for _ in range(n):
        l = struct.unpack('>H', b[p:p + 2])[0]
        k = b[p + 2:p + 2 + l].decode()
        p += 2 + l
        l = struct.unpack('>H', b[p:p + 2])[0]
        v = b[p + 2:p + 2 + l].decode()
        p += 2 + l
        out[k] = v
    return out


def h_handshake(V, steps=4, versions=(1, 4, 5, ProtocolVersion.DSE_V2)):
    pv = V.pick('protocol_version', list(versions))
    comp_setting = V.pick('compression', [True, False, 'lz4', 'snappy'])
    local = [a for a in ('lz4', 'snappy') if V.flag('local_' + a)]
    remote = [a for a in ('lz4', 'snappy') if V.flag('remote_' + a)]
    auth_kind = V.pick('authenticator', ['none', 'sasl', 'credentials'])
    codecs = OrderedDict()
    for a in local:
        codecs[a] = ((lambda d, a=a: b'C' + a.encode() + d), (lambda d, a=a: d[1 + len(a):]))
    old = cconn.locally_supported_compressions
    old_seg = cconn.segment_codec_lz4
    cconn.locally_supported_compressions = codecs
    # the v5 segment codec for lz4 exists exactly when lz4 is installed locally
    from cassandra.segment import SegmentCodec
    cconn.segment_codec_lz4 = SegmentCodec(lambda d: b'\x00\x00\x00\x00' + d, lambda d: d[4:]) if 'lz4' in local else None
    try:
        world = RFWorld(V, n_hosts=1, protocol_version=pv, make_pools=False)
        world.w.auto_connect = False
        authn = None
        if auth_kind == 'sasl':
            authn = PlainTextAuthenticator('u', 'p')
        elif auth_kind == 'credentials':
            authn = {'username': 'u', 'password': 'p'}
        conn = kit.FakeConnection('10.0.0.1', protocol_version=pv, compression=comp_setting, authenticator=authn)
        conn._send_options_message()
        seen = []
        sent_auth = [False]
        accepted = [False]
        negotiated = [None]
        auth_failed = [False]
        for step in range(steps):
            if conn.is_defunct or conn.is_closed or conn.connected_event.is_set():
                break
            pend = world.pending()
            if not pend:
                break
            kind = REPLIES[V.choice('reply%d' % step, len(REPLIES))]
            seen.append(kind)
            c, stream, tag, req = pend[0]
            # what the client had sent that this reply answers
            answered = req.opcode
            if kind == 'AUTHENTICATE' and answered == 0x01 and auth_kind == 'none':
                auth_failed[0] = True
            if kind == 'ERROR' and answered in (0x04, 0x0F):
                auth_failed[0] = True
            if kind == 'DISCONNECT':
                conn.close()
                break
            opcode, body = _reply(kind, remote)
            world.respond(c, stream, ('RAW', opcode, body))
            # --- checks after each reply
            for raw in [r[3] for r in world.server.received]:
                if raw.opcode == 0x01:       # STARTUP
                    opts = _startup_options(raw)
                    V.check(raw.flags & 0x01 == 0, 'startup-frame-is-not-compressed')
                    if 'COMPRESSION' in opts:
                        negotiated[0] = opts['COMPRESSION']
                        V.check(opts['COMPRESSION'] in local and opts['COMPRESSION'] in remote, 'negotiated-compression-supported-by-both-sides',
                                note='%r local %r remote %r' % (opts['COMPRESSION'], local, remote))
                        if isinstance(comp_setting, str):
                            V.check(opts['COMPRESSION'] == comp_setting, 'explicit-compression-choice-respected')
                        V.check(comp_setting is not False, 'no-compression-when-disabled')
                if raw.opcode in (0x04, 0x0F):
                    sent_auth[0] = True
            got_startup_ok = any(k in ('READY', 'AUTHENTICATE') for k in seen) and any(r[3].opcode == 0x01 for r in world.server.received)
            if not got_startup_ok:
                V.check(conn.compressor is None, 'no-compression-before-startup-is-accepted', note='replies %r' % (seen,))
                V.check(not conn._is_checksumming_enabled, 'no-checksumming-before-startup-is-accepted')
        V.tag('replies', seen)
        ready = conn.connected_event.is_set() and conn.last_error is None and not conn.is_defunct and not conn.is_closed
        if ready:
            V.check('READY' in seen or 'AUTH_SUCCESS' in seen, 'ready-only-after-READY-or-AUTH_SUCCESS', note=repr(seen))
            V.check(conn._is_checksumming_enabled == ProtocolVersion.has_checksumming_support(pv), 'checksumming-exactly-for-v5',
                    note='version %r' % pv)
            if negotiated[0] and not ProtocolVersion.has_checksumming_support(pv):
                V.check(conn.compressor is codecs[negotiated[0]][0], 'negotiated-compressor-applied-once-ready')
            if not negotiated[0]:
                V.check(conn.compressor is None, 'no-compressor-without-negotiation',
                        note='STARTUP carried no COMPRESSION option but compressor is set (local %r remote %r setting %r)' % (local, remote, comp_setting))
            # the next frame is encoded the way the server expects
            n0 = len(conn.sent)
            with conn.lock:
                conn.in_flight += 1
                rid = conn.get_request_id()
            from cassandra.protocol import OptionsMessage
            conn.send_msg(OptionsMessage(), rid, lambda r: None)
            V.check(len(conn.sent) == n0 + 1, 'ready-connection-accepts-requests')
        if conn.last_error is not None:
            err = conn.last_error
            # authentication failure: the server demanded authentication we cannot provide, or rejected what we sent
            if auth_failed[0]:
                V.check(isinstance(err, AuthenticationFailed), 'authentication-failure-is-an-authentication-error', note='%r after %r' % (err, seen))
            else:
                V.check(not isinstance(err, AuthenticationFailed), 'other-failures-are-not-authentication-errors', note='%r after %r' % (err, seen))
            V.check(conn.is_defunct, 'failed-handshake-defuncts-the-connection')
            V.check(conn.connected_event.is_set(), 'failed-handshake-wakes-the-connecting-thread')
        if 'DISCONNECT' in seen:
            V.check(conn.connected_event.is_set(), 'failed-handshake-wakes-the-connecting-thread')
    finally:
        cconn.locally_supported_compressions = old
        cconn.segment_codec_lz4 = old_seg


def jobs(tier):
    th = tier == 'thorough'
    vs = (1, 2, 3, 4, 5, 6, ProtocolVersion.DSE_V1, ProtocolVersion.DSE_V2) if th else (1, 4, 5, ProtocolVersion.DSE_V2)
    o = dict(max_seconds=2400 if th else 280)
    js = []
    for vi in range(len(vs)):
        for a in range(3):
            js.append(Job('v%d-auth%d' % (vs[vi], a), 'h_handshake', dict(steps=6 if th else 4, versions=vs),
                          dict(o, pin={'protocol_version': vi, 'authenticator': a})))
    return js
