"""Codec harnesses shared by C01 (round trip) and C02 (byte-exactness against an
independent specification encoder).  The real cassandra/marshal.py,
cqltypes.py and util.py are re-compiled from /repo through the instrumenter;
values are symbolic over their full documented ranges."""
import struct
import uuid as _uuid
import decimal as _decimal
import sx
from sx.run import Job

sx.instrument('cassandra.marshal', 'cassandra.cqltypes', 'cassandra.util')
from cassandra import cqltypes as ct
from cassandra import util, marshal

VERSIONS = [1, 2, 3, 4, 5, 6, 65, 66]


def encoded_functions():
    return [marshal.varint_pack, marshal.varint_unpack, marshal.vints_pack, marshal.vints_unpack, marshal.uvint_pack,
            marshal.uvint_unpack, marshal.encode_zig_zag, marshal.decode_zig_zag,
            ct._CassandraType.to_binary, ct._CassandraType.from_binary,
            ct._SimpleParameterizedType.serialize_safe, ct._SimpleParameterizedType.deserialize_safe,
            ct.MapType.serialize_safe, ct.MapType.deserialize_safe, ct.TupleType.serialize_safe, ct.TupleType.deserialize_safe,
            ct.UserType.serialize_safe, ct.UserType.deserialize_safe, ct.VectorType.serialize, ct.VectorType.deserialize,
            ct.DecimalType.serialize, ct.DecimalType.deserialize, ct.SimpleDateType.serialize, ct.SimpleDateType.deserialize,
            ct.TimeType.serialize, ct.TimeType.deserialize, ct.DurationType.serialize, ct.DurationType.deserialize,
            ct.DateType.serialize, ct.DateType.deserialize, ct.UTF8Type.serialize, ct.UTF8Type.deserialize,
            ct.BooleanType.serialize, ct.BooleanType.deserialize, ct.UUIDType.serialize, ct.UUIDType.deserialize]


# ---------------------------------------------------------------- specification encoders
def be(v, n):
    """n-byte big-endian two's complement of v (list of byte items)"""
    return [(v >> (8 * (n - 1 - i))) & 0xff for i in range(n)]


def spec_varint_len(n):
    """length of Java BigInteger.toByteArray(n): bitLength()/8 + 1"""
    m = sx.ite(n < 0, -n - 1, n)          # bitLength of a negative n is that of ~n
    ln = 1
    for k in range(1, 40):
        ln = sx.ite(m >= (1 << (8 * k - 1)), k + 1, ln)
    return ln


def spec_vint(v):
    """Cassandra VIntCoding.writeUnsignedVInt of the zig-zag encoding of a signed 64-bit value"""
    z = ((v << 1) ^ (v >> 63)) & ((1 << 64) - 1)
    return spec_uvint(z)


def spec_uvint(z):
    """bytes of an unsigned vint (z concrete length decided by forking on magnitude)"""
    if sx.conc_bool(z < 128):
        return [z]
    extra = 1
    while extra < 8 and sx.conc_bool(z >= (1 << (7 * (extra + 1)))):
        extra += 1
    if extra == 8:
        return [0xff] + be(z, 8)
    first = (0xff << (8 - extra)) & 0xff
    body = be(z, extra + 1)
    return [first | body[0]] + body[1:]


# ---------------------------------------------------------------- leaf harnesses
def _both(V, prop, label, cond, note=''):
    V.check(cond, '%s:%s' % (prop, label), note=note)


FIXED = {'tinyint': (ct.ByteType, 1), 'smallint': (ct.ShortType, 2), 'int': (ct.Int32Type, 4),
         'bigint': (ct.LongType, 8), 'counter': (ct.CounterColumnType, 8)}


def h_fixed_int(V, prop='C01', typ='int'):
    T, n = FIXED[typ]
    pv = V.pick('protocol_version', VERSIONS)
    lo, hi = -(1 << (8 * n - 1)), (1 << (8 * n - 1)) - 1
    v = V.int('value', lo, hi)
    b = T.to_binary(v, pv)
    _both(V, 'C02', 'fixed-width-big-endian', sx.beq(b, sx.cat(be(v, n))))
    _both(V, 'C01', 'round-trip', sx.eq(T.from_binary(b, pv), v))
    # one past either bound raises instead of wrapping
    out = V.pick('out_of_range', [lo - 1, hi + 1, lo - (1 << 70), hi + (1 << 70)])
    try:
        T.to_binary(out, pv)
        _both(V, 'C02', 'out-of-range-raises', False, note='%s accepted %d' % (typ, out))
    except (struct.error, OverflowError):
        _both(V, 'C02', 'out-of-range-raises', True)
    # any n bytes Cassandra may send decode to the value they denote
    raw = V.bytes('wire', n)
    got = T.from_binary(raw, pv)
    want = 0
    for x in raw:
        want = (want << 8) | x
    want = (want ^ (1 << (8 * n - 1))) - (1 << (8 * n - 1))
    _both(V, 'C02', 'decodes-cassandra-bytes', sx.eq(got, want))


def h_varint(V, prop='C01', bits=71):
    v = V.int('value', -(1 << bits), (1 << bits))
    pv = 4
    b = ct.IntegerType.to_binary(v, pv)
    n = len(b)
    V.tag('length', n)
    _both(V, 'C02', 'varint-is-minimal-twos-complement', sx.eq(spec_varint_len(v), n), note='%d bytes' % n)
    _both(V, 'C02', 'varint-bytes', sx.beq(b, sx.cat(be(v, n))))
    _both(V, 'C01', 'round-trip', sx.eq(ct.IntegerType.from_binary(b, pv), v))


def h_varint_decode(V, prop='C02', n=3):
    """every byte string (also non-minimal ones Cassandra never sends) decodes to its two's complement value"""
    raw = V.bytes('wire', n)
    got = ct.IntegerType.from_binary(raw, 4)
    want = 0
    for x in raw:
        want = (want << 8) | x
    want = (want ^ (1 << (8 * n - 1))) - (1 << (8 * n - 1))
    _both(V, 'C02', 'decodes-cassandra-bytes', sx.eq(got, want))


class FakeDecimal(object):
    """a Decimal given by (sign, digits, exponent); digits / exponent may be symbolic"""

    def __init__(self, sign, digits, exponent):
        self.sign, self.digits, self.exponent = sign, tuple(digits), exponent

    def as_tuple(self):
        return (self.sign, self.digits, self.exponent)


class ParsedDecimal(object):
    def __init__(self, unscaled, exponent):
        self.unscaled, self.exponent = unscaled, exponent


def _decimal_model(arg=None, *a, **k):
    """model of Decimal('<int>e<int>') for a symbolic string"""
    from sx.symstr import SymStr, LazyStr, force, parse_int, mkstr
    if isinstance(arg, LazyStr) and arg.__dict__.get('fmt') == '%de%d':
        # Decimal('%de%d' % (u, e)) denotes unscaled value u and exponent e (C library semantics, see assumptions)
        u, e = arg.__dict__['args']
        return ParsedDecimal(u, e)
    arg = force(arg)
    if not isinstance(arg, SymStr):
        return NotImplemented
    cps = list(arg.c)
    pos = [i for i, c in enumerate(cps) if not hasattr(c, 'n') and c == 101]
    if len(pos) != 1:
        raise sx_inconclusive('Decimal() of a symbolic string without a single literal e')
    i = pos[0]
    return ParsedDecimal(parse_int(SymStr(cps[:i]), 10), parse_int(SymStr(cps[i + 1:]), 10))


def sx_inconclusive(msg):
    from sx.core import Inconclusive
    return Inconclusive(msg)


def h_decimal(V, prop='C01', ndigits=2):
    sign = 1 if V.flag('negative') else 0
    digits = [V.int('digit%d' % i, 0, 9) for i in range(ndigits)]
    V.assume(digits[0] != 0) if ndigits > 1 else None
    exponent = V.int('exponent', -(1 << 31) + 1, (1 << 31) - 1)
    if V.symbolic:
        from sx import hooks
        hooks.register(_decimal.Decimal, _decimal_model)
        dec = FakeDecimal(sign, digits, exponent)
    else:
        dec = _decimal.Decimal((sign, tuple(digits), exponent))
    b = ct.DecimalType.to_binary(dec, 4)
    unscaled = 0
    for d in digits:
        unscaled = unscaled * 10 + d
    if sign:
        unscaled = -unscaled
    n = len(b) - 4
    _both(V, 'C02', 'decimal-is-scale-then-unscaled-varint', sx.beq(b, sx.cat(be(-exponent, 4), be(unscaled, n))))
    _both(V, 'C02', 'varint-is-minimal-twos-complement', sx.eq(spec_varint_len(unscaled), n))
    back = ct.DecimalType.from_binary(b, 4)
    if V.symbolic:
        _both(V, 'C01', 'round-trip', sx.land(sx.eq(back.unscaled, unscaled), sx.eq(back.exponent, exponent)))
    else:
        _both(V, 'C01', 'round-trip', back == dec and back.as_tuple().exponent == exponent or (unscaled == 0 and back == dec))


def h_duration(V, prop='C01'):
    m = V.int('months', -(1 << 31), (1 << 31) - 1)
    d = V.int('days', -(1 << 31), (1 << 31) - 1)
    n = V.int('nanoseconds', -(1 << 63), (1 << 63) - 1)
    dur = util.Duration(m, d, n)
    b = ct.DurationType.to_binary(dur, 5)
    _both(V, 'C02', 'duration-is-three-zigzag-vints', sx.beq(b, sx.cat(spec_vint(m), spec_vint(d), spec_vint(n))))
    back = ct.DurationType.from_binary(b, 5)
    _both(V, 'C01', 'round-trip', sx.land(sx.eq(back.months, m), sx.eq(back.days, d), sx.eq(back.nanoseconds, n)))


def h_date(V, prop='C01'):
    days = V.int('days', -(1 << 31), (1 << 31) - 1)
    val = util.Date(days)
    b = ct.SimpleDateType.to_binary(val, 4)
    _both(V, 'C02', 'date-is-uint32-with-2^31-offset', sx.beq(b, sx.cat(be(days + (1 << 31), 4))))
    back = ct.SimpleDateType.from_binary(b, 4)
    _both(V, 'C01', 'round-trip', sx.eq(back.days_from_epoch, days))
    raw = V.bytes('wire', 4)
    got = ct.SimpleDateType.from_binary(raw, 4)
    u = 0
    for x in raw:
        u = (u << 8) | x
    _both(V, 'C02', 'decodes-cassandra-bytes', sx.eq(got.days_from_epoch, u - (1 << 31)))


def h_time(V, prop='C01'):
    nanos = V.int('nanoseconds', 0, 86400 * 10 ** 9 - 1)
    val = util.Time(nanos)
    b = ct.TimeType.to_binary(val, 4)
    _both(V, 'C02', 'time-is-int64-nanoseconds', sx.beq(b, sx.cat(be(nanos, 8))))
    back = ct.TimeType.from_binary(b, 4)
    _both(V, 'C01', 'round-trip', sx.eq(back.nanosecond_time, nanos))
    bad = V.pick('out_of_range', [-1, 86400 * 10 ** 9, 1 << 63])
    try:
        ct.TimeType.to_binary(util.Time(bad), 4)
        _both(V, 'C02', 'out-of-range-raises', False, note='time %d accepted' % bad)
    except (ValueError, struct.error, OverflowError):
        _both(V, 'C02', 'out-of-range-raises', True)


def h_timestamp_encode(V, prop='C01'):
    """integer millisecond timestamps (the number path of DateType.serialize)"""
    ms = V.int('milliseconds', -(1 << 63), (1 << 63) - 1)
    b = ct.DateType.to_binary(ms, 4)
    _both(V, 'C02', 'timestamp-is-int64-milliseconds', sx.beq(b, sx.cat(be(ms, 8))))


def h_bool(V, prop='C01'):
    t = V.flag('value')
    pv = V.pick('protocol_version', VERSIONS)
    b = ct.BooleanType.to_binary(t, pv)
    _both(V, 'C02', 'boolean-byte', b == (b'\x01' if t else b'\x00'))
    _both(V, 'C01', 'round-trip', ct.BooleanType.from_binary(b, pv) is t)
    raw = V.bytes('wire', 1)
    got = ct.BooleanType.from_binary(raw, pv)
    _both(V, 'C02', 'decodes-cassandra-bytes', sx.iff(got, raw[0] != 0))


def h_float(V, prop='C01', code='d'):
    T = ct.DoubleType if code == 'd' else ct.FloatType
    n = 8 if code == 'd' else 4
    raw = V.bytes('wire', n)
    val = T.from_binary(raw, 4)
    b = T.to_binary(val, 4)
    # NaN payloads are not preserved by a C double round trip on every platform: quiet NaNs are allowed to differ
    exp_all_ones = sx.land(*[(raw[0] & 0x7f) == 0x7f] + ([(raw[1] & 0xf0) == 0xf0] if code == 'd' else [(raw[1] & 0x80) == 0x80]))
    _both(V, 'C01', 'round-trip', sx.lor(sx.beq(b, raw), exp_all_ones))


class FakeUUID(object):
    def __init__(self, bytes=None):
        self.bytes = bytes


def h_uuid(V, prop='C01'):
    raw = V.bytes('uuid', 16)
    if V.symbolic:
        from sx import hooks
        hooks.register(ct.UUID, lambda bytes=None, **k: FakeUUID(bytes))
        u = FakeUUID(raw)
    else:
        u = _uuid.UUID(bytes=raw)
    b = ct.UUIDType.to_binary(u, 4)
    _both(V, 'C02', 'uuid-is-its-16-bytes', sx.beq(b, raw))
    back = ct.UUIDType.from_binary(b, 4)
    _both(V, 'C01', 'round-trip', sx.beq(back.bytes, raw))


ALPHABETS = {'ascii': (0, 0x7f), 'latin': (0x80, 0x7ff), 'bmp': (0x800, 0xffff), 'astral': (0x10000, 0x10ffff)}


def h_text(V, prop='C01', n=2, typ='text'):
    T = ct.UTF8Type if typ == 'text' else ct.AsciiType
    s = V.str('text', n, 0, 0x7f if typ == 'ascii' else 0x10ffff)
    if typ == 'text':
        for c in (s.c if hasattr(s, 'c') else [ord(x) for x in s]):
            V.assume(sx.lnot(sx.land(c >= 0xD800, c <= 0xDFFF)))      # lone surrogates are not text
    pv = 4
    b = T.to_binary(s, pv)
    back = T.from_binary(b, pv)
    _both(V, 'C01', 'round-trip', sx.eq(back, s) if n else back == '')
    V.tag('encoded_length', len(b))
    if typ == 'ascii':
        _both(V, 'C02', 'ascii-is-one-byte-per-char', len(b) == n)


def h_blob(V, prop='C01', n=3):
    raw = V.bytes('blob', n)
    b = ct.BytesType.to_binary(raw, 4)
    _both(V, 'C02', 'blob-is-identity', sx.beq(b, raw) if n else b == b'')
    back = ct.BytesType.from_binary(b, 4)
    _both(V, 'C01', 'round-trip', sx.beq(back, raw) if n else back == b'')


# ---------------------------------------------------------------- containers
def _elem(V, name, kind, key=False):
    """(value or None, spec bytes or None) of one element.  Map keys end up in a hash index inside the
    driver's ordered map, i.e. they are concretised: their ranges are kept small."""
    if not key and V.flag(name + '_null'):
        return None, None
    if kind == 'int':
        v = V.int(name, -2, 2) if key else V.int(name, -(1 << 31), (1 << 31) - 1)
        return v, be(v, 4)
    if kind == 'text':
        s = V.str(name, 1, 0x61, 0x63) if key else V.str(name, 1, 0x20, 0x7e)
        return s, [s.c[0] if hasattr(s, 'c') else ord(s)]
    if kind == 'varint':
        v = V.int(name, -129, -127) if key else V.int(name, -200, 200)
        n = 1 if sx.conc_bool(sx.land(v >= -128, v <= 127)) else 2
        return v, be(v, n)
    if kind == 'blob':
        n = V.choice(name + '_len', 2)
        b = V.bytes(name, n)
        return b, sx.blist(b)
    raise ValueError(kind)


ELEM_TYPES = {'int': ct.Int32Type, 'text': ct.UTF8Type, 'varint': ct.IntegerType, 'blob': ct.BytesType}


def _len_prefix(n, pv):
    return be(n, 4) if pv >= 3 else be(n, 2)


def _veq(a, b):
    if a is None or b is None:
        return a is b
    if isinstance(a, (bytes, bytearray)) or type(a).__name__ == 'SymBytes':
        return sx.beq(a, b)
    return sx.eq(a, b)


def h_list(V, prop='C01', kind='int', maxlen=2, settype=False):
    pv = V.pick('protocol_version', VERSIONS)
    n = V.choice('length', maxlen + 1)
    T = (ct.SetType if settype else ct.ListType).apply_parameters([ELEM_TYPES[kind]])
    vals, specs = [], []
    for i in range(n):
        v, sb = _elem(V, 'e%d' % i, kind)
        vals.append(v)
        specs.append(sb)
    has_null = any(v is None for v in vals)
    b = T.to_binary(vals, pv)
    want = list(_len_prefix(n, pv))
    ok_spec = True
    for sbytes in specs:
        if sbytes is None:
            if pv < 3:
                ok_spec = False            # a null element cannot be represented with 16-bit lengths
                break
            want += be(-1, 4)
        else:
            want += list(_len_prefix(len(sbytes), pv)) + list(sbytes)
    if ok_spec:
        _both(V, 'C02', 'collection-elements-length-prefixed-null-is-minus-one', sx.beq(b, sx.cat(want)),
              note='%s<%s> v%d %d elements null=%s' % ('set' if settype else 'list', kind, pv, n, has_null))
    if has_null and pv < 3:
        return
    back = T.from_binary(b, pv)
    if n == 0:
        _both(V, 'C01', 'empty-collection-survives', back is not None and len(back) == 0 or back is None and False,
              note='%r' % (back,))
        return
    back = list(back)
    if settype:
        # sets come back sorted: compare as multisets of (value) -- elements are few, compare all permutations
        import itertools
        if len(back) != n:
            # a set given equal elements legitimately shrinks
            _both(V, 'C01', 'round-trip', len(back) < n and _dups(vals), note='set<%s> v%d: %d of %d elements back' % (kind, pv, len(back), n))
            return
        alts = []
        for perm in itertools.permutations(range(n)):
            alts.append(sx.land(*[_veq(back[i], vals[p]) for i, p in enumerate(perm)]))
        _both(V, 'C01', 'round-trip', sx.lor(*alts), note='set<%s> v%d' % (kind, pv))
    else:
        _both(V, 'C01', 'round-trip', len(back) == n and sx.land(*[_veq(x, y) for x, y in zip(back, vals)]),
              note='list<%s> v%d null=%s' % (kind, pv, has_null))


def _dups(vals):
    # a set given equal elements legitimately shrinks
    for i in range(len(vals)):
        for j in range(i + 1, len(vals)):
            r = _veq(vals[i], vals[j])
            if r is True or (r is not False and sx.conc_bool(r)):
                return True
    return False


def h_map(V, prop='C01', kkind='int', vkind='text'):
    pv = V.pick('protocol_version', VERSIONS)
    n = V.choice('length', 3)
    T = ct.MapType.apply_parameters([ELEM_TYPES[kkind], ELEM_TYPES[vkind]])
    items, want = [], list(_len_prefix(n, pv))
    ok_spec = True
    for i in range(n):
        k, kb = _elem(V, 'k%d' % i, kkind, key=True)
        for (k0, v0) in items:
            V.assume(sx.lnot(_veq(k0, k)))
        v, vb = _elem(V, 'v%d' % i, vkind)
        items.append((k, v))
        want += list(_len_prefix(len(kb), pv)) + list(kb)
        if vb is None:
            if pv < 3:
                ok_spec = False
            else:
                want += be(-1, 4)
        else:
            want += list(_len_prefix(len(vb), pv)) + list(vb)
    m = util.OrderedMap(items) if False else _PlainMap(items)
    b = T.to_binary(m, pv)
    has_null = any(v is None for k, v in items)
    if ok_spec:
        _both(V, 'C02', 'collection-elements-length-prefixed-null-is-minus-one', sx.beq(b, sx.cat(want)),
              note='map<%s,%s> v%d %d entries null=%s' % (kkind, vkind, pv, n, has_null))
    if has_null and pv < 3:
        return
    back = T.from_binary(b, pv)
    got = list(back.items()) if back is not None else None
    if n == 0:
        _both(V, 'C01', 'empty-collection-survives', got == [])
        return
    _both(V, 'C01', 'round-trip', got is not None and len(got) == n and
          sx.land(*[sx.land(_veq(a[0], e[0]), _veq(a[1], e[1])) for a, e in zip(got, items)]),
          note='map<%s,%s> v%d' % (kkind, vkind, pv))


class _PlainMap(object):
    """a mapping with unhashable (symbolic) keys: all the serializer needs is len() and items()"""

    def __init__(self, items):
        self._items = list(items)

    def __len__(self):
        return len(self._items)

    def items(self):
        return list(self._items)


def h_tuple(V, prop='C01', udt=False):
    pv = V.pick('protocol_version', VERSIONS)
    kinds = ['int', 'text', 'blob']
    if udt:
        T = ct.UserType.make_udt_class('ks', 'u%d' % pv, ('a', 'b', 'c'), tuple(ELEM_TYPES[k] for k in kinds))
    else:
        T = ct.TupleType.apply_parameters([ELEM_TYPES[k] for k in kinds])
    given = V.choice('fields_given', 4) if not udt else 3
    vals, want = [], []
    for i in range(given):
        v, sb = _elem(V, 'f%d' % i, kinds[i])
        vals.append(v)
        want += be(-1, 4) if sb is None else (be(len(sb), 4) + list(sb))
    b = T.to_binary(tuple(vals), pv)
    _both(V, 'C02', 'tuple-fields-int32-length-prefixed-null-is-minus-one', sx.beq(b, sx.cat(want)) if want else b == b'',
          note='%s v%d given=%d' % ('udt' if udt else 'tuple', pv, given))
    back = T.from_binary(b, pv)
    if given == 0:
        return
    back = tuple(back)
    exp = vals + [None] * (3 - given)
    _both(V, 'C01', 'round-trip', len(back) == 3 and sx.land(*[_veq(x, y) for x, y in zip(back, exp)]),
          note='%s v%d values %d' % ('udt' if udt else 'tuple', pv, given))


def h_nested(V, prop='C01'):
    """list<frozen<map<int, list<int>>>> : inner collections always use 32-bit lengths"""
    pv = V.pick('protocol_version', [2, 4, 66])
    inner = ct.ListType.apply_parameters([ct.Int32Type])
    mid = ct.MapType.apply_parameters([ct.Int32Type, inner])
    T = ct.ListType.apply_parameters([mid])
    n = V.choice('outer', 2) + 1
    vals = []
    for i in range(n):
        k = V.int('k%d' % i, -1, 1)
        m = V.choice('inner%d' % i, 3)
        lst = [V.int('x%d_%d' % (i, j), -(1 << 31), (1 << 31) - 1) for j in range(m)]
        vals.append(_PlainMap([(k, lst)]))
    b = T.to_binary(vals, pv)
    back = T.from_binary(b, pv)
    ok = len(back) == n
    conds = []
    for got, exp in zip(back, vals):
        gi = list(got.items())
        (ek, el), = exp.items()
        conds.append(len(gi) == 1 and sx.land(sx.eq(gi[0][0], ek), len(gi[0][1] or []) == len(el),
                                              *[sx.eq(a, c) for a, c in zip(gi[0][1] or [], el)]))
    _both(V, 'C01', 'round-trip', ok and sx.land(*conds), note='nested v%d' % pv)
    # byte layout: outer lengths depend on the version, inner ones are always 32 bit
    want = list(_len_prefix(n, pv))
    for exp in vals:
        (ek, el), = exp.items()
        innerb = be(len(el), 4)
        for x in el:
            innerb += be(4, 4) + be(x, 4)
        midb = be(1, 4) + be(4, 4) + be(ek, 4) + be(len(innerb), 4) + innerb
        want += list(_len_prefix(len(midb), pv)) + midb
    _both(V, 'C02', 'nested-collections-use-32-bit-lengths-inside', sx.beq(b, sx.cat(want)), note='v%d' % pv)


def h_vector(V, prop='C01', kind='int', dim=2):
    pv = V.pick('protocol_version', [4, 5])
    sub = ELEM_TYPES[kind]
    T = type('VectorType(%s,%d)' % (kind, dim), (ct.VectorType,), {'vector_size': dim, 'subtype': sub})
    vals, want = [], []
    for i in range(dim):
        if kind == 'int':
            v = V.int('e%d' % i, -(1 << 31), (1 << 31) - 1)
            vals.append(v)
            want += be(v, 4)
        else:
            n = V.pick('len%d' % i, [0, 1, 127, 128, 129, 255, 256, 16383, 16384]) if kind == 'blob' else V.choice('len%d' % i, 3)
            if kind == 'blob':
                head = V.bytes('e%d' % i, min(n, 2))
                b = sx.cat(head, bytes(max(0, n - 2)))
                vals.append(b)
                want += spec_uvint(n) + sx.blist(b)
            else:
                s = V.str('e%d' % i, n, 0x20, 0x7e)
                vals.append(s)
                want += spec_uvint(n) + ([c for c in s.c] if hasattr(s, 'c') else [ord(c) for c in s])
    b = T.to_binary(vals, pv)
    _both(V, 'C02', 'vector-elements-unsigned-vint-sized-when-variable-width', sx.beq(b, sx.cat(want)) if want else b == b'',
          note='vector<%s,%d>' % (kind, dim))
    back = T.from_binary(b, pv)
    _both(V, 'C01', 'round-trip', len(back) == dim and sx.land(*[_veq(x, y) for x, y in zip(back, vals)]),
          note='vector<%s,%d>' % (kind, dim))
    try:
        T.to_binary(vals + vals[:1], pv)
        _both(V, 'C02', 'out-of-range-raises', False, note='vector accepted a wrong dimension')
    except ValueError:
        _both(V, 'C02', 'out-of-range-raises', True)


def h_uvint(V, prop='C02'):
    z = V.int('value', 0, (1 << 64) - 1)
    b = marshal.uvint_pack(z)
    _both(V, 'C02', 'unsigned-vint-bytes', sx.beq(b, sx.cat(spec_uvint(z))))
    got, used_ = marshal.uvint_unpack(b)
    _both(V, 'C01', 'round-trip', sx.land(sx.eq(got, z), used_ == len(b)))


# ---------------------------------------------------------------- timestamps (floating point)
def h_timestamp_decode(V, prop='C01', lo=0, hi=1 << 40):
    """DateType.deserialize divides by 1000.0 and builds a timedelta from float seconds.  Symbolic mode decides a
    QF_FP model of exactly that arithmetic (CPython delta_new: modf, x1e6, round-half-even) for all ms in the
    band; concrete mode (replay) runs the real driver."""
    import datetime
    ms = V.int('milliseconds', lo, hi)
    if not V.symbolic:
        b = ct.DateType.to_binary(ms, 4)
        got = ct.DateType.from_binary(b, 4)
        want = datetime.datetime(1970, 1, 1) + datetime.timedelta(milliseconds=ms)
        V.check(got == want, 'C01:timestamp-round-trips-to-the-millisecond', note='%s decoded as %s' % (want, got))
        return
    # symbolic mode: the real DateType.deserialize / util.datetime_from_timestamp run; datetime.timedelta (C) is
    # replaced by a model of CPython's delta_new arithmetic: float seconds go through modf, x1e6 and
    # round-half-even in IEEE doubles (QF_FP); integer arguments are exact
    import z3
    from sx import ir, hooks
    from sx.symint import SymInt, mk
    from sx.symfloat import SymRat
    F = z3.Float64()
    rne = z3.RNE()

    class Delta(object):
        def __init__(self, us):
            self.us = us          # microseconds, SymInt

        def __radd__(self, other):            # datetime + Delta
            if other == datetime.datetime(1970, 1, 1):
                return Stamp(self.us)
            return NotImplemented

    class Stamp(object):
        def __init__(self, us):
            self.us = us

    def timedelta_model(*a, **k):
        if a or set(k) - {'seconds', 'milliseconds', 'microseconds'}:
            return NotImplemented
        us = 0
        for unit, factor in (('milliseconds', 1000), ('microseconds', 1)):
            if unit in k:
                if not isinstance(k[unit], (int, SymInt)):
                    return NotImplemented
                us = us + k[unit] * factor
        if 'seconds' in k:
            sec = k['seconds']
            if isinstance(sec, (int, SymInt)):
                us = us + sec * 1000000
            elif isinstance(sec, SymRat):
                num = ir.full(sec.num.n if isinstance(sec.num, SymInt) else ir.const(sec.num))
                w = num.size()
                t = z3.fpDiv(rne, z3.fpSignedToFP(rne, num, F), z3.FPVal(float(sec.den), F))      # the double handed to timedelta
                ip = z3.fpRoundToIntegral(z3.RTZ(), t)                 # modf: integral part
                fr = z3.fpSub(rne, t, ip)                              # modf: fractional part (exact)
                frus = z3.fpRoundToIntegral(rne, z3.fpMul(rne, fr, z3.FPVal(1e6, F)))   # round-half-even(frac * 1e6)
                total = z3.fpToSBV(z3.RTZ(), ip, z3.BitVecSort(64)) * z3.BitVecVal(1000000, 64) + z3.fpToSBV(z3.RTZ(), frus, z3.BitVecSort(64))
                us = us + mk(ir.zbv(total, -(1 << 63), (1 << 63) - 1))
            else:
                return NotImplemented
        return Delta(us)
    hooks.register(datetime.timedelta, timedelta_model)
    got = ct.DateType.from_binary(sx.cat(be(ms, 8)), 4)
    if not isinstance(got, Stamp):
        raise sx_inconclusive('timestamp decoding did not go through epoch + timedelta(...)')
    V.check(sx.eq(got.us, ms * 1000), 'C01:timestamp-round-trips-to-the-millisecond')
