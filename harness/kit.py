"""Environment kit for the stateful properties (harness-side only).

* a stub `cassandra.io.libevreactor` so that `import cassandra.cluster` works on
  this interpreter; its LibevConnection is FakeConnection, a subclass of the
  *real* Connection that only replaces the transport (close / push / timers);
* a virtual clock, a run-queue executor and a scheduler whose order of
  execution is chosen by the harness (symbolically).
"""
import logging
import sys
import types
import threading

logging.disable(logging.CRITICAL)

from cassandra.connection import Connection, ConnectionShutdown   # noqa: E402


class Timer(object):
    def __init__(self, world, at, cb):
        self.world = world
        self.at = at
        self.cb = cb
        self.cancelled = False
        self.fired = False
        self.end = at          # the real reactors' Timer exposes .end

    def cancel(self):
        self.cancelled = True

    def fire(self):
        self.fired = True
        self.world.clock = max(self.world.clock, self.at)
        self.cb()

    @property
    def pending(self):
        return not self.cancelled and not self.fired


class World(object):
    """per-path environment state"""
    cur = None

    def __init__(self):
        self.clock = 1000.0
        self.ticks = 0
        self.timers = []
        self.conns = []           # every FakeConnection ever constructed on this path
        self.factory_calls = 0
        self.push_fault = None    # callable(conn, data) -> exception to raise or None
        self.auto_connect = True
        World.cur = self

    def time(self):
        # strictly increasing so that zero-timeout polling loops terminate
        self.ticks += 1
        return self.clock + self.ticks * 1e-3

    def sleep(self, s):
        self.clock += s

    def pending_timers(self):
        return [t for t in self.timers if t.pending]

    def patch_time(self, *modules):
        ns = types.SimpleNamespace(time=self.time, sleep=self.sleep)
        for m in modules:
            m.time = ns


class FakeConnection(Connection):
    """real Connection logic; the transport is replaced"""

    def __init__(self, *a, **k):
        Connection.__init__(self, *a, **k)
        w = World.cur
        self.world = w
        self.sent = []            # byte strings handed to push()
        self.close_calls = 0
        self.idx = len(w.conns) if w else 0
        if w is not None:
            w.conns.append(self)
            if w.auto_connect:
                self.connected_event.set()

    @classmethod
    def initialize_reactor(cls):
        pass

    @classmethod
    def create_timer(cls, timeout, callback):
        w = World.cur
        t = Timer(w, w.clock + timeout, callback)
        w.timers.append(t)
        return t

    def close(self):
        # same contract as the real reactors' close(); which error_all_* methods it calls is
        # read from the reactors' current source (reactor_close_contract)
        with self.lock:
            if self.is_closed:
                return
            self.is_closed = True
        self.close_calls += 1
        if not self.is_defunct:
            for name in reactor_close_contract():
                getattr(self, name)(ConnectionShutdown("Connection to %s was closed" % self.endpoint))
            self.connected_event.set()

    def push(self, data):
        w = self.world
        if w is not None and w.push_fault is not None:
            exc = w.push_fault(self, data)
            if exc is not None:
                raise exc
        self.sent.append(data)

    def __repr__(self):
        return '<FakeConnection #%d>' % self.idx


_CONTRACT = None
REACTOR_FILES = ('asyncorereactor', 'libevreactor', 'geventreactor', 'eventletreactor', 'twistedreactor', 'asyncioreactor')


def reactor_close_contract():
    """the error_all_* methods that EVERY reactor's Connection.close() calls on a non-defunct
    connection, in call order -- parsed from /repo/cassandra/io/*.py on every run"""
    global _CONTRACT
    if _CONTRACT is None:
        import ast, os
        import cassandra
        base = os.path.join(os.path.dirname(cassandra.__file__), 'io')
        per = []
        for f in REACTOR_FILES:
            tree = ast.parse(open(os.path.join(base, f + '.py')).read())
            calls = None
            for cls in [n for n in tree.body if isinstance(n, ast.ClassDef) and n.name.endswith('Connection')]:
                for fn in cls.body:
                    if isinstance(fn, (ast.FunctionDef, ast.AsyncFunctionDef)) and fn.name in ('close', '_close'):
                        calls = (calls or []) + [c.func.attr for c in ast.walk(fn) if isinstance(c, ast.Call)
                                 and isinstance(c.func, ast.Attribute) and isinstance(c.func.value, ast.Name)
                                 and c.func.value.id == 'self' and c.func.attr.startswith('error_all_')]
            if calls is not None:
                per.append(calls)
        common = [c for c in (per[0] if per else []) if all(c in p for p in per)]
        _CONTRACT = common
    return _CONTRACT


def install_reactor():
    name = 'cassandra.io.libevreactor'
    m = sys.modules.get(name)
    if m is None or getattr(m, 'LibevConnection', None) is not FakeConnection:
        stub = types.ModuleType(name)
        stub.LibevConnection = FakeConnection
        sys.modules[name] = stub


class Executor(object):
    """replacement for the cluster's ThreadPoolExecutor: inline during assembly, run-queue afterwards"""

    def __init__(self, inline=True):
        self.q = []
        self.inline = inline
        self.submitted = 0
        self.is_shutdown = False

    def submit(self, fn, *a, **k):
        from concurrent.futures import Future
        f = Future()
        self.submitted += 1
        if self.inline:
            self._run(f, fn, a, k)
        else:
            self.q.append((f, fn, a, k))
        return f

    @staticmethod
    def _run(f, fn, a, k):
        try:
            f.set_result(fn(*a, **k))
        except Exception as e:        # noqa
            f.set_exception(e)

    def run_one(self, i=0):
        f, fn, a, k = self.q.pop(i)
        self._run(f, fn, a, k)
        return f

    def run_all(self, limit=1000):
        n = 0
        while self.q and n < limit:
            self.run_one(0)
            n += 1
        return n

    def shutdown(self, *a, **k):
        self.is_shutdown = True


class Scheduler(object):
    """replacement for cluster._Scheduler: records (delay, fn); the harness decides when it runs"""

    def __init__(self, world):
        self.world = world
        self.items = []
        self.is_shutdown = False

    def schedule(self, delay, fn, *a, **k):
        if not self.is_shutdown:
            self.items.append((self.world.clock + delay, fn, a, k))

    def schedule_unique(self, delay, fn, *a, **k):
        for it in self.items:
            if it[1] == fn and it[2] == a:
                return
        self.schedule(delay, fn, *a, **k)

    def run_one(self, i=0):
        at, fn, a, k = self.items.pop(i)
        self.world.clock = max(self.world.clock, at)
        return fn(*a, **k)

    def shutdown(self):
        self.is_shutdown = True


class FakeCluster(object):
    """what a pool needs from its cluster"""
    connect_to_remote_hosts = True
    protocol_version = 4

    def __init__(self, world, fail_factory=None):
        self.world = world
        self.fail_factory = fail_factory     # callable() -> exception or None
        self.signalled = []
        self.downs = []
        self.signal_result = False
        self.core = {0: 2, 1: 1}
        self.max_conns = {0: 8, 1: 2}
        self.max_reqs = {0: 100, 1: 100}
        self.min_reqs = {0: 5, 1: 5}

    def connection_factory(self, endpoint, *a, **k):
        self.world.factory_calls += 1
        if self.fail_factory is not None:
            exc = self.fail_factory()
            if exc is not None:
                raise exc
        return FakeConnection(endpoint, *a, protocol_version=self.protocol_version, **k)

    def signal_connection_failure(self, host, exc, is_host_addition=False, expect_host_to_be_down=False):
        self.signalled.append(host)
        return self.signal_result

    def on_down(self, host, is_host_addition=False, expect_host_to_be_down=False):
        self.downs.append(host)

    def get_core_connections_per_host(self, d): return self.core[d]
    def get_max_connections_per_host(self, d): return self.max_conns[d]
    def get_max_requests_per_connection(self, d): return self.max_reqs[d]
    def get_min_requests_per_connection(self, d): return self.min_reqs[d]


class FakeSession(object):
    """what a pool needs from its session (must be weak-referenceable)"""
    keyspace = None

    def __init__(self, world, cluster=None):
        self.cluster = cluster or FakeCluster(world)
        self.executor = Executor(inline=False)

    def submit(self, fn, *a, **k):
        return self.executor.submit(fn, *a, **k)


def choose(V, name, options):
    """one of the enabled events (symbolic choice, every option its own path)"""
    return options[V.choice(name, len(options))]


class VirtualCondition(threading.Condition):
    """Condition whose wait() never blocks: the waited time elapses on the virtual clock
    (nobody notifies within one atomic harness step); an unbounded wait ends the path"""

    def wait(self, timeout=None):
        w = World.cur
        hook = getattr(w, 'on_wait', None) if w is not None else None
        if hook is not None:
            # a blocked thread is a pre-emption point: the harness may let other threads act now
            if hook(self, timeout):
                return True          # notified
        if timeout is None:
            from sx.core import PathEnd
            raise PathEnd()
        if w is not None and timeout > 0:
            w.clock += timeout
        return False


class SymDict(object):
    """dict whose keys may be symbolic ints: lookups compare against the stored keys (forking on
    equality) instead of hashing, so a symbolic stream id stays symbolic"""

    def __init__(self, items=()):
        self._kv = list(items)

    def _find(self, k):
        for i, (sk, v) in enumerate(self._kv):
            if bool(sk == k):
                return i
        return -1

    def __contains__(self, k):
        return self._find(k) >= 0

    def __getitem__(self, k):
        i = self._find(k)
        if i < 0:
            raise KeyError(k)
        return self._kv[i][1]

    def __setitem__(self, k, v):
        i = self._find(k)
        if i < 0:
            self._kv.append((k, v))
        else:
            self._kv[i] = (self._kv[i][0], v)

    def __delitem__(self, k):
        i = self._find(k)
        if i < 0:
            raise KeyError(k)
        del self._kv[i]

    def pop(self, k, *default):
        i = self._find(k)
        if i < 0:
            if default:
                return default[0]
            raise KeyError(k)
        return self._kv.pop(i)[1]

    def get(self, k, default=None):
        i = self._find(k)
        return default if i < 0 else self._kv[i][1]

    def popitem(self):
        return self._kv.pop()

    def keys(self): return [k for k, v in self._kv]
    def values(self): return [v for k, v in self._kv]
    def items(self): return list(self._kv)
    def __iter__(self): return iter(self.keys())
    def __len__(self): return len(self._kv)
    def __bool__(self): return bool(self._kv)


class SymSet(object):
    def __init__(self, items=()):
        self._d = SymDict((x, True) for x in items)

    def __contains__(self, k): return k in self._d
    def add(self, k): self._d[k] = True
    def remove(self, k): del self._d[k]
    def discard(self, k): self._d.pop(k, None)
    def __len__(self): return len(self._d)
    def __iter__(self): return iter(self._d.keys())
    def __bool__(self): return bool(self._d)


# ---- sync-point pre-emption ---------------------------------------------------------------------
class SchedLock(object):
    """A lock stand-in for single-threaded harnesses: acquiring and releasing it are *sync points* at
    which the harness may let another (simulated) thread run.  `on_sync(name, phase, function)` is
    called with phase 'acquire' (before the lock is taken) or 'release' (after it was released) and the
    name of the driver function that holds the `with` statement.  Works the same with and without
    instrumentation, so counterexamples replay on the plain driver.  Re-entrant; never blocks."""

    HELD = [0]          # number of SchedLocks currently held (by the single simulated running thread)

    def __init__(self, name, on_sync):
        self.name = name
        self.on_sync = on_sync
        self.depth = 0

    def _caller(self):
        import sys
        f = sys._getframe(2)
        # skip frames of the engine's call hook
        while f is not None and f.f_code.co_filename.endswith(('sx/hooks.py', 'harness/kit.py', 'threading.py')):
            f = f.f_back
        return f.f_code.co_name if f is not None else '?'

    def acquire(self, blocking=True, timeout=-1):
        if self.depth == 0:
            self.on_sync(self.name, 'acquire', self._caller())
            SchedLock.HELD[0] += 1
        self.depth += 1
        return True

    def release(self):
        self.depth -= 1
        if self.depth == 0:
            SchedLock.HELD[0] -= 1
            self.on_sync(self.name, 'release', self._caller())

    def __enter__(self):
        self.acquire()
        return self

    def __exit__(self, *a):
        self.release()
        return False

    def locked(self):
        return self.depth > 0

    def _is_owned(self):          # threading.Condition built on this lock
        return self.depth > 0


class Preempter(object):
    """decides, at the sync points of the listed driver functions, whether the other thread's action runs
    now: one solver flag per eligible sync point, at most `budget` pre-emptions per path, never nested"""

    def __init__(self, V, functions, action, budget=1, phases=('acquire', 'release'), only_unlocked=False, enabled=None):
        self.V, self.functions, self.action, self.budget, self.phases = V, (set(functions) if functions is not None else None), action, budget, phases
        self.only_unlocked = only_unlocked
        self.enabled = enabled
        SchedLock.HELD[0] = 0
        self.count = 0
        self.used = 0
        self.active = False
        self.log = []

    def __call__(self, name, phase, function):
        if self.active or self.used >= self.budget or phase not in self.phases:
            return
        if self.functions is not None and function not in self.functions:
            return
        if self.only_unlocked and SchedLock.HELD[0] > 0:
            return              # the pre-empted thread still holds a lock: another thread could be blocked on it
        if self.enabled is not None and not self.enabled():
            return              # the other thread has nothing to do at this point
        k = self.count
        self.count += 1
        if self.V.flag('preempt_%d_%s_%s_%s' % (k, function, name, phase)):
            self.used += 1
            self.active = True
            self.log.append((function, name, phase))
            try:
                self.action(function, name, phase)
            finally:
                self.active = False
