"""Bounded histories over one HostConnection pool (shared by C12 and C13)."""
import sx
from harness import kit
from harness import rfworld as W
from harness.rfworld import RFWorld


def run_history(V, prop, steps=5, nreq=3, pool_kind='v3', factory_preempt=False, race=None, use_fault=False):
    cap = V.pick('max_in_flight', [2, 3])
    thr = V.pick('orphan_threshold', [1, 2])
    kit.FakeConnection.max_in_flight = cap
    kit.FakeConnection.orphaned_threshold = thr
    try:
        return _run(V, prop, steps, nreq, factory_preempt, race, use_fault)
    finally:
        kit.FakeConnection.max_in_flight = 2 ** 15
        kit.FakeConnection.orphaned_threshold = 3 * (2 ** 15) // 4


def _run(V, prop, steps, nreq, factory_preempt, race=None, use_fault=False):
    world = RFWorld(V, n_hosts=1, protocol_version=4)
    host = world.hosts[0]
    pool = world.pools[host]
    first = pool._connection
    closes = []          # (conn idx, live requests at close, pool shut down?, defunct?)
    orig_close = kit.FakeConnection.close

    def close(conn):
        if not conn.is_closed:
            live = [s for s in conn._requests if s not in conn.orphaned_request_ids]
            closes.append((conn.idx, len(live), pool.is_shutdown, conn.is_defunct))
        return orig_close(conn)
    for c in world.w.conns:
        c.close = close.__get__(c)
    orig_factory = world.cluster.connection_factory
    state = dict(shutdown_in_factory=False)

    def factory(endpoint, *a, **k):
        if factory_preempt and not pool.is_shutdown and V.flag('shutdown_during_connect_%d' % world.w.factory_calls):
            # opening a connection blocks on the network: another thread may shut the pool down meanwhile
            pool.shutdown()
            state['shutdown_in_factory'] = True
        c = orig_factory(endpoint, *a, **k)
        c.close = close.__get__(c)
        if use_fault:
            # the session has a keyspace: the pool issues USE on every connection it opens.  Contract of
            # Connection.set_keyspace_blocking (read from /repo): an InvalidRequest answer (the keyspace is gone) is
            # raised to the caller and leaves the connection open; any other failure defuncts the connection
            n = world.w.factory_calls

            def set_keyspace_blocking(keyspace, _c=c, _n=n):
                if _n <= 3 and V.flag('use_rejected_on_connection_%d' % _n):
                    from cassandra import InvalidRequest
                    raise InvalidRequest('Keyspace %r does not exist' % (keyspace,))
                _c.keyspace = keyspace
            c.set_keyspace_blocking = set_keyspace_blocking
        return c
    world.cluster.connection_factory = factory
    if use_fault:
        pool._keyspace = 'ks1'
        first.keyspace = 'ks1'
    current = [None]        # kind of the history event being executed (the thread that is pre-empted)
    # ---- sync-point pre-emption (one per history): another thread runs at a lock acquire/release of the named function
    if race == 'timeout-response':
        # the event loop delivers the late response while ResponseFuture._on_timeout is between popping the request
        # and taking the connection lock to record the stream as orphaned
        def deliver_late(function, name, phase):
            for c in world.w.conns:
                for stream, (tag, msg) in list(world.server.outstanding.get(c, {}).items()):
                    if stream not in c._requests and stream not in c.orphaned_request_ids and not c.is_closed:
                        world.respond(c, stream, world.rows(tag))
                        return
        pre = kit.Preempter(V, ('_on_timeout',), deliver_late, phases=('acquire',))
        def arm(c):
            c.lock = kit.SchedLock('connection.lock', pre)
    elif race == 'replace-shutdown':
        # another thread shuts the pool down at a lock acquire/release inside HostConnection._replace
        pre = kit.Preempter(V, ('_replace',), lambda *a: pool.shutdown())
        pool._lock = kit.SchedLock('pool._lock', pre)
        pool._stream_available_condition = kit.VirtualCondition(pool._lock)
        def arm(c):
            c.lock = kit.SchedLock('connection.lock', pre)
    elif race == 'any':
        # general pre-emption: at any lock acquire/release of any driver function, while the running thread holds no
        # lock, one other thread may act: deliver a pending response, fire a timer, run a queued task, defunct a
        # connection or shut the pool down
        def other_thread(function, name, phase):
            ev = []
            if current[0] != 'respond':         # (the event-loop thread delivers one response at a time)
                for (c, stream, tag, msg) in world.pending():
                    ev.append(('respond', c, stream, tag))
            for t in world.timers():
                ev.append(('timer', t))
            if not pool.is_shutdown:
                ev.append(('shutdown',))
            if not ev:
                return
            e = ev[V.choice('pre_ev_%d' % pre.used, len(ev))]
            V.tag('preempted_in', '%s/%s/%s -> %s' % (function, name, phase, e[0]))
            if e[0] == 'respond':
                world.respond(e[1], e[2], world.rows(e[3]))
            elif e[0] == 'timer':
                e[1].fire()
            else:
                pool.shutdown()
        pre = kit.Preempter(V, None, other_thread, only_unlocked=True,
                            enabled=lambda: bool((world.pending() and current[0] != 'respond') or world.timers() or not pool.is_shutdown))
        pool._lock = kit.SchedLock('pool._lock', pre)
        pool._stream_available_condition = kit.VirtualCondition(pool._lock)
        def arm(c):
            c.lock = kit.SchedLock('connection.lock', pre)
    else:
        arm = None
    if arm:
        for c in world.w.conns:
            arm(c)
        _f2 = world.cluster.connection_factory
        def factory2(endpoint, *a, **k):
            c = _f2(endpoint, *a, **k)
            arm(c)
            return c
        world.cluster.connection_factory = factory2
    ntag = [0]
    defuncted = set()
    borrowed_after_shutdown = []
    for step in range(steps):
        ev = []
        if ntag[0] < nreq:
            ev.append(('send',))
        for (c, stream, tag, msg) in world.pending():
            ev.append(('respond', c, stream, tag))
        for t in world.timers():
            ev.append(('timer', t))
        for i in range(len(world.tasks())):
            ev.append(('task', i))
        for c in world.w.conns:
            if c.idx not in defuncted and not c.is_closed and world.server.outstanding.get(c):
                ev.append(('defunct', c))
        if not pool.is_shutdown:
            ev.append(('shutdown',))
        else:
            ev.append(('borrow',))
        e = ev[V.choice('ev%d' % step, len(ev))]
        V.tag('e%d' % step, e[0])
        current[0] = e[0]
        if e[0] == 'send':
            ntag[0] += 1
            was_shut = pool.is_shutdown
            rf = world.new_future(ntag[0])
            nsent = len(world.server.received)
            rf.send_request()
            if was_shut:
                V.check(len(world.server.received) == nsent, 'C12:no-request-sent-through-a-shut-down-pool')
        elif e[0] == 'respond':
            world.respond(e[1], e[2], world.rows(e[3]))
        elif e[0] == 'timer':
            e[1].fire()
        elif e[0] == 'task':
            world.executor.run_one(e[1])
        elif e[0] == 'defunct':
            defuncted.add(e[1].idx)
            e[1].defunct(OSError('socket error'))
        elif e[0] == 'shutdown':
            pool.shutdown()
        else:
            try:
                pool.borrow_connection(timeout=0)
                V.check(False, 'C12:borrow-after-shutdown-fails')
            except (W.ConnectionException, W.NoConnectionsAvailable) as exc:
                V.check(isinstance(exc, W.ConnectionException), 'C12:borrow-after-shutdown-fails')
        _step_checks(V, prop, world, pool, closes)
    # ---- drain: all outstanding requests are answered, queued tasks run
    for _ in range(20):
        p = world.pending()
        if p:
            c, stream, tag, msg = p[0]
            current[0] = 'respond'
            world.respond(c, stream, world.rows(tag))
        elif world.tasks():
            current[0] = 'task'
            world.executor.run_one(0)
        else:
            break
        _step_checks(V, prop, world, pool, closes)
    V.tag('conns', len(world.w.conns))
    V.tag('closes', [(c[0], c[1]) for c in closes])
    if prop == 'C12':
        if pool.is_shutdown:
            for c in world.w.conns:
                V.check(c.is_closed, 'C12:every-connection-closed-after-shutdown', note='connection #%d left open' % c.idx)
    if prop == 'C13':
        cur = pool._connection
        for c in world.w.conns:
            if c is cur or c.is_defunct or pool.is_shutdown:
                continue
            if c.orphaned_threshold_reached and cur is not None:
                # replaced and drained: only orphaned streams can remain
                live = [s for s in c._requests if s not in c.orphaned_request_ids]
                if not live:
                    V.check(c.is_closed, 'C13:replaced-connection-closed-once-only-orphans-remain', note='connection #%d' % c.idx)
    return None


def _step_checks(V, prop, world, pool, closes):
    for c in world.w.conns:
        if prop == 'C12':
            V.check(c.in_flight >= 0, 'C12:in-flight-never-negative')
            V.check(c.in_flight <= c.max_request_id + 1, 'C12:never-beyond-request-capacity')
            V.check(len(c.orphaned_request_ids) <= c.in_flight or c.is_closed, 'C12:orphans-counted-in-flight')
    if prop == 'C12':
        V.check(not world.over_max, 'C12:stream-id-within-capacity')
        V.check(not world.dup_stream, 'C12:stream-id-not-reused-while-outstanding')
    if prop == 'C13':
        for idx, live, shut, defunct in closes:
            if not shut and not defunct:
                V.check(live == 0, 'C13:not-closed-while-live-requests-pending', note='connection #%d closed with %d live request(s)' % (idx, live))
        cur = pool._connection
        if cur is not None and not pool.is_shutdown:
            for rf in world.futures[-1:]:
                pass
