"""Bounded histories of ONE execution through the real ResponseFuture over real
HostConnection pools (shared by C14, C15, C16, C17).

Symbolic inputs: per-host pool condition, the retry policy's decisions (a
"decision oracle": every decision and consistency level is explored), the kind
of every server response, and the order of response / timer / executor-task /
connection-failure events.
"""
import sx
from harness import kit
from harness import rfworld as W
from harness.rfworld import RFWorld
from cassandra.policies import RetryPolicy, ConstantSpeculativeExecutionPolicy
from cassandra import ConsistencyLevel as CL, OperationTimedOut, ReadTimeout, Unavailable, WriteTimeout
from cassandra.cluster import NoHostAvailable

RETRY, RETHROW, IGNORE, NEXT = RetryPolicy.RETRY, RetryPolicy.RETHROW, RetryPolicy.IGNORE, RetryPolicy.RETRY_NEXT_HOST
DEC_NAMES = {RETRY: 'RETRY', RETHROW: 'RETHROW', IGNORE: 'IGNORE', NEXT: 'NEXT'}


class OraclePolicy(RetryPolicy):
    """every call is answered by a fresh symbolic choice; calls are logged"""

    def __init__(self, V, decisions=(RETRY, RETHROW, IGNORE, NEXT), levels=(None, CL.ONE), max_calls=3):
        self.V = V
        self.decisions = decisions
        self.levels = levels
        self.calls = []       # dict(kind, retry_num, consistency, decision, level)
        self.max_calls = max_calls

    def _decide(self, kind, consistency, retry_num):
        n = len(self.calls)
        if n >= self.max_calls:
            d, lvl = RETHROW, None
        else:
            d = self.decisions[self.V.choice('decision%d' % n, len(self.decisions))]
            lvl = None
            if d in (RETRY, NEXT) and len(self.levels) > 1:
                lvl = self.levels[self.V.choice('level%d' % n, len(self.levels))]
        self.calls.append(dict(kind=kind, retry_num=retry_num, consistency=consistency, decision=d, level=lvl))
        return d, lvl

    def on_read_timeout(self, query, consistency, required_responses, received_responses, data_retrieved, retry_num):
        return self._decide('read_timeout', consistency, retry_num)

    def on_write_timeout(self, query, consistency, write_type, required_responses, received_responses, retry_num):
        return self._decide('write_timeout', consistency, retry_num)

    def on_unavailable(self, query, consistency, required_replicas, alive_replicas, retry_num):
        return self._decide('unavailable', consistency, retry_num)

    def on_request_error(self, query, consistency, error, retry_num):
        return self._decide('request_error', consistency, retry_num)


POOL_STATES = ('healthy', 'missing', 'shutdown', 'busy', 'send-fails')


def make_response(world, kind, tag):
    if kind == 'rows':
        return world.rows(tag)
    if kind == 'void':
        return world.void(tag)
    if kind == 'read_timeout':
        return W.ReadTimeoutErrorMessage(0x1200, 'rt', dict(consistency=CL.QUORUM, required_responses=2,
                                                           received_responses=1, data_retrieved=False))
    if kind == 'write_timeout':
        return W.WriteTimeoutErrorMessage(0x1100, 'wt', dict(consistency=CL.QUORUM, required_responses=2,
                                                             received_responses=1, write_type='SIMPLE'))
    if kind == 'unavailable':
        return W.UnavailableErrorMessage(0x1000, 'ua', dict(consistency=CL.QUORUM, required_replicas=2, alive_replicas=1))
    if kind == 'overloaded':
        return W.OverloadedErrorMessage(0x1001, 'ol', None)
    if kind == 'bootstrapping':
        return W.IsBootstrappingErrorMessage(0x1002, 'bs', None)
    if kind == 'server_error':
        return W.ServerError(0x0000, 'se', None)
    if kind == 'syntax':
        return W.SyntaxException(0x2000, 'syn', None)
    raise ValueError(kind)


ERROR_KINDS = ('read_timeout', 'write_timeout', 'unavailable', 'overloaded', 'bootstrapping', 'server_error')
POLICY_KIND = dict(read_timeout='read_timeout', write_timeout='write_timeout', unavailable='unavailable',
                   overloaded='request_error', bootstrapping='request_error', server_error='request_error')


class Run(object):
    """one execution + everything observed about it"""

    def __init__(self, V, n_hosts=3, pool_states=None, responses=('rows', 'read_timeout'), decisions=(RETRY, RETHROW, IGNORE, NEXT),
                 levels=(None, CL.ONE), spec_attempts=0, idempotent=False, timeout=10.0, allow_defunct=True, host_target=False,
                 max_policy_calls=3):
        self.V = V
        self.world = world = RFWorld(V, n_hosts=n_hosts, protocol_version=4)
        self.responses = responses
        self.allow_defunct = allow_defunct
        self.timeout = timeout
        self.states = {}
        for i, h in enumerate(world.hosts):
            st = 'healthy'
            if pool_states is not None and len(pool_states) > 1:
                st = pool_states[V.choice('pool%d' % i, len(pool_states))]
            self.states[h] = st
            pool = world.pools[h]
            if st == 'missing':
                del world.pools[h]
            elif st == 'shutdown':
                pool.shutdown()
            elif st == 'busy':
                c = pool._connection
                c.in_flight = c.max_request_id
            V.tag('pool%d' % i, st)

        def push_error(conn, tag, stream):
            for h, p in world.pools.items():
                if self.states[h] == 'send-fails' and p._connection is conn:
                    return OSError(32, 'broken pipe')
            return None
        world.push_error = push_error
        self.policy = OraclePolicy(V, decisions, levels, max_policy_calls)
        spec = None
        if spec_attempts:
            spec = ConstantSpeculativeExecutionPolicy(1.0, spec_attempts).new_plan(None, None)
        self.start = world.w.clock
        self.rf = world.new_future(1, timeout=timeout, retry_policy=self.policy, spec_plan=spec if idempotent or spec_attempts < 0 else spec,
                                   idempotent=idempotent, host=(world.hosts[0] if host_target else None))
        self.idempotent = idempotent
        self.spec_attempts = spec_attempts
        self.sends = []            # (host index, consistency level) in send order
        self.consumed = []         # error kinds handed to the future, in order
        self.defuncted = set()
        self.trace = []

    # -- observations
    def host_of(self, conn_idx):
        c = self.world.w.conns[conn_idx]
        for i, h in enumerate(self.world.hosts):
            if str(h.endpoint.address) == str(c.endpoint.address):
                return i
        return None

    def sent(self):
        """[(host index, consistency level, message)] in send order"""
        return [(self.host_of(cidx), snap['consistency_level'], msg)
                for (cidx, tag, stream, msg), snap in zip(self.world.server.received, self.world.server.snap)]

    def outcomes(self):
        return len(self.rf.results) + len(self.rf.errors_seen)

    def enabled(self):
        w = self.world
        ev = []
        for (c, stream, tag, msg) in w.pending():
            ev.append(('respond', c, stream, tag))
        ts = sorted(w.timers(), key=lambda t: t.at)
        if ts:
            ev.append(('timer', ts[0]))
        for i in range(len(w.tasks())):
            ev.append(('task', i))
        if self.allow_defunct:
            for c in w.w.conns:
                if c.idx not in self.defuncted and not c.is_closed and w.server.outstanding.get(c):
                    ev.append(('defunct', c))
        return ev

    def step(self, name):
        V = self.V
        ev = self.enabled()
        running = self.__dict__.setdefault('running', [])
        if 'respond' in running:
            # a pre-empting event belongs to another thread: the event-loop thread delivers one response at a time
            ev = [x for x in ev if x[0] != 'respond']
        if not ev:
            return None
        e = ev[V.choice(name, len(ev))]
        kind = e[0]
        running.append(kind)
        try:
            return self._do(name, e, kind)
        finally:
            running.pop()

    def _do(self, name, e, kind):
        V = self.V
        if kind == 'respond':
            rk = self.responses[V.choice(name + '_resp', len(self.responses))]
            self.trace.append('respond:' + rk)
            V.tag(name, 'respond:' + rk)
            self.consumed.append(rk)
            self.world.respond(e[1], e[2], make_response(self.world, rk, e[3]))
        elif kind == 'timer':
            self.trace.append('timer')
            V.tag(name, 'timer')
            e[1].fire()
        elif kind == 'task':
            self.trace.append('task')
            V.tag(name, 'task')
            self.world.executor.run_one(e[1])
        else:
            self.trace.append('defunct')
            V.tag(name, 'defunct')
            self.defuncted.add(e[1].idx)
            e[1].defunct(OSError(104, 'reset'))
        return kind

    def settled(self):
        """every request sent for the execution has been answered or failed, nothing queued"""
        w = self.world
        return not w.pending() and not w.tasks()

    def result_outcome(self):
        rf = self.rf
        if not rf._event.is_set():
            return ('pending', None)
        try:
            r = rf.result()
            return ('ok', list(r.current_rows) if hasattr(r, 'current_rows') else r)
        except Exception as e:          # noqa
            return ('error', e)



def arm_race(V, run, budget=1):
    """general sync-point pre-emption for a Run: at any lock acquire/release of driver code, while the running thread
    holds no lock, another thread performs one of the enabled events (a response, a timer, a queued task, a socket error)"""
    from harness import kit
    pre = kit.Preempter(V, None, lambda *a: run.step('pre%d' % pre.used), only_unlocked=True, budget=budget,
                        enabled=lambda: any(x[0] != 'respond' or 'respond' not in run.__dict__.get('running', ()) for x in run.enabled()))
    run.rf._callback_lock = kit.SchedLock('callback_lock', pre)
    for c in run.world.w.conns:
        c.lock = kit.SchedLock('connection.lock', pre)
    for pool in run.world.pools.values():
        if hasattr(pool, '_stream_available_condition'):
            pool._lock = kit.SchedLock('pool._lock', pre)
            pool._stream_available_condition = kit.VirtualCondition(pool._lock)
    return pre
