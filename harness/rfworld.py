"""A small world in which the REAL ResponseFuture, HostConnection(Pool) and
Connection (transport faked, see kit.FakeConnection) exchange requests and
responses with a scripted server.  The order of events is chosen by the
harness through V.choice, i.e. it is a symbolic input.

Wire format: the fake protocol handler encodes a request as the tuple
(request tag, stream id, message) (the "bytes" pushed to the transport) and the
decoder returns whatever object the server put into the frame body.
"""
import types
import threading
from collections import deque

from . import kit
kit.install_reactor()

import cassandra.cluster as ccluster        # noqa: E402
import cassandra.pool as cpool              # noqa: E402
import cassandra.connection as cconn        # noqa: E402
from cassandra.cluster import ResponseFuture, _NOT_SET   # noqa: E402
from cassandra.connection import _Frame, ConnectionShutdown, ConnectionException, ConnectionBusy  # noqa: E402
from cassandra.pool import HostConnection, HostConnectionPool, Host, NoConnectionsAvailable   # noqa: E402
from cassandra.policies import (RetryPolicy, HostDistance, SimpleConvictionPolicy,
                                NoSpeculativeExecutionPlan, ConstantSpeculativeExecutionPolicy)   # noqa: E402
from cassandra.protocol import (ResultMessage, QueryMessage, RESULT_KIND_VOID, RESULT_KIND_ROWS,
                                ReadTimeoutErrorMessage, WriteTimeoutErrorMessage, UnavailableErrorMessage,
                                OverloadedErrorMessage, ServerError, IsBootstrappingErrorMessage,
                                SyntaxException, PreparedQueryNotFound, PrepareMessage, ExecuteMessage)  # noqa: E402
from cassandra.query import SimpleStatement      # noqa: E402
from cassandra import OperationTimedOut, ConsistencyLevel      # noqa: E402


class Wire(object):
    """fake protocol handler: requests are recorded, responses are objects"""

    def __init__(self, world):
        self.world = world
        self.log = []           # (conn, tag, stream, message) in send order

    def encode_message(self, msg, stream_id, protocol_version, compressor=None, allow_beta_protocol_version=False):
        return ('REQ', getattr(msg, '_tag', None), stream_id, msg)

    @staticmethod
    def decode_message(protocol_version, user_type_map, stream_id, flags, opcode, body, decompressor, result_metadata):
        if isinstance(body, Exception) and getattr(body, '_raise_in_decoder', False):
            raise body
        return body


class RawRequest(object):
    """a real native-protocol request frame, parsed just enough to script an answer"""

    def __init__(self, protocol_version, data):
        import struct
        self.data = data
        self.version = data[0] & 0x7f
        if self.version >= 3:
            self.flags, self.stream, self.opcode, self.length = struct.unpack('>BhBi', data[1:9])
            self.body = data[9:]
        else:
            self.flags, self.stream, self.opcode, self.length = struct.unpack('>BbBi', data[1:8])
            self.body = data[8:]
        self.query = None
        if self.opcode == 0x07:      # QUERY: <long string>
            n = struct.unpack('>i', self.body[:4])[0]
            self.query = self.body[4:4 + n].decode('utf8')
        self._tag = None

    def __repr__(self):
        return '<RawRequest opcode=%#x stream=%d query=%r>' % (self.opcode, self.stream, self.query)


def result_set_keyspace_body(ks):
    import struct
    b = ks.encode('utf8')
    return struct.pack('>i', 3) + struct.pack('>H', len(b)) + b


def supported_body(options=None):
    import struct
    opts = {'CQL_VERSION': ['3.4.5'], 'COMPRESSION': []}
    opts.update(options or {})
    out = struct.pack('>H', len(opts))
    for k, vals in opts.items():
        kb = k.encode()
        out += struct.pack('>H', len(kb)) + kb + struct.pack('>H', len(vals))
        for v in vals:
            vb = v.encode()
            out += struct.pack('>H', len(vb)) + vb
    return out


def error_body(code, message, extra=b''):
    import struct
    m = message.encode('utf8')
    return struct.pack('>i', code) + struct.pack('>H', len(m)) + m + extra


class Server(object):
    """what the node at the other end of a connection has received and not answered"""

    def __init__(self):
        self.outstanding = {}       # conn -> {stream: (tag, msg)}
        self.received = []          # (conn idx, tag, stream, msg) in arrival order
        self.snap = []              # per received message: field values at send time

    def on_push(self, conn, data):
        kind, tag, stream, msg = data
        d = self.outstanding.setdefault(conn, {})
        self.received.append((conn.idx, tag, stream, msg))
        # the message object is reused and mutated by retries: snapshot what was on the wire
        self.snap.append(dict(consistency_level=getattr(msg, 'consistency_level', None),
                              paging_state=getattr(msg, 'paging_state', None), kind=type(msg).__name__,
                              query=getattr(msg, 'query', None), query_id=getattr(msg, 'query_id', None),
                              keyspace=getattr(msg, 'keyspace', None)))
        return d, tag, stream, msg


class RFWorld(object):
    def __init__(self, V, n_hosts=1, protocol_version=4, pool_class=None, make_pools=True):
        self.V = V
        self.w = kit.World()
        self.w.patch_time(ccluster, cpool, cconn)
        cpool.Condition = kit.VirtualCondition
        self.wire = Wire(self.w)
        self.server = Server()
        self.violations = []
        self.protocol_version = protocol_version
        self.cluster = kit.FakeCluster(self.w)
        self.cluster.protocol_version = protocol_version
        self.cluster.connection_class = kit.FakeConnection
        self.cluster._prepared_statements = {}
        self.cluster._default_load_balancing_policy = None
        self.cluster.control_connection = types.SimpleNamespace(_connection=None)
        self.executor = kit.Executor(inline=False)
        self.session = _Session(self)
        self.hosts = [Host('10.0.0.%d' % (i + 1), SimpleConvictionPolicy) for i in range(n_hosts)]
        self.pools = {}
        self.dup_stream = []       # (conn idx, stream) sent while still outstanding at the server
        self.over_max = []
        self.futures = []
        self.w.push_fault = self._on_push
        self.push_error = None     # callable(conn, tag, stream) -> exception | None
        if make_pools:
            pc = pool_class or HostConnection
            for h in self.hosts:
                self.pools[h] = pc(h, HostDistance.LOCAL, self.session)
        self.session._pools = self.pools

    # -- transport
    def _on_push(self, conn, data):
        if isinstance(data, (bytes, bytearray)):
            # a frame produced by the real encoder (requests the driver sends for itself: USE, OPTIONS, ...)
            raw = RawRequest(conn.protocol_version, bytes(data))
            data = ('REQ', None, raw.stream, raw)
        if not (isinstance(data, tuple) and data and data[0] == 'REQ'):
            return None
        if self.push_error is not None:
            exc = self.push_error(conn, data[1], data[2])
            if exc is not None:
                return exc
        d, tag, stream, msg = self.server.on_push(conn, data)
        if stream in d:
            self.dup_stream.append((conn.idx, stream))
        limit = 127 if conn.protocol_version < 3 else 32767
        from sx import conc_bool
        if conc_bool(stream > conn.max_request_id) or conc_bool(stream > limit) or conc_bool(stream < 0):
            self.over_max.append((conn.idx, stream))
        d[stream] = (tag, msg)
        return None

    # -- client side
    def new_future(self, tag, plan=None, timeout=10.0, retry_policy=None, spec_plan=None, idempotent=False,
                   message=None, query=None, prepared_statement=None, host=None):
        msg = message or QueryMessage('q%s' % tag, ConsistencyLevel.QUORUM)
        msg._tag = tag
        lb = types.SimpleNamespace(make_query_plan=lambda ks=None, q=None: list(plan if plan is not None else self.hosts))
        q = query or SimpleStatement('q%s' % tag, is_idempotent=idempotent)
        rf = ResponseFuture(self.session, msg, q, timeout, retry_policy=retry_policy or RetryPolicy(),
                            load_balancer=lb, speculative_execution_plan=spec_plan,
                            prepared_statement=prepared_statement, host=host)
        rf._protocol_handler = self.wire
        rf.tag = tag
        rf.results = []
        rf.errors_seen = []
        rf.add_callbacks(lambda r, rf=rf: rf.results.append(r), lambda e, rf=rf: rf.errors_seen.append(e))
        self.futures.append(rf)
        return rf

    # -- server side
    def pending(self):
        """[(conn, stream, tag, msg)] of requests the server has not answered (connection still open)"""
        out = []
        for conn, d in self.server.outstanding.items():
            if conn.is_closed or conn.is_defunct:
                continue
            for stream, (tag, msg) in sorted(d.items(), key=lambda kv: _k(kv[0])):
                out.append((conn, stream, tag, msg))
        return out

    def respond(self, conn, stream, response):
        """the server's answer for `stream` arrives on conn"""
        d = self.server.outstanding.get(conn, {})
        d.pop(stream, None)
        opcode = 8
        if isinstance(response, tuple) and response and response[0] == 'RAW':
            # ('RAW', opcode, body bytes): decoded by the real protocol decoder
            opcode, response = response[1], response[2]
        frame = _Frame(conn.protocol_version, 0, stream, opcode, 9, 9)
        conn.process_msg(frame, response)

    def rows(self, tag):
        r = ResultMessage(RESULT_KIND_ROWS)
        r.column_names = ['tag']
        r.column_types = [None]
        r.parsed_rows = [(tag,)]
        r.paging_state = None
        r.echo = tag
        return r

    def void(self, tag=None):
        r = ResultMessage(RESULT_KIND_VOID)
        r.echo = tag
        return r

    def timers(self):
        return self.w.pending_timers()

    def tasks(self):
        return self.executor.q


def _k(x):
    from sx import conc
    return conc(x)


class _Session(object):
    """what ResponseFuture and the pools need from a Session"""
    keyspace = None
    is_shutdown = False

    def __init__(self, world):
        self._w = world
        self.cluster = world.cluster
        self._pools = {}
        self.row_factory = staticmethod(lambda names, rows: [r[0] for r in rows])
        self._lock = threading.RLock()

    def submit(self, fn, *a, **k):
        return self._w.executor.submit(fn, *a, **k)

    @property
    def row_factory_(self):
        return self.row_factory


def tuple_rows(names, rows):
    return list(rows)


_Session.row_factory = staticmethod(lambda names, rows: [r[0] for r in rows])


def set_id_state(conn, free_ids, highest, max_request_id, orphans=()):
    """put a connection into an arbitrary state satisfying the representation invariant:
    ids 0..highest exist; `free_ids` are available, `orphans` are timed-out streams still reserved,
    every other id is in use by a request that never completes within the history."""
    conn.request_ids = deque(free_ids)
    conn.highest_request_id = highest
    conn.max_request_id = max_request_id
    conn.orphaned_request_ids = set(orphans)
    conn.in_flight = highest + 1 - len(free_ids)


def World_cur():
    return kit.World.cur
