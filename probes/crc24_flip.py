import z3, time, zlib
from crc import crc32_sym, INIT
def crc24_sym(data, length):
    # segment.compute_crc24 over header int 'data' (z3 BV 40) of 'length' bytes
    crc=z3.BitVecVal(0x875060,32)
    for i in range(length):
        byte=z3.ZeroExt(24, z3.Extract(8*i+7,8*i,data))
        crc = crc ^ (byte<<16)
        for _ in range(8):
            crc = crc<<1
            crc = z3.If((crc & 0x1000000)!=0, crc ^ 0x1974F0B, crc)
    return crc
for n in ():
    tot=0; worst=0
    for pos in range(0,n*8, max(1,(n*8)//8)):   # sample 8 positions to time
        bs=[z3.BitVec('b%d'%i,8) for i in range(n)]
        bs2=[b ^ (1<<(pos%8)) if i==pos//8 else b for i,b in enumerate(bs)]
        s=z3.Solver(); s.set('timeout',60000); s.add(crc32_sym(bs,INIT)==crc32_sym(bs2,INIT))
        t=time.time(); r=s.check(); dt=time.time()-t; tot+=dt; worst=max(worst,dt)
        assert str(r)=='unsat', r
    print('crc32 payload',n,'fixed-position queries: avg',round(tot/8,2),'worst',round(worst,2),flush=True)
# crc24 header, symbolic position
for L in (3,5):
    h=z3.BitVec('h',40); pos=z3.BitVec('p',8)
    s=z3.Solver(); s.set('timeout',120000); s.add(z3.ULT(pos,L*8))
    h2=h ^ (z3.BitVecVal(1,40) << z3.ZeroExt(32,pos))
    s.add(crc24_sym(h,L)==crc24_sym(h2,L))
    t=time.time(); r=s.check(); print('crc24 header',L,'bytes symbolic flip position:',r,round(time.time()-t,2),flush=True)
