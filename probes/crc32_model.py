import z3, time, zlib
def crc32_sym(bs, init):
    # zlib.crc32(data, value): crc = value ^ 0xffffffff; per byte: crc ^= b; 8x: crc = (crc>>1) ^ (0xEDB88320 & -(crc&1)); return crc ^ 0xffffffff
    crc = z3.BitVecVal(init ^ 0xffffffff, 32) if isinstance(init,int) else init ^ 0xffffffff
    for b in bs:
        crc = crc ^ z3.ZeroExt(24,b)
        for _ in range(8):
            crc = z3.If(z3.Extract(0,0,crc)==1, z3.LShR(crc,1) ^ 0xEDB88320, z3.LShR(crc,1))
    return crc ^ 0xffffffff
INIT=zlib.crc32(b"\xfa\x2d\x55\xca")
# validate model concretely
import random
for n in (0,1,5,9):
    d=bytes(random.randrange(256) for _ in range(n))
    v=z3.simplify(crc32_sym([z3.BitVecVal(x,8) for x in d], INIT)).as_long()
    assert v==zlib.crc32(d, INIT), (n,v)
print('model ok')
for n in ():
    bs=[z3.BitVec('b%d'%i,8) for i in range(n)]
    pos=z3.BitVec('pos',16)   # bit index to flip
    bs2=[]
    for i,b in enumerate(bs):
        m=z3.BitVecVal(0,8)
        for k in range(8):
            m=z3.If(pos==i*8+k, z3.BitVecVal(1<<k,8), m)
        bs2.append(b^m)
    s=z3.Solver(); s.set('timeout',120000)
    s.add(z3.ULT(pos, n*8))
    s.add(crc32_sym(bs,INIT)==crc32_sym(bs2,INIT))
    t=time.time(); r=s.check(); print('payload',n,'bytes: undetected single-bit flip exists?',r,round(time.time()-t,2),flush=True)
