import warnings
warnings.simplefilter('ignore')
from cassandra.policies import RetryPolicy, DowngradingConsistencyRetryPolicy
from cassandra import ConsistencyLevel
from cassandra.timestamps import MonotonicTimestampGenerator

def default_read(cl: int, req: int, rec: int, data: bool, n: int) -> bool:
    """
    pre: 0 <= cl <= 10 and 0 <= req <= 10 and 0 <= rec <= 10 and 0 <= n <= 5
    post: _
    """
    d, c = RetryPolicy().on_read_timeout(None, cl, req, rec, data, n)
    if n != 0:
        return d == RetryPolicy.RETHROW
    if rec >= req and not data:
        return d == RetryPolicy.RETRY and c == cl
    return d == RetryPolicy.RETHROW

def down_unavail(cl: int, req: int, alive: int, n: int) -> bool:
    """
    pre: 0 <= cl <= 10 and 0 <= alive < req <= 10 and 0 <= n <= 5
    post: _
    """
    d, c = DowngradingConsistencyRetryPolicy().on_unavailable(None, cl, req, alive, n)
    if d == RetryPolicy.RETRY:
        need = {ConsistencyLevel.ONE:1, ConsistencyLevel.TWO:2, ConsistencyLevel.THREE:3}[c]
        return need <= alive and n == 0 and cl not in (ConsistencyLevel.SERIAL, ConsistencyLevel.LOCAL_SERIAL)
    return True

def ts(last: int, now: int) -> bool:
    """
    pre: 0 <= last and 0 <= now
    post: _
    """
    g = MonotonicTimestampGenerator(warn_on_drift=False)
    g.last = last
    r = g._next_timestamp(now, last)
    return r > last and r >= now and g.last == r
