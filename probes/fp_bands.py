import z3, time
rm=z3.RNE(); D=z3.Float64()
def l_dec(lo,hi,to=60000):
    s=z3.Solver(); s.set('timeout',to)
    ms=z3.BitVec('ms',64); s.add(ms>=lo, ms<=hi)
    x=z3.fpDiv(rm, z3.fpSignedToFP(rm,ms,D), z3.FPVal(1000.0,D))
    ip=z3.fpRoundToIntegral(z3.RTZ(), x); fr=z3.fpSub(rm,x,ip)
    y=z3.fpMul(rm, fr, z3.FPVal(1e6,D))
    ip2=z3.fpRoundToIntegral(z3.RTZ(), y); fr2=z3.fpSub(rm,y,ip2)
    us = z3.fpToSBV(z3.RTZ(), ip, z3.BitVecSort(64))*1000000 + z3.fpToSBV(z3.RTZ(), ip2, z3.BitVecSort(64)) + z3.fpToSBV(z3.RNE(), fr2, z3.BitVecSort(64))
    s.add(us != ms*1000)
    t=time.time(); r=s.check(); 
    print((lo,hi), r, round(time.time()-t,1), s.model()[ms] if r==z3.sat else '', flush=True)




print('--- unsat bands')
l_dec(1700000000000, 1700000000000+2**12)
l_dec(1700000000000, 1700000000000+2**16)
l_dec(1700000000000, 1700000000000+2**20, 120000)
l_dec(-2**12, 2**12)
