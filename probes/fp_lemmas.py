import z3, time
rm=z3.RNE(); D=z3.Float64()
def run(name, mk, to=120000):
    s=z3.Solver(); s.set('timeout',to); mk(s); t=time.time(); r=s.check(); print(name, r, round(time.time()-t,1), flush=True)
def l_div(s):
    k=z3.BitVec('k',64); s.add(k>=0,k<=999)
    f=z3.fpDiv(rm, z3.fpSignedToFP(rm,k*1000,D), z3.FPVal(1e3,D))
    s.add(z3.Not(z3.fpEQ(f, z3.fpSignedToFP(rm,k,D))))
def l_mul(s):
    sec=z3.BitVec('sec',64); s.add(sec>=-62135596800, sec<=253402300799)
    f=z3.fpMul(rm, z3.fpSignedToFP(rm,sec,D), z3.FPVal(1e3,D))
    s.add(z3.Not(z3.fpEQ(f, z3.fpSignedToFP(rm,sec*1000,D))))
def l_add(s):
    a=z3.BitVec('a',64); b=z3.BitVec('b',64); s.add(a>=-62135596800000, a<=253402300799000, b>=0,b<=999)
    f=z3.fpAdd(rm, z3.fpSignedToFP(rm,a,D), z3.fpSignedToFP(rm,b,D))
    s.add(z3.fpToSBV(z3.RTZ(), f, z3.BitVecSort(64)) != a+b)
run('div',l_div); run('mul',l_mul); run('add',l_add)
# decode side: ms/1000.0 then timedelta model: us = trunc(x)*1e6 + round_half_even(frac(x)*1e6); property: us == ms*1000  (expected to FAIL for large |ms|)
def l_dec(s):
    ms=z3.BitVec('ms',64); s.add(ms>=-62135596800000, ms<=253402300799999)
    x=z3.fpDiv(rm, z3.fpSignedToFP(rm,ms,D), z3.FPVal(1000.0,D))
    ip=z3.fpRoundToIntegral(z3.RTZ(), x); fr=z3.fpSub(rm,x,ip)
    y=z3.fpMul(rm, fr, z3.FPVal(1e6,D))
    ip2=z3.fpRoundToIntegral(z3.RTZ(), y); fr2=z3.fpSub(rm,y,ip2)
    us = z3.fpToSBV(z3.RTZ(), ip, z3.BitVecSort(64))*1000000 + z3.fpToSBV(z3.RTZ(), ip2, z3.BitVecSort(64)) + z3.fpToSBV(z3.RNE(), fr2, z3.BitVecSort(64))
    s.add(us != ms*1000)
run('decode-cex',l_dec)
