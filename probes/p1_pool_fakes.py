import sys, types, threading
from cassandra.connection import Connection
from cassandra.pool import HostConnection, Host, NoConnectionsAvailable
from cassandra.policies import HostDistance, SimpleConvictionPolicy

class FakeConn(Connection):
    def __init__(self, **kw):
        Connection.__init__(self, '1.2.3.4', **kw)
        self.closed_calls = 0
    def close(self):
        self.is_closed = True
        self.closed_calls += 1
    def push(self, data):
        pass

class FakeCluster:
    connect_to_remote_hosts = True
    def __init__(self): self.made = []
    def connection_factory(self, endpoint, on_orphaned_stream_released=None):
        c = FakeConn(on_orphaned_stream_released=on_orphaned_stream_released)
        self.made.append(c)
        return c
    def signal_connection_failure(self, host, exc, is_host_addition=False):
        return False
    def on_down(self, host, is_host_addition=False): pass

class FakeSession:
    keyspace = None
    def __init__(self):
        self.cluster = FakeCluster()
        self.tasks = []
    def submit(self, fn, *a, **k):
        self.tasks.append((fn, a, k))

def step_borrow(in_flight: int, max_id: int, n_orph: int, reached: bool) -> bool:
    """
    pre: 0 <= n_orph <= in_flight <= max_id <= 5
    pre: n_orph <= 3
    post: _
    """
    s = FakeSession()
    h = Host('1.2.3.4', SimpleConvictionPolicy)
    p = HostConnection(h, HostDistance.LOCAL, s)
    c = p._connection
    c.in_flight = in_flight
    c.max_request_id = max_id
    c.orphaned_request_ids = set(range(100, 100+n_orph))
    c.orphaned_threshold_reached = reached
    before = c.in_flight
    try:
        conn, rid = p.borrow_connection(timeout=0)
    except NoConnectionsAvailable:
        return before >= max_id
    return conn.in_flight == before + 1 and before < max_id and conn.in_flight <= max_id

def step_shutdown(n_trash: int) -> bool:
    """
    pre: 0 <= n_trash <= 3
    post: _
    """
    s = FakeSession()
    h = Host('1.2.3.4', SimpleConvictionPolicy)
    p = HostConnection(h, HostDistance.LOCAL, s)
    for i in range(n_trash):
        p._trash.add(s.cluster.connection_factory(None))
    p.shutdown()
    return all(c.is_closed for c in s.cluster.made)
