import sx, z3
from sx import *
from p2 import *
import cassandra.pool

def h_borrow(c):
    in_flight=fresh_int('in_flight'); max_id=fresh_int('max_id'); n_orph=fresh_int('n_orph'); reached=fresh_bool('reached')
    c.assume((0<=n_orph)); c.assume(n_orph<=in_flight); c.assume(in_flight<=max_id); c.assume(max_id<=32767); c.assume(n_orph<=3)
    s = FakeSession()
    h = Host('1.2.3.4', SimpleConvictionPolicy)
    p = HostConnection(h, HostDistance.LOCAL, s)
    cn = p._connection
    cn.in_flight = in_flight
    cn.max_request_id = max_id
    cn.orphaned_request_ids = set(range(100, 100+int(n_orph)))
    cn.orphaned_threshold_reached = reached
    before = cn.in_flight
    try:
        conn, rid = p.borrow_connection(timeout=0)
    except NoConnectionsAvailable:
        return before >= max_id
    return (conn.in_flight == before + 1) & (before < max_id) & (conn.in_flight <= max_id)

def h_shutdown(c):
    n_trash=fresh_int('n_trash'); c.assume(0<=n_trash); c.assume(n_trash<=3)
    s = FakeSession()
    h = Host('1.2.3.4', SimpleConvictionPolicy)
    p = HostConnection(h, HostDistance.LOCAL, s)
    for i in range(n_trash):
        p._trash.add(s.cluster.connection_factory(None))
    p.shutdown()
    return all(c.is_closed for c in s.cluster.made)
print(explore(h_borrow))
print(explore(h_shutdown))
