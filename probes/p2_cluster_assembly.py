import sys, types, logging, time
logging.disable(logging.CRITICAL)
from cassandra.connection import Connection
stub=types.ModuleType('cassandra.io.libevreactor')
class LibevConnection(Connection):
    made=[]
    def __init__(self,*a,**k):
        Connection.__init__(self,*a,**k); LibevConnection.made.append(self); self.connected_event.set()
    @classmethod
    def initialize_reactor(cls): pass
    @classmethod
    def create_timer(cls, timeout, cb): return types.SimpleNamespace(cancel=lambda:None)
    def close(self): self.is_closed=True
    def push(self,data): pass
stub.LibevConnection=LibevConnection
sys.modules['cassandra.io.libevreactor']=stub
import cassandra.cluster as C
from cassandra.cluster import Cluster, Session
from cassandra.pool import Host
from cassandra.policies import RoundRobinPolicy, ConstantReconnectionPolicy, HostDistance
t=time.time()
class Exec:
    def __init__(s): s.q=[]; s.inline=True
    def submit(s,fn,*a,**k):
        from concurrent.futures import Future
        f=Future()
        if s.inline:
            try: f.set_result(fn(*a,**k))
            except Exception as e: f.set_exception(e)
            return f
        s.q.append((f,fn,a,k)); return f
    def run_all(s):
        while s.q:
            f,fn,a,k=s.q.pop(0)
            try: f.set_result(fn(*a,**k))
            except Exception as e: f.set_exception(e)
    def shutdown(s,*a,**k): pass
cl=Cluster(contact_points=['127.0.0.1'], protocol_version=4, load_balancing_policy=RoundRobinPolicy(), reconnection_policy=ConstantReconnectionPolicy(1,3))
ex=Exec(); cl.executor=ex
sched=[]
cl.scheduler=types.SimpleNamespace(schedule=lambda d,fn,*a,**k: sched.append((d,fn,a,k)), schedule_unique=lambda d,fn,*a,**k: sched.append((d,fn,a,k)), shutdown=lambda: None)
cl.control_connection=types.SimpleNamespace(on_up=lambda h:None,on_down=lambda h:None,on_add=lambda h,r=True:None,on_remove=lambda h:None, shutdown=lambda:None, _connection=None)
events=[]
class L:
    def on_up(s,h): events.append(('up',h))
    def on_down(s,h): events.append(('down',h))
    def on_add(s,h): events.append(('add',h))
    def on_remove(s,h): events.append(('remove',h))
cl.register_listener(L())
h,new=cl.add_host(cl.endpoints_resolved[0] if cl.endpoints_resolved else '127.0.0.1', signal=False); h.set_up()
cl.profile_manager.populate(cl, [h]); 
sess=Session(cl,[h]); cl.sessions.add(sess); ex.inline=False
print('pools', sess._pools, 'conns', len(LibevConnection.made))
cl.on_down(h, is_host_addition=False); ex.run_all()
print('after down: is_up',h.is_up,'reconnector',h._reconnection_handler is not None,'sched',len(sched),'events',events)
# run reconnector success
d,fn,a,k=sched.pop(0); fn(*a,**k); ex.run_all()
print('after reconnect: is_up',h.is_up,'reconnector',h._reconnection_handler,'events',events,'pools',list(sess._pools))
print('setup time',round(time.time()-t,2))
