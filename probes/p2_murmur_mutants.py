import sys, time, z3, ir, core, types
from sym import SInt
import t_murmur as T
src=open('/repo/cassandra/murmur3.py').read()
muts={
 'c2const': ("c2 = 0x4cf5ad432745937f","c2 = 0x4cf5ad432745937e"),
 'rot33': ("k2 = rotl64(k2, 33)\n        k2 *= c1\n        h2 ^= k2\n\n    if len_tail:","k2 = rotl64(k2, 31)\n        k2 *= c1\n        h2 ^= k2\n\n    if len_tail:"),
 'fmixmask': ("k ^= (k >> 33) & 0x7fffffff\n    k *= 0xc4ceb9fe1a85ec53","k ^= (k >> 33) & 0x3fffffff\n    k *= 0xc4ceb9fe1a85ec53"),
 'tail8': ("if len_tail > 8:","if len_tail > 9:"),
 'h5': ("h2 = h2 * 5 + 0x38495ab5","h2 = h2 * 5 + 0x38495ab6"),
}
for name,(a,b) in muts.items():
    assert a in src, name
    m=types.ModuleType('mm'); exec(compile(src.replace(a,b).replace("from cassandra.cmurmur3 import murmur3","raise ImportError"),'mm','exec'),m.__dict__)
    m.body_and_tail=T.sym_body_and_tail
    found=None; t0=time.time()
    for L in (0,1,8,9,10,15,16,17,25,32):
        def h(c):
            bs=[SInt(ir.var('b%d'%i,0,255)) for i in range(L)]
            impl=m._murmur3(bs); spec=T.ref_murmur(bs)
            return impl == ((spec ^ (1<<63)) - (1<<63))
        try:
            st,cex=core.explore(h)
        except RuntimeError as e:
            found=('unknown',L); break
        if cex: found=(L,[cex[0].eval(z3.BitVec('b%d'%i,9),model_completion=True).as_long() for i in range(L)]); break
    print(name, found, round(time.time()-t0,1),'s')
