import sys, time, z3, ir
from sym import SInt
import cassandra.murmur3 as M
M64=(1<<64)-1
def ref_rotl(x,r): return ((x<<r)|(x>>(64-r)))&M64
def ref_fmix(k):
    k^=k>>33; k=(k*0xff51afd7ed558ccd)&M64; k^=k>>33; k=(k*0xc4ceb9fe1a85ec53)&M64; k^=k>>33; return k
def ref_murmur(bs):
    """independent spec: Cassandra MurmurHash.hash3_x64_128 first long, over list of unsigned byte values (ints or SInt)"""
    c1=0x87c37b91114253d5; c2=0x4cf5ad432745937f
    n=len(bs); nb=n//16; h1=h2=0
    def sb(b):  # java signed byte as long, masked to 64
        return ((b ^ 0x80) - 0x80) & M64
    def block(i):
        v=0
        for j in range(8): v = v | ((bs[i+j] & 0xff) << (8*j))
        return v
    for i in range(nb):
        k1=block(i*16); k2=block(i*16+8)
        k1=(k1*c1)&M64; k1=ref_rotl(k1,31); k1=(k1*c2)&M64; h1^=k1
        h1=ref_rotl(h1,27); h1=(h1+h2)&M64; h1=(h1*5+0x52dce729)&M64
        k2=(k2*c2)&M64; k2=ref_rotl(k2,33); k2=(k2*c1)&M64; h2^=k2
        h2=ref_rotl(h2,31); h2=(h2+h1)&M64; h2=(h2*5+0x38495ab5)&M64
    off=nb*16; k1=k2=0; t=n&15
    for i in range(t-1,7,-1): k2 ^= (sb(bs[off+i]) << ((i-8)*8)) & M64
    if t>8:
        k2=(k2*c2)&M64; k2=ref_rotl(k2,33); k2=(k2*c1)&M64; h2^=k2
    for i in range(min(7,t-1),-1,-1): k1 ^= (sb(bs[off+i]) << (i*8)) & M64
    if t>0:
        k1=(k1*c1)&M64; k1=ref_rotl(k1,31); k1=(k1*c2)&M64; h1^=k1
    h1^=n; h2^=n
    h1=(h1+h2)&M64; h2=(h2+h1)&M64
    h1=ref_fmix(h1); h2=ref_fmix(h2)
    h1=(h1+h2)&M64
    return h1   # unsigned 64; signed interpretation is the token

# model of struct.unpack_from for body_and_tail: stub via module patch
def sym_body_and_tail(data):
    l=len(data); nb=l//16; tail=l%16
    body=[]
    for i in range(nb*2):
        v=0
        for j in range(8): v = v | (data[i*8+j] << (8*j))
        # signed 'q'
        v = ((v ^ (1<<63)) - (1<<63)) if not isinstance(v,int) else v
        body.append(v)
    tl=[ (b ^ 0x80) - 0x80 for b in data[l-tail:]] if tail else []
    return tuple(body), tuple(tl), l
M.body_and_tail = sym_body_and_tail   # (probe shortcut: real engine models struct.unpack_from from format string)

for L in ([int(a) for a in sys.argv[1:]] if __name__=="__main__" else []):
    t0=time.time()
    bs=[SInt(ir.var('b%d'%i,0,255)) for i in range(L)]
    import core
    def h(c):
        bs=[SInt(ir.var('b%d'%i,0,255)) for i in range(L)]
        impl=M._murmur3(bs)
        spec=ref_murmur(bs)
        # token = signed interpretation of spec
        spec_signed = (spec ^ (1<<63)) - (1<<63)
        return impl == spec_signed
    st,cex=core.explore(h)
    print(L, st, cex[:1])
