import sys, types, time, logging
logging.disable(logging.CRITICAL)
sys.path.insert(0,'/root/scratch/p')
import sx
from sx import *
from cassandra.connection import Connection, ConnectionShutdown, ConnectionException
stub=types.ModuleType('cassandra.io.libevreactor')
class Timer:
    def __init__(s,at,cb): s.at=at; s.cb=cb; s.cancelled=False; s.fired=False
    def cancel(s): s.cancelled=True
class LibevConnection(Connection):
    clock=0; timers=[]
    @classmethod
    def create_timer(cls, timeout, cb):
        t=Timer(cls.clock+timeout, cb); cls.timers.append(t); return t
    def close(self): self.is_closed=True
    def push(self,data): pass
stub.LibevConnection=LibevConnection
sys.modules['cassandra.io.libevreactor']=stub
import cassandra.cluster as C
from cassandra.cluster import ResponseFuture
from cassandra.protocol import ResultMessage, RESULT_KIND_VOID, QueryMessage, ReadTimeoutErrorMessage, OverloadedErrorMessage, UnavailableErrorMessage
from cassandra.query import SimpleStatement
from cassandra.policies import RetryPolicy, ConstantSpeculativeExecutionPolicy
from unittest.mock import Mock
C.time=types.SimpleNamespace(time=lambda: LibevConnection.clock)

class H:
    def __init__(s,e): s.endpoint=e
    def __repr__(s): return s.endpoint
class FakeConn:
    def __init__(s): s._requests={}; s.lock=__import__('threading').RLock(); s.orphaned_request_ids=set(); s.orphaned_threshold=100; s.orphaned_threshold_reached=False; s.is_defunct=False; s.keyspace=None
    def send_msg(s,msg,rid,cb,**k): s._requests[rid]=cb; return 1
    def defunct(s,e): s.is_defunct=True
class Pool:
    is_shutdown=False
    def __init__(s,host): s.conn=FakeConn(); s.n=0; s.returned=0; s.host=host
    def borrow_connection(s, timeout): s.n+=1; return s.conn, s.n
    def return_connection(s, c, stream_was_orphaned=False): s.returned+=1

class SymPolicy(RetryPolicy):
    def __init__(s): s.k=0
    def _d(s):
        s.k+=1
        d=fresh_int('dec%d'%s.k); Ctx.cur.assume(0<=d); Ctx.cur.assume(d<=3)
        return int(d), None
    def on_read_timeout(s,*a,**k): return s._d()
    def on_unavailable(s,*a,**k): return s._d()
    def on_request_error(s,*a,**k): return s._d()

def mk_resp(kind):
    if kind==0: return ResultMessage(RESULT_KIND_VOID)
    if kind==1: return ReadTimeoutErrorMessage(0x1200,'x',{'consistency':1,'required_responses':2,'received_responses':1,'data_retrieved':False})
    if kind==2: return OverloadedErrorMessage(0x1001,'x',None)
    if kind==3: return ConnectionShutdown('x')

N=int(sys.argv[1]) if len(sys.argv)>1 else 4
def h(c):
    LibevConnection.clock=0; LibevConnection.timers=[]
    tasks=[]
    session=Mock(); session.cluster.connection_class=LibevConnection
    session.submit=lambda fn,*a,**k: tasks.append((fn,a,k))
    hosts=[H('h%d'%i) for i in (1,2,3)]
    pools={h_:Pool(h_) for h_ in hosts}; session._pools=pools
    lb=Mock(); lb.make_query_plan.return_value=hosts
    msg=QueryMessage('q', 1)
    spec=ConstantSpeculativeExecutionPolicy(1,2).new_plan(None,None)
    rf=ResponseFuture(session, msg, SimpleStatement('q',is_idempotent=True), timeout=10, load_balancer=lb, retry_policy=SymPolicy(), speculative_execution_plan=spec)
    calls=[]; errs=[]
    rf.add_callbacks(lambda r: calls.append(r), lambda e: errs.append(e))
    rf.send_request()
    for step in range(N):
        # enabled events
        ev=[]
        for hname,p in pools.items():
            for rid,cb in list(p.conn._requests.items()): ev.append(('resp',p,rid,cb))
        for t in LibevConnection.timers:
            if not t.cancelled and not t.fired: ev.append(('timer',t))
        for i,t in enumerate(tasks): ev.append(('task',i))
        if not ev: break
        ch=fresh_int('ev%d'%step); c.assume(0<=ch); c.assume(ch<len(ev))
        e=ev[int(ch)]
        if e[0]=='resp':
            _,p,rid,cb=e; del p.conn._requests[rid]
            kind=fresh_int('kind%d'%step); c.assume(0<=kind); c.assume(kind<=3)
            cb(mk_resp(int(kind)))
        elif e[0]=='timer':
            t=e[1]; t.fired=True; LibevConnection.clock=max(LibevConnection.clock,t.at); t.cb()
        else:
            fn,a,k=tasks.pop(e[1]); fn(*a,**k)
    return len(calls)+len(errs) <= 1
t=time.time(); r=explore(h, max_paths=2000000); print(N, r, time.time()-t)
