import sys, time, z3, logging
logging.disable(logging.CRITICAL)
import instr; instr.install('cassandra.connection')
import ir, core, hooks
from sym import SInt
from hooks import SBytes, concretize
import cassandra.connection as cn
from cassandra.connection import Connection
class FC(Connection):
    def close(self): self.is_closed=True
    def push(self,d): pass
def ident_decoder(version, utm, stream_id, flags, opcode, body, decomp, rmeta): return ('msg', stream_id, body)
NF=int(sys.argv[1]); K=int(sys.argv[2])
def h(c):
    conn=FC('1.2.3.4', protocol_version=4)
    got=[]
    frames=[]; stream=[]
    for i in range(NF):
        sid=SInt(ir.var('sid%d'%i,0,3))
        blen=SInt(ir.var('len%d'%i,0,2))
        L=concretize(blen)
        body=[SInt(ir.var('f%db%d'%(i,j),0,255)) for j in range(L)]
        hdr=[0x84, 0, 0, sid, 8, 0,0,0,L]   # v4 response, flags 0, stream (2 bytes: hi=0, lo=sid), opcode RESULT, length
        stream+=hdr+body; frames.append((sid,body))
        s_=concretize(sid)  # register callback per concrete stream id (dict key)
        if s_ in conn._requests: raise core.Abort()   # distinct outstanding streams only
        conn._requests[s_]=((lambda r,i=i: got.append((i,r))), ident_decoder, None)
    total=len(stream)
    # K reads with symbolic cut points 0<=c1<=c2<=...<=total
    cuts=[]; prev=0
    for k in range(K-1):
        ck=SInt(ir.var('cut%d'%k,0,total)); c.assume(ck>=prev); cuts.append(ck); prev=ck
    pts=[0]+[concretize(x) for x in cuts]+[total]
    for a,b in zip(pts,pts[1:]):
        if b>a:
            conn._iobuf.write(SBytes(stream[a:b]))
            conn.process_io_buffer()
            # never deliver more than complete frames so far
    if conn.is_defunct:
        import traceback; e=conn.last_error; print('DEFUNCT', repr(e)); traceback.print_exception(type(e),e,e.__traceback__); return False
    if len(got)!=NF: return False
    ok=None
    for (i,r),(sid,body) in zip(got,frames):
        if r[0]!='msg': return False
        e=(r[1]==sid)
        e=e.e if isinstance(e,core.SBool) else z3.BoolVal(bool(e))
        e2=(SBytes(list(r[2]))==body); e2=e2.e if isinstance(e2,core.SBool) else z3.BoolVal(bool(e2))
        ok=z3.And(e,e2) if ok is None else z3.And(ok,e,e2)
    return core.SBool(ok)
t=time.time(); print(core.explore(h, max_paths=10**7), round(time.time()-t,1))
