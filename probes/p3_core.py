"""probe: minimal proxy-based symbolic executor (decision replay) on z3"""
import z3, time

class Abort(BaseException): pass   # infeasible path / assumption failed

class Ctx:
    cur = None
    def __init__(self):
        self.solver = z3.Solver()
        import ir as _ir; _ir.DOMAIN.clear()
        self.prefix = []      # list of [decision(bool), flipped(bool)]
        self.pos = 0
        self.nq = 0
        self.tq = 0.0
        self.fresh = 0
    def check(self, *extra, optimistic=False):
        t=time.time(); self.nq += 1
        if optimistic: self.solver.set('timeout', 300)
        else: self.solver.set('timeout', 600000)
        r = self.solver.check(*extra)
        self.tq += time.time()-t
        if r == z3.unknown:
            if optimistic: self.nunk = getattr(self,'nunk',0)+1; return True
            raise RuntimeError("unknown")
        return r == z3.sat
    def branch(self, expr, on_true=None, on_false=None):
        if isinstance(expr,tuple):
            # wide comparison: fork without consulting the solver; record lazily-built condition
            if self.pos < len(self.prefix): d=self.prefix[self.pos][0]
            else: d=True; self.prefix.append([True,False])
            self.pos+=1
            self.lazy=getattr(self,'lazy',[])+[(expr,d)]
            if d and on_true: on_true()
            if (not d) and on_false: on_false()
            return d
        expr = z3.simplify(expr)
        if z3.is_true(expr): return True
        if z3.is_false(expr): return False
        if self.pos < len(self.prefix):
            d = self.prefix[self.pos][0]
        else:
            can_t = self.check(expr, optimistic=True)
            can_f = self.check(z3.Not(expr), optimistic=True)
            if can_t and can_f:
                d = True; self.prefix.append([True, False])
            elif can_t:
                d = True; self.prefix.append([True, True])
            elif can_f:
                d = False; self.prefix.append([False, True])
            else:
                raise Abort()
        self.pos += 1
        self.solver.add(expr if d else z3.Not(expr))
        if d and on_true: on_true()
        if (not d) and on_false: on_false()
        return d
    def assume(self, b):
        if not bool(b): raise Abort()

def sym(x):
    return x

class SBool:
    __slots__=('e','on_true','on_false')
    def __init__(self,e,on_true=None,on_false=None): self.e=e; self.on_true=on_true; self.on_false=on_false
    def __bool__(self): return Ctx.cur.branch(self.e, self.on_true, self.on_false)
    def __and__(self,o): return SBool(z3.And(self.e,_b(o)))
    def __or__(self,o): return SBool(z3.Or(self.e,_b(o)))
    def __invert__(self): return SBool(z3.Not(self.e))
def _b(o): return o.e if isinstance(o,SBool) else z3.BoolVal(bool(o))
def _i(o):
    if isinstance(o,SInt): return o.e
    if isinstance(o,bool): return z3.IntVal(int(o))
    if isinstance(o,int): return z3.IntVal(o)
    return None
class SInt:
    __slots__=('e',)
    def __init__(self,e): self.e=e
    def _bin(self,o,f):
        x=_i(o)
        if x is None: return NotImplemented
        return SInt(f(self.e,x))
    def _rbin(self,o,f):
        x=_i(o)
        if x is None: return NotImplemented
        return SInt(f(x,self.e))
    def _cmp(self,o,f):
        x=_i(o)
        if x is None: return NotImplemented
        return SBool(f(self.e,x))
    def __add__(s,o): return s._bin(o,lambda a,b:a+b)
    def __radd__(s,o): return s._rbin(o,lambda a,b:a+b)
    def __sub__(s,o): return s._bin(o,lambda a,b:a-b)
    def __rsub__(s,o): return s._rbin(o,lambda a,b:a-b)
    def __mul__(s,o): return s._bin(o,lambda a,b:a*b)
    def __rmul__(s,o): return s._rbin(o,lambda a,b:a*b)
    def __neg__(s): return SInt(-s.e)
    def __lt__(s,o): return s._cmp(o,lambda a,b:a<b)
    def __le__(s,o): return s._cmp(o,lambda a,b:a<=b)
    def __gt__(s,o): return s._cmp(o,lambda a,b:a>b)
    def __ge__(s,o): return s._cmp(o,lambda a,b:a>=b)
    def __eq__(s,o):
        r = s._cmp(o,lambda a,b:a==b)
        return False if r is NotImplemented else r
    def __ne__(s,o):
        r = s._cmp(o,lambda a,b:a!=b)
        return True if r is NotImplemented else r
    def __bool__(s): return Ctx.cur.branch(s.e != 0)
    def concretize(s):
        c=Ctx.cur
        # fork over values: binary decisions "e == v?"
        while True:
            assert c.check()
            v = c.solver.model().eval(s.e, model_completion=True).as_long()
            if c.branch(s.e == v): return v
    __index__ = concretize
    __int__ = concretize
    def __hash__(s): return hash(s.concretize())
    def __repr__(s): return "SInt(%s)"%s.e

def fresh_int(name):
    return SInt(z3.Int(name))
def fresh_bool(name):
    return SBool(z3.Bool(name))

def explore(fn, max_paths=100000):
    """fn(ctx) builds symbolic inputs, runs, returns SBool/bool property. returns stats, cex list"""
    prefix=[]
    paths=0; cex=[]; t0=time.time(); nq=0; tq=0
    while True:
        c=Ctx(); c.prefix=prefix; Ctx.cur=c
        try:
            ok = fn(c)
            # property check: is not ok feasible?
            if isinstance(ok,SBool):
                s2=z3.Solver(); s2.set('timeout',60000); import ir as _ir; s2.add(*_ir.DOMAIN); s2.add(z3.Not(ok.e)); t=time.time(); r2=s2.check(); c.tq+=time.time()-t; c.nq+=1
                if r2==z3.unsat: pass
                elif c.check(z3.Not(ok.e)):
                    cex.append(c.solver.model())
            elif not ok:
                c.check(); cex.append(c.solver.model())
            paths+=1
        except Abort:
            pass
        nq+=c.nq; tq+=c.tq
        prefix = c.prefix[:c.pos] if c.pos<len(c.prefix) else c.prefix
        # backtrack
        while prefix and prefix[-1][1]:
            prefix.pop()
        if not prefix: break
        prefix[-1]=[not prefix[-1][0], True]
        if paths>=max_paths: raise RuntimeError("path bound")
        if cex: break
    return dict(paths=paths, queries=nq, solver_s=round(tq,3), wall_s=round(time.time()-t0,3)), cex
