import struct, io, z3, ir, core
from sym import SInt

def is_sym(x): return isinstance(x,(SInt,SBytes,SByteArray,HexStr,core.SBool))

def concretize(x):
    if not isinstance(x,SInt): return x
    n=x.n
    if n.op=='c': return n.a[0]
    c=core.Ctx.cur
    while True:
        if not c.check():
            print('INFEASIBLE at concretize', n.op, n.lo, n.hi, c.prefix, c.pos); print(c.solver.assertions()); raise core.Abort()
        w=n.w
        v=c.solver.model().eval(ir.low(n,w), model_completion=True).as_signed_long()
        if c.branch(ir.low(n,w)==z3.BitVecVal(v,w)):
            x.n=ir.const(v); return v
SInt.__index__=concretize
SInt.__int__=concretize
def _bit_length(s):
    return SInt(ir.bitlen(ir.absn(s.n)))
SInt.bit_length=_bit_length
SInt.__abs__=lambda s: SInt(ir.absn(s.n))
def _floordiv(s,o):
    assert isinstance(o,int) and o>0 and o&(o-1)==0
    return SInt(ir.shr(s.n,o.bit_length()-1))
SInt.__floordiv__=_floordiv
def _rlshift(s,o):   # o << s : concretise shift amount by forking
    return o << concretize(s)
SInt.__rlshift__=_rlshift
def _rrshift(s,o): return o >> concretize(s)
SInt.__rrshift__=_rrshift
_old_lshift=SInt.__lshift__
SInt.__lshift__=lambda s,k: SInt(ir.shl(s.n,concretize(k))) 
SInt.__rshift__=lambda s,k: SInt(ir.shr(s.n,concretize(k)))

def byte(x):
    return x
class SBytes:
    """immutable bytes: list of ints/SInt(0..255), concrete length"""
    def __init__(s,items): s.b=list(items)
    def __len__(s): return len(s.b)
    def __getitem__(s,i):
        if isinstance(i,slice):
            i=slice(concretize(i.start),concretize(i.stop),concretize(i.step)); return SBytes(s.b[i])
        return s.b[concretize(i)]
    def __iter__(s): return iter(s.b)
    def __add__(s,o): return SBytes(s.b+list(o))
    def __radd__(s,o): return SBytes(list(o)+s.b)
    def __eq__(s,o):
        o=list(o)
        if len(o)!=len(s.b): return False
        r=None
        for x,y in zip(s.b,o):
            e = (x==y)
            e = e.e if isinstance(e,core.SBool) else z3.BoolVal(bool(e))
            r = e if r is None else z3.And(r,e)
        return core.SBool(r if r is not None else z3.BoolVal(True))
    __hash__=None
class SByteArray(SBytes):
    def append(s,x): s.b.append(x)
    def reverse(s): s.b.reverse()
class HexStr:
    def __init__(s,bytes_): s.bytes=list(bytes_)

STRUCT_FMT={'b':(1,True),'B':(1,False),'h':(2,True),'H':(2,False),'i':(4,True),'I':(4,False),'q':(8,True),'Q':(8,False)}
def struct_pack(st, *vals):
    fmt=st.format; order=fmt[0]; codes=fmt[1:]; out=[]
    assert order in '<>' and len(codes)==len(vals)
    for cde,v in zip(codes,vals):
        size,signed=STRUCT_FMT[cde]
        lo,hi = (-(1<<(8*size-1)),(1<<(8*size-1))-1) if signed else (0,(1<<(8*size))-1)
        if isinstance(v,SInt):
            if not bool((v>=lo) & (v<=hi)): raise struct.error('out of range')
        elif not lo<=v<=hi: raise struct.error('out of range')
        bs=[ (v>>(8*k)) & 0xff for k in range(size)]
        if order=='>': bs.reverse()
        out+=bs
    return SBytes(out)
def struct_unpack(st, data):
    fmt=st.format; order=fmt[0]; codes=fmt[1:]; data=list(data); out=[]; p=0
    if len(data)!=st.size: raise struct.error('unpack requires a buffer of %d bytes'%st.size)
    for cde in codes:
        size,signed=STRUCT_FMT[cde]
        bs=data[p:p+size]; p+=size
        if order=='>': bs=bs[::-1]
        v=0
        for k,b in enumerate(bs): v = v | (b<<(8*k))
        if signed: v=(v ^ (1<<(8*size-1))) - (1<<(8*size-1))
        out.append(v)
    return tuple(out)

class SBytesIO:
    def __init__(s,init=()): s.b=list(init); s.pos=0
    def write(s,data):
        data=list(data); s.b[s.pos:s.pos+len(data)]=data; s.pos+=len(data); return len(data)
    def getvalue(s): return SBytes(s.b)
    def read(s,n=-1):
        n=concretize(n)
        r=s.b[s.pos:] if n is None or n<0 else s.b[s.pos:s.pos+n]; s.pos+=len(r); return SBytes(r)
    def seek(s,p,wh=0): s.pos = p if wh==0 else (s.pos+p if wh==1 else len(s.b)+p); return s.pos
    def tell(s): return s.pos

def call(f,*a,**k):
    if f is bytearray and not a: return SByteArray([])
    if f is io.BytesIO: return SBytesIO(*a)
    selfobj=getattr(f,'__self__',None)
    if isinstance(selfobj,struct.Struct):
        anysym = any(is_sym(x) for x in a)
        if f.__name__=='pack' and anysym: return struct_pack(selfobj,*a)
        if f.__name__=='unpack' and anysym: return struct_unpack(selfobj,*a)
        if f.__name__=='unpack_from' and isinstance(a[0],SBytes):
            off=a[1] if len(a)>1 else k.get('offset',0)
            return struct_unpack(selfobj, SBytes(a[0].b[off:off+selfobj.size]))
    if f is bytes and a and isinstance(a[0],SBytes): return SBytes(a[0].b)
    if f is bytes and a and isinstance(a[0],(list,tuple)) and any(is_sym(x) for x in a[0]): return SBytes(a[0])
    if f is len and a and isinstance(a[0],(SBytes,)): return len(a[0].b)
    if f is int.bit_length and isinstance(a[0],SInt): return a[0].bit_length()
    if f is abs and isinstance(a[0],SInt): return abs(a[0])
    if f is int and a and isinstance(a[0],SInt): return a[0]
    if f is int and a and isinstance(a[0],HexStr):
        v=0; bs=a[0].bytes
        for i,b in enumerate(bs): v = v | (b << (8*(len(bs)-1-i)))
        return v
    if f is max and any(is_sym(x) for x in a):
        r=a[0]
        for x in a[1:]: r = x if bool(x>r) else r
        return r
    if selfobj is not None and isinstance(selfobj,str) and f.__name__=='join':
        items=list(a[0])
        if any(isinstance(x,HexStr) for x in items):
            out=[]
            for x in items: out+= x.bytes if isinstance(x,HexStr) else list(bytes.fromhex(x))
            return HexStr(out)
        return f(items)
    if isinstance(selfobj,(bytes,)) and f.__name__=='join':
        items=list(a[0])
        if any(isinstance(x,SBytes) for x in items):
            out=[]
            for x in items: out+=list(x)
            return SBytes(out)
        return f(items)
    return f(*a,**k)
def mod(l,r):
    if isinstance(l,str) and l=='%02x' and isinstance(r,SInt): return HexStr([r])
    return l % r
def not_(x):
    if isinstance(x,core.SBool): return core.SBool(z3.Not(x.e))
    return not x
SInt.__hash__=lambda s: hash(concretize(s))
