"""probe: AST instrumentation of selected /repo modules via import hook"""
import ast, sys, importlib.abc, importlib.util, importlib.machinery

class T(ast.NodeTransformer):
    def visit_Call(self, node):
        self.generic_visit(node)
        if isinstance(node.func, ast.Name) and node.func.id in ('super','locals','globals','vars','eval','exec','__sx_call__','__sx_mod__','__sx_not__','__sx_fstr__'):
            return node
        return ast.copy_location(ast.Call(func=ast.Name('__sx_call__', ast.Load()), args=[node.func]+node.args, keywords=node.keywords), node)
    def visit_BinOp(self, node):
        self.generic_visit(node)
        if isinstance(node.op, ast.Mod):
            return ast.copy_location(ast.Call(func=ast.Name('__sx_mod__', ast.Load()), args=[node.left,node.right], keywords=[]), node)
        return node
    def visit_UnaryOp(self, node):
        self.generic_visit(node)
        if isinstance(node.op, ast.Not):
            return ast.copy_location(ast.Call(func=ast.Name('__sx_not__', ast.Load()), args=[node.operand], keywords=[]), node)
        return node

TARGETS=set()
class Finder(importlib.abc.MetaPathFinder, importlib.abc.Loader):
    def find_spec(self, name, path, target=None):
        if name not in TARGETS: return None
        spec = importlib.machinery.PathFinder.find_spec(name, path)
        if spec is None or not spec.origin or not spec.origin.endswith('.py'): return None
        spec.loader = self
        return spec
    def create_module(self, spec): return None
    def exec_module(self, module):
        import hooks
        src=open(module.__spec__.origin).read()
        tree=T().visit(ast.parse(src, module.__spec__.origin)); ast.fix_missing_locations(tree)
        code=compile(tree, module.__spec__.origin, 'exec')
        module.__dict__['__sx_call__']=hooks.call; module.__dict__['__sx_mod__']=hooks.mod; module.__dict__['__sx_not__']=hooks.not_
        exec(code, module.__dict__)
def install(*names):
    TARGETS.update(names)
    if not any(isinstance(f,Finder) for f in sys.meta_path): sys.meta_path.insert(0, Finder())
