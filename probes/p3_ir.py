"""probe: integer IR with exact Python-int semantics, interval analysis, demand-driven lowering to z3 BV"""
import z3

def bits_for(lo, hi):
    """min signed width holding [lo,hi]"""
    w = 1
    while not (-(1 << (w-1)) <= lo and hi <= (1 << (w-1)) - 1):
        w += 1
    return w

class N:
    __slots__ = ('op','a','lo','hi','_z')
    def __init__(s, op, a, lo, hi):
        s.op=op; s.a=a; s.lo=lo; s.hi=hi; s._z={}
    @property
    def w(s): return bits_for(s.lo, s.hi)

def const(v): return N('c', (v,), v, v)
DOMAIN=[]
def var(name, lo, hi):
    n=N('v', (name,), lo, hi)
    v=z3.BitVec(name, n.w)
    DOMAIN.append(z3.And(v>=lo, v<=hi))
    import core as _c
    if _c.Ctx.cur is not None: _c.Ctx.cur.solver.add(DOMAIN[-1])
    return n

def _corners(f, a, b):
    vs=[f(x,y) for x in (a.lo,a.hi) for y in (b.lo,b.hi)]
    return min(vs), max(vs)

def add(a,b):
    if a.op=='c' and b.op=='c': return const(a.a[0]+b.a[0])
    return N('+',(a,b),a.lo+b.lo,a.hi+b.hi)
def sub(a,b):
    if a.op=='c' and b.op=='c': return const(a.a[0]-b.a[0])
    # sign-extension idiom: (x ^ 2^(k-1)) - 2^(k-1), x in [0,2^k)
    if b.op=='c' and a.op=='^':
        c=b.a[0]
        for x,y in ((a.a[0],a.a[1]),(a.a[1],a.a[0])):
            if y.op=='c' and y.a[0]==c and c>0 and c&(c-1)==0 and x.lo>=0 and x.hi<2*c:
                k=c.bit_length()
                return N('sxt',(x,k),-c,c-1)
    return N('-',(a,b),a.lo-b.hi,a.hi-b.lo)
def mul(a,b):
    if a.op=='c' and b.op=='c': return const(a.a[0]*b.a[0])
    lo,hi=_corners(lambda x,y:x*y,a,b); return N('*',(a,b),lo,hi)
def neg(a):
    if a.op=='c': return const(-a.a[0])
    return N('neg',(a,),-a.hi,-a.lo)
def inv(a):
    if a.op=='c': return const(~a.a[0])
    return N('~',(a,),~a.hi,~a.lo)
def shl(a,k):
    if a.op=='c': return const(a.a[0]<<k)
    return N('<<',(a,k),a.lo<<k,a.hi<<k)
def shr(a,k):
    if a.op=='c': return const(a.a[0]>>k)
    return N('>>',(a,k),a.lo>>k,a.hi>>k)
def _bitrange(a,b):
    # bounds for |,^ : conservative
    if a.lo>=0 and b.lo>=0:
        k=max(a.hi.bit_length(),b.hi.bit_length()); return 0,(1<<k)-1
    w=max(a.w,b.w); return -(1<<(w-1)),(1<<(w-1))-1
def band(a,b):
    if a.op=='c' and b.op=='c': return const(a.a[0]&b.a[0])
    if b.op=='c' and b.a[0]>=0: lo,hi=0,b.a[0]
    elif a.op=='c' and a.a[0]>=0: lo,hi=0,a.a[0]
    elif a.lo>=0 and b.lo>=0: lo,hi=0,min(a.hi,b.hi)
    elif a.lo>=0: lo,hi=0,a.hi
    elif b.lo>=0: lo,hi=0,b.hi
    else: lo,hi=_bitrange(a,b)
    return N('&',(a,b),lo,hi)
def bor(a,b):
    if a.op=='c' and b.op=='c': return const(a.a[0]|b.a[0])
    lo,hi=_bitrange(a,b); return N('|',(a,b),lo,hi)
def bxor(a,b):
    if a.op=='c' and b.op=='c': return const(a.a[0]^b.a[0])
    lo,hi=_bitrange(a,b); return N('^',(a,b),lo,hi)
def ite(c,a,b):
    return N('ite',(c,a,b),min(a.lo,b.lo),max(a.hi,b.hi))
def modpow2(a,k):
    return band(a,const((1<<k)-1))

# ---- lowering: low(n, e) gives z3 BV of width n equal to e mod 2^n (two's complement low bits)
_TERMS={}
def ckey(e,n):
    k=('k',n)
    if k in e._z: return e._z[k]
    op=e.op
    if op=='c': r=('c',e.a[0]&((1<<n)-1),n)
    elif op=='v': r=('v',e.a[0],e.w,n)
    elif op in ('sxt',):
        x,kk=e.a
        r=ckey(x,n) if n<=kk else ('sxt',ckey(x,kk),kk,n)
    elif op=='ref':
        w=e.w
        r=ckey(e.a[0],n) if n<=w else ('sxt',ckey(e.a[0],w),w,n)
    elif op in ('+','*','|','^'):
        r=(op,n)+tuple(sorted((ckey(e.a[0],n),ckey(e.a[1],n)),key=repr))
    elif op=='&':
        a,b=e.a; m=None
        if b.op=='c' and b.a[0]>=0: m=b.a[0]; x=a
        elif a.op=='c' and a.a[0]>=0: m=a.a[0]; x=b
        if m is not None and (m & ((1<<n)-1))==(1<<n)-1: r=ckey(x,n)
        elif m is not None and m.bit_length()<n:
            k2=max(m.bit_length(),1)
            inner = ckey(x,k2) if m==(1<<k2)-1 else ('&',k2,ckey(x,k2),('c',m,k2))
            r=('zxt',inner,k2,n)
        else: r=('&',n)+tuple(sorted((ckey(a,n),ckey(b,n)),key=repr))
    elif op in ('-',): r=(op,n,ckey(e.a[0],n),ckey(e.a[1],n))
    elif op in ('neg','~'): r=(op,n,ckey(e.a[0],n))
    elif op=='<<':
        a,k2=e.a
        r=ckey(a,n) if k2==0 else (('c',0,n) if k2>=n else ('shl',ckey(a,n-k2),k2,n))
    elif op=='>>':
        a,k2=e.a; need=n+k2; aw=a.w
        if k2==0: r=ckey(a,n)
        elif need<=aw: r=('ext',ckey(a,need),k2,n)
        else: r=('ext',('sxt',ckey(a,aw),aw,need),k2,n)
    elif op=='ite': r=('ite',n,e.a[0].get_id(),ckey(e.a[1],n),ckey(e.a[2],n))
    else: raise NotImplementedError(op)
    e._z[k]=r
    return r

def build(k):
    if k in _TERMS: return _TERMS[k]
    t=k[0]
    if t=='c': r=z3.BitVecVal(k[1],k[2])
    elif t=='v':
        v=z3.BitVec(k[1],k[2]); n=k[3]; w=k[2]
        r = z3.Extract(n-1,0,v) if n<w else (v if n==w else z3.SignExt(n-w,v))
    elif t=='sxt': r=z3.SignExt(k[3]-k[2], build(k[1]))
    elif t=='zxt': r=z3.ZeroExt(k[3]-k[2], build(k[1]))
    elif t in ('+','*','|','^','&') : 
        a=build(k[2]); b=build(k[3]) if not (t=='&' and isinstance(k[1],int) and len(k)==4 and k[3][0]=='c' and False) else None
        r={'+':lambda:a+b,'*':lambda:a*b,'|':lambda:a|b,'^':lambda:a^b,'&':lambda:a&b}[t]()
    elif t=='-': r=build(k[2])-build(k[3])
    elif t=='neg': r=-build(k[2])
    elif t=='~': r=~build(k[2])
    elif t=='shl': r=z3.Concat(build(k[1]), z3.BitVecVal(0,k[2]))
    elif t=='ext': r=z3.Extract(k[3]+k[2]-1,k[2],build(k[1]))
    elif t=='ite': raise NotImplementedError
    else: raise NotImplementedError(t)
    _TERMS[k]=r
    return r

def low(e, n):
    return build(ckey(e,n))

def low_old(e, n):
    key=n
    if key in e._z: return e._z[key]
    op=e.op
    if op=='c': r=z3.BitVecVal(e.a[0] & ((1<<n)-1), n)
    elif op=='v':
        w=e.w; v=z3.BitVec(e.a[0], w)
        r = z3.Extract(n-1,0,v) if n<w else (v if n==w else z3.SignExt(n-w,v))
    elif e.w <= n and op in ('+','-','*','neg','~','&','|','^','<<','>>','ite') and False:
        pass
    elif op=='sxt':
        x,k=e.a
        r = low(x,n) if n<=k else z3.SignExt(n-k, low(x,k))
    elif op=='ref':
        # refined alias: value known (by path condition) to lie in [lo,hi]; low n bits = sign-extension of low w bits
        w=e.w
        r = low(e.a[0],n) if n<=w else z3.SignExt(n-w, low(e.a[0],w))
    elif op=='+': r=low(e.a[0],n)+low(e.a[1],n)
    elif op=='-': r=low(e.a[0],n)-low(e.a[1],n)
    elif op=='*': r=low(e.a[0],n)*low(e.a[1],n)
    elif op=='neg': r=-low(e.a[0],n)
    elif op=='~': r=~low(e.a[0],n)
    elif op=='&':
        a,b=e.a
        # narrow demand using nonneg constant mask
        m=None
        if b.op=='c' and b.a[0]>=0: m=b.a[0]; x=a
        elif a.op=='c' and a.a[0]>=0: m=a.a[0]; x=b
        if m is not None and m.bit_length()<n:
            k=max(m.bit_length(),1)
            r=z3.ZeroExt(n-k, low(x,k) & z3.BitVecVal(m,k))
        else:
            r=low(a,n)&low(b,n)
    elif op=='|': r=low(e.a[0],n)|low(e.a[1],n)
    elif op=='^': r=low(e.a[0],n)^low(e.a[1],n)
    elif op=='<<':
        a,k=e.a
        r = low(a,n) if k==0 else (z3.BitVecVal(0,n) if k>=n else z3.Concat(low(a,n-k), z3.BitVecVal(0,k)))
    elif op=='>>':
        a,k=e.a
        # need bits [k, n+k) of a; cap demand at a's exact width (sign-extend beyond)
        need=n+k; aw=a.w
        if need<=aw: r=z3.Extract(n+k-1,k,low(a,need))
        else:
            full=low(a,aw)
            ext=z3.SignExt(need-aw,full)
            r=z3.Extract(n+k-1,k,ext)
    elif op=='ite': r=z3.If(e.a[0], low(e.a[1],n), low(e.a[2],n))
    else: raise NotImplementedError(op)
    e._z[key]=r
    return r

def demand(e):
    """exact value as signed BV of width e.w"""
    return low(e, e.w)

def eq(a,b):
    n=max(a.w,b.w); return low(a,n)==low(b,n)
def lt(a,b):
    n=max(a.w,b.w); return low(a,n)<low(b,n)   # signed
def le(a,b):
    n=max(a.w,b.w); return low(a,n)<=low(b,n)

# ---- extra nodes for probe 3
def absn(a):
    if a.op=='c': return const(abs(a.a[0]))
    if a.lo>=0: return a
    return N('abs',(a,),0 if a.lo<=0<=a.hi else min(abs(a.lo),abs(a.hi)),max(abs(a.lo),abs(a.hi)))
def bitlen(a):
    # a >= 0 required
    assert a.lo>=0
    if a.op=='c': return const(a.a[0].bit_length())
    return N('bl',(a,),a.lo.bit_length(),a.hi.bit_length())
_ck_old=ckey
def ckey(e,n):
    if e.op=='abs':
        k=('k',n)
        if k in e._z: return e._z[k]
        r=('abs',n,_ck_full(e.a[0]),e.a[0].w); e._z[k]=r; return r
    if e.op=='bl':
        k=('k',n)
        if k in e._z: return e._z[k]
        r=('bl',n,_ck_full(e.a[0]),e.a[0].w); e._z[k]=r; return r
    return _ck_old(e,n)
def _ck_full(e): return ckey(e,e.w)
_build_old=build
def build(k):
    if k in _TERMS: return _TERMS[k]
    if k[0]=='abs':
        n=k[1]; w=k[3]; x=build(k[2]); m=max(n,w+1)
        xe=z3.SignExt(m-w,x) if m>w else x
        r=z3.If(xe<0,-xe,xe); r=z3.Extract(n-1,0,r) if n<m else r
        _TERMS[k]=r; return r
    if k[0]=='bl':
        n=k[1]; w=k[3]; x=build(k[2])
        r=z3.BitVecVal(0,n)
        for i in range(w-1):   # x>=0, bits 0..w-2
            r=z3.If(z3.Extract(i,i,x)==1, z3.BitVecVal(i+1,n), r)
        _TERMS[k]=r; return r
    return _build_old(k)
# rebind recursive references
import sys as _s
_m=_s.modules[__name__]
