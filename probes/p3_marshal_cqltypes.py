import sys, time, z3
import instr; instr.install('cassandra.marshal','cassandra.cqltypes')
import ir, core, hooks
from sym import SInt
from hooks import SBytes
import cassandra.marshal as m
def run(name,h):
    t=time.time()
    try:
        st,cex=core.explore(h)
        print(name, st, [str(c)[:100] for c in cex[:1]])
    except Exception as e:
        import traceback; traceback.print_exc(); print(name,'ERR',e)
def h_varint(c):
    n=SInt(ir.var('n',-(1<<71),(1<<71)-1))
    b=m.varint_pack(n)
    r=m.varint_unpack(b)
    return r==n
run('varint_rt', h_varint)
def h_varint_spec(c):
    # minimal two's complement length: smallest L>=1 with -2^(8L-1) <= n < 2^(8L-1)
    n=SInt(ir.var('n',-(1<<71),(1<<71)-1))
    b=m.varint_pack(n)
    L=len(b)
    ok_fit = (n >= -(1<<(8*L-1))) & (n <= (1<<(8*L-1))-1)
    if L>1:
        ok_min = ~((n >= -(1<<(8*L-9))) & (n <= (1<<(8*L-9))-1))
        return ok_fit & ok_min
    return ok_fit
run('varint_minimal', h_varint_spec)
def h_zz(c):
    n=SInt(ir.var('n',-(1<<63),(1<<63)-1))
    return m.decode_zig_zag(m.encode_zig_zag(n))==n
run('zigzag', h_zz)
import cassandra.cqltypes as ct
def h_list(c):
    pv=SInt(ir.var('pv',1,5))
    n0=SInt(ir.var('a',-(1<<31),(1<<31)-1)); n1=SInt(ir.var('b',-(1<<31),(1<<31)-1))
    isnone=core.fresh_bool('isnone')
    v=[n0, None if isnone else n1]
    LT=ct.ListType.apply_parameters([ct.Int32Type])
    b=LT.serialize(v, pv)
    r=LT.deserialize(b, pv)
    ok = (len(r)==2)
    if not ok: return False
    e0 = r[0]==n0
    e1 = (r[1] is None) if v[1] is None else (r[1]==n1)
    return e0 & e1 if not isinstance(e1,bool) else (e0 if e1 else False)
run('list<int> rt', h_list)
def h_vints(c):
    a=SInt(ir.var('m',-(1<<31),(1<<31)-1)); b=SInt(ir.var('d',-(1<<31),(1<<31)-1)); n=SInt(ir.var('ns',-(1<<63),(1<<63)-1))
    by=m.vints_pack([a,b,n])
    r=m.vints_unpack(by)
    return (r[0]==a)&(r[1]==b)&(r[2]==n)
run('vints rt', h_vints)
