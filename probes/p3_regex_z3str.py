import re, z3, time, sys
sys.path.insert(0,'/repo')
import re._parser as sp
from re._constants import *
import cassandra.metadata as md
pat=md.valid_cql3_word_re.pattern
print('pattern from repo:', pat)
def cls_re(items):
    rs=[]
    for op,av in items:
        if op is LITERAL: rs.append(z3.Re(chr(av)))
        elif op is RANGE: rs.append(z3.Range(chr(av[0]),chr(av[1])))
        else: raise NotImplementedError(op)
    return z3.Union(*rs) if len(rs)>1 else rs[0]
def to_z3(parsed):
    """language of strings s such that pattern.match(s) succeeds AND consumes all of s except what $ allows.
       we compute L = { s | re.match(pattern, s) and match spans whole s modulo final-newline rule } for patterns ending in $ """
    parts=[]; items=list(parsed)
    for op,av in items:
        if op is AT:
            if av is AT_BEGINNING: continue
            if av is AT_END:
                parts.append(z3.Option(z3.Re("\n")))   # $ matches at end or before a final newline
                continue
            raise NotImplementedError(av)
        if op is IN: parts.append(cls_re(av))
        elif op is LITERAL: parts.append(z3.Re(chr(av)))
        elif op is MAX_REPEAT:
            lo,hi,sub=av
            r=to_z3(sub)
            assert lo==0 and hi==MAXREPEAT
            parts.append(z3.Star(r))
        else: raise NotImplementedError(op)
    return z3.Concat(*parts) if len(parts)>1 else parts[0]
L=to_z3(sp.parse(pat))
s=z3.String('s')
lower=z3.Range('a','z'); digit=z3.Range('0','9'); us=z3.Re('_')
bare=z3.Concat(lower, z3.Star(z3.Union(lower,digit,us)))   # spec: bare word that reads back unchanged
kw=sorted(md.cql_keywords_reserved)
sol=z3.Solver(); sol.set('timeout',60000)
sol.add(z3.InRe(s,L))
sol.add(z3.And(*[s!=z3.StringVal(k) for k in kw]))     # not reserved per driver (lower() is identity on L)
sol.add(z3.Not(z3.InRe(s,bare)))
t=time.time(); r=sol.check(); print('left unquoted but not a bare word:', r, repr(sol.model()[s].as_string()) if r==z3.sat else '', round(time.time()-t,2))
# concrete replay
if r==z3.sat:
    v=sol.model()[s].as_string().encode().decode('unicode_escape') if '\\u' in sol.model()[s].as_string() else sol.model()[s].as_string()
    v=v.replace('\\u{a}','\n')
    print('replay maybe_escape_name(%r) ->'%v, repr(md.maybe_escape_name(v)))
