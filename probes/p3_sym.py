import z3, ir
class SInt:
    __slots__=('n',)
    def __init__(s,n): s.n=n
    @staticmethod
    def lift(o):
        if isinstance(o,SInt): return o.n
        if isinstance(o,bool): return ir.const(int(o))
        if isinstance(o,int): return ir.const(o)
        return None
    def _b(s,o,f,rev=False):
        x=SInt.lift(o)
        if x is None: return NotImplemented
        return SInt(f(x,s.n) if rev else f(s.n,x))
    def __add__(s,o): return s._b(o,ir.add)
    def __radd__(s,o): return s._b(o,ir.add,True)
    def __sub__(s,o): return s._b(o,ir.sub)
    def __rsub__(s,o): return s._b(o,ir.sub,True)
    def __mul__(s,o): return s._b(o,ir.mul)
    def __rmul__(s,o): return s._b(o,ir.mul,True)
    def __and__(s,o): return s._b(o,ir.band)
    def __rand__(s,o): return s._b(o,ir.band,True)
    def __or__(s,o): return s._b(o,ir.bor)
    def __ror__(s,o): return s._b(o,ir.bor,True)
    def __xor__(s,o): return s._b(o,ir.bxor)
    def __rxor__(s,o): return s._b(o,ir.bxor,True)
    def __neg__(s): return SInt(ir.neg(s.n))
    def __invert__(s): return SInt(ir.inv(s.n))
    def __lshift__(s,k): assert isinstance(k,int); return SInt(ir.shl(s.n,k))
    def __rshift__(s,k): assert isinstance(k,int); return SInt(ir.shr(s.n,k))
    def __mod__(s,m):
        assert isinstance(m,int) and m>0 and m&(m-1)==0
        return SInt(ir.modpow2(s.n,m.bit_length()-1))
    def __repr__(s): return "SInt[%d..%d]"%(s.n.lo,s.n.hi)

import core
def _refine(sobj, lo, hi):
    n=sobj.n
    lo=max(lo,n.lo) if lo is not None else n.lo
    hi=min(hi,n.hi) if hi is not None else n.hi
    if (lo,hi)!=(n.lo,n.hi) and lo<=hi:
        sobj.n=ir.N('ref',(n,),lo,hi)
def _refiners(s,o,kind):
    # only refine s against constant o
    if not isinstance(o,int): return (None,None)
    c=o
    if kind=='lt': return (lambda:_refine(s,None,c-1), lambda:_refine(s,c,None))
    if kind=='le': return (lambda:_refine(s,None,c), lambda:_refine(s,c+1,None))
    if kind=='gt': return (lambda:_refine(s,c+1,None), lambda:_refine(s,None,c))
    if kind=='ge': return (lambda:_refine(s,c,None), lambda:_refine(s,None,c-1))
    return (None,None)
def _cmp(s,o,f,kind=None):
    x=SInt.lift(o)
    if x is None: return NotImplemented
    a,b=s.n,x
    if max(a.w,b.w)>128 and not (a.hi<b.lo or b.hi<a.lo or a.hi<=b.lo or b.hi<=a.lo):
        sb=core.SBool(None, *(_refiners(s,o,kind) if kind else (None,None)))
        sb.e=('lazy',f,a,b)
        return sb
    return core.SBool(f(a,b), *(_refiners(s,o,kind) if kind else (None,None)))
def _lt(a,b):
    if a.hi<b.lo: return z3.BoolVal(True)
    if a.lo>=b.hi: return z3.BoolVal(False)
    return ir.lt(a,b)
def _le(a,b):
    if a.hi<=b.lo: return z3.BoolVal(True)
    if a.lo>b.hi: return z3.BoolVal(False)
    return ir.le(a,b)
SInt.__lt__=lambda s,o:_cmp(s,o,_lt,'lt')
SInt.__le__=lambda s,o:_cmp(s,o,_le,'le')
SInt.__gt__=lambda s,o:_cmp(s,o,lambda a,b:_lt(b,a),'gt')
SInt.__ge__=lambda s,o:_cmp(s,o,lambda a,b:_le(b,a),'ge')
SInt.__eq__=lambda s,o:_cmp(s,o,lambda a,b: z3.BoolVal(False) if (a.hi<b.lo or b.hi<a.lo) else ir.eq(a,b))
SInt.__ne__=lambda s,o:_cmp(s,o,lambda a,b: z3.BoolVal(True) if (a.hi<b.lo or b.hi<a.lo) else z3.Not(ir.eq(a,b)))
SInt.__hash__=lambda s: id(s)
SInt.__bool__=lambda s: bool(s!=0)
