#!/bin/sh
# Builds /verif/.venv: an overlay of /venv (the repository's interpreter + deps)
# with z3-solver / cvc5 / crosshair-tool from the offline wheelhouse.
# Idempotent; everything comes from files on disk.
set -e
cd "$(dirname "$0")"
V=.venv
if [ -x "$V/bin/python" ] && "$V/bin/python" -c "import z3, cassandra" 2>/dev/null; then
    exit 0
fi
rm -rf "$V"
/venv/bin/python -m venv "$V"
SP=$("$V/bin/python" -c "import sysconfig; print(sysconfig.get_paths()['purelib'])")
printf '%s\n%s\n' "/venv/lib/python3.12/site-packages" "/repo" > "$SP/verif_overlay.pth"
PIP_NO_INDEX=1 "$V/bin/python" -m pip install -q --no-index --find-links /opt/veriftools/wheels z3-solver >/dev/null
# optional second-opinion engines; absence is tolerated by the checks
PIP_NO_INDEX=1 "$V/bin/python" -m pip install -q --no-index --find-links /opt/veriftools/wheels cvc5 crosshair-tool >/dev/null 2>&1 || true
"$V/bin/python" -c "import z3, cassandra; print('verif venv ok', z3.get_version_string())"
