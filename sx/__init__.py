"""sx: proxy-based symbolic execution of the real driver code on z3."""
import os

MODE = os.environ.get('SX_MODE', 'sym')


def symbolic_mode():
    return os.environ.get('SX_MODE', 'sym') == 'sym'


def instrument(*modules):
    """instrument these /repo modules on import (symbolic mode only)"""
    if symbolic_mode():
        from . import instr
        instr.install(*modules)


def _sb():
    from .core import SymBool
    return SymBool


def iff(a, b):
    SymBool = _sb()
    if isinstance(a, SymBool) or isinstance(b, SymBool):
        from .core import zb, mkbool
        return mkbool(zb(a) == zb(b), simp=False)
    return bool(a) == bool(b)


def implies(a, b):
    SymBool = _sb()
    if isinstance(a, SymBool) or isinstance(b, SymBool):
        import z3
        from .core import zb, mkbool
        return mkbool(z3.Implies(zb(a), zb(b)), simp=False)
    return (not a) or bool(b)


def land(*xs):
    from .core import all_of
    return all_of(xs)


def lor(*xs):
    from .core import any_of
    return any_of(xs)


def lnot(a):
    SymBool = _sb()
    if isinstance(a, SymBool):
        return ~a
    return not a


def ite(c, a, b):
    SymBool = _sb()
    if isinstance(c, SymBool):
        from .symint import ite as _ite
        return _ite(c, a, b)
    return a if c else b


def eq(a, b):
    """equality usable on proxies and plain values (None-safe)"""
    if a is None or b is None:
        return a is b
    r = (a == b)
    return r


def conc(x):
    """force a concrete value (forks over the feasible values in symbolic mode)"""
    from .symint import concretize
    return concretize(x)


def conc_bool(x):
    """truth value (forks in symbolic mode)"""
    return bool(x)


def bytesio(initial=b''):
    """io.BytesIO in concrete mode, its symbolic model otherwise"""
    if symbolic_mode():
        from .symseq import SymBytesIO
        return SymBytesIO(initial)
    import io
    return io.BytesIO(initial)


def blist(b):
    """list of byte items of a bytes-like (symbolic or not)"""
    from .symseq import items_of
    return items_of(b)


def beq(a, b):
    """equality of two bytes-likes (symbolic or not)"""
    from .symseq import seq_eq, items_of
    return seq_eq(items_of(a), items_of(b))


def cat(*parts):
    from .symseq import mkbytes, items_of
    out = []
    for p in parts:
        out += items_of(p)
    return mkbytes(out)
