"""Harness-facing API: SymV (symbolic exploration) and ConcV (concrete replay).

A harness is `h(V, **params)`; it must behave the same in both modes, i.e.
only use V.* to obtain inputs and V.check/assume/tag to state facts.
"""
import z3

from . import ir
from .core import (SymBool, mkbool, zb, Ctx, Abort, Inconclusive, PathEnd,
                   Violation, all_of, any_of)
from .symint import SymInt, mk, concretize, ite, lift
from .symseq import SymBytes, byte_var_items, mkbytes


class ReplayFailure(Exception):
    def __init__(self, label, note=''):
        Exception.__init__(self, '%s %s' % (label, note))
        self.label = label
        self.note = note


def _plain(v):
    """JSON-able rendering of a tag value"""
    if isinstance(v, (SymInt, SymBool)):
        return repr(v)
    if isinstance(v, (bytes, bytearray)):
        return bytes(v).hex()
    if isinstance(v, (list, tuple)):
        return [_plain(x) for x in v]
    if isinstance(v, dict):
        return {str(k): _plain(x) for k, x in v.items()}
    if isinstance(v, (int, float, str, bool)) or v is None:
        return v
    return repr(v)


class SymV(object):
    mode = 'sym'
    symbolic = True

    def __init__(self, harness_name='', opts=None):
        self.harness = harness_name
        self.opts = opts or {}
        self._ctx = None

    # called by core.explore at the start of each path
    def _begin(self, ctx, res, known):
        self._ctx = ctx
        self._res = res
        self._known = known
        self._nchecks = 0
        self._nontrivial = False
        self._proxies = {}
        self._path_violated = False

    # ---- inputs
    def int(self, name, lo, hi):
        node = ir.var(name, lo, hi)
        if node.op == 'c':
            self._ctx.vars[name] = ('int', node)
            self._ctx.order.append(name)
            self._proxies[name] = lo
            return lo
        self._ctx.new_var(name, 'int', node, ir.var_domain(node))
        p = SymInt(node)
        self._proxies[name] = SymInt(node)
        return p

    def bool(self, name):
        b = z3.Bool(name)
        self._ctx.new_var(name, 'bool', b)
        p = SymBool(b)
        self._proxies[name] = p
        return p

    def choice(self, name, k):
        """a value in range(k), every feasible value its own path"""
        if k <= 0:
            raise Abort()
        pins = self.opts.get('pin')
        if pins and name in pins:
            v = pins[name]
            if v >= k:
                raise Abort()
            self._ctx.vars[name] = ('int', ir.const(v))
            self._ctx.order.append(name)
            self._proxies[name] = v
            return v
        if k == 1:
            self._ctx.vars[name] = ('int', ir.const(0))
            self._ctx.order.append(name)
            self._proxies[name] = 0
            return 0
        x = self.int(name, 0, k - 1)
        pn = self.opts.get('pin_not')
        if pn and name in pn:
            for bad in pn[name]:
                self._ctx.assume(x != bad)
        v = concretize(x)
        self._proxies[name] = v
        return v

    def pick(self, name, options):
        options = list(options)
        return options[self.choice(name, len(options))]

    def flag(self, name):
        """a boolean decided by forking (concrete True/False on each path)"""
        pf = self.opts.get('pin_flag')
        if pf and name in pf:
            v = bool(pf[name])
            self._ctx.vars[name] = ('bool', z3.BoolVal(v))
            self._ctx.order.append(name)
            self._proxies[name] = v
            return v
        return bool(self.bool(name))

    def bytes(self, name, n):
        return SymBytes(byte_var_items(self._ctx, name, n)) if n else b''

    def str(self, name, n, lo=0, hi=0x10FFFF):
        from .symstr import SymStr, str_var_items
        return SymStr(str_var_items(self._ctx, name, n, lo, hi)) if n else ''

    def float(self, name, **kw):
        from . import symfloat
        return symfloat.new_float(self._ctx, name, **kw)

    # ---- facts
    def assume(self, c):
        self._ctx.assume(c)

    def end(self):
        raise PathEnd()

    def tag(self, name, value):
        self._ctx.tags[name] = value

    def note(self, name, value):
        self.tag(name, value)

    def check(self, cond, label='check', note=''):
        """obligation: cond holds for every input following this path"""
        c = self._ctx
        st = c.stats
        self._nchecks += 1
        st.obligations += 1
        res = self._res
        res.labels[label] = res.labels.get(label, 0) + 1
        if cond is True:
            st.discharged += 1
            st.trivial += 1
            return True
        if isinstance(cond, SymInt):
            cond = (cond != 0)
        if not isinstance(cond, SymBool) and cond is not False:
            cond = bool(cond)
            if cond:
                st.discharged += 1
                st.trivial += 1
                return True
        self._nontrivial = True
        if cond is False:
            neg = z3.BoolVal(True)
            pos = z3.BoolVal(False)
        else:
            pos = cond.z()
            neg = z3.Not(pos)
        lazy = c.lazy_terms()
        r = None
        if cond is not False and (lazy or self.opts.get('pcfree_first')):
            # validity without the path condition first
            s2 = z3.Solver()
            s2.set('timeout', c.timeout_ms)
            import time
            t = time.time()
            r0 = s2.check(neg)
            st.queries += 1
            st.solver_s += time.time() - t
            if r0 == z3.unsat:
                r = z3.unsat
        if r is None:
            r = c._check(neg, *lazy)
        if r == z3.unsat:
            st.discharged += 1
            return True
        if r != z3.sat:
            st.unknown += 1
            c.note_inconclusive('unknown:obligation:' + label)
            return None
        model = c.solver.model()
        # candidate violation; sort it into known regions
        kfs = [k for k in self._known if k.get('harness') in (None, self.harness)
               and k.get('label') in (None, label)]
        excl = []
        while True:
            vals = c.values(model)
            tags = self._eval_tags(model)
            hit = None
            for k in kfs:
                reg = self._region(k, model)
                if reg is None:
                    continue
                val, term = reg
                if val:
                    hit = k
                    excl.append(z3.Not(term))
                    break
            if hit is None:
                v = Violation(self.harness, label, vals, tags, note)
                res.violations.append(v)
                break
            res.known_hits.setdefault(hit['id'], Violation(self.harness, label, vals, tags, note))
            r = c._check(neg, *(lazy + excl))
            if r == z3.unsat:
                break
            if r != z3.sat:
                st.unknown += 1
                c.note_inconclusive('unknown:obligation:' + label)
                break
            model = c.solver.model()
        # continue the path under the assumption that the check held
        self._path_violated = True
        c.model = None
        c.solver.add(pos)
        rr = c._check()
        if rr != z3.sat:
            raise Abort()
        c.model = c.solver.model()
        return False

    def require(self, cond, label='require'):
        return self.check(cond, label)

    def _eval_tags(self, model):
        out = {}
        for k, v in self._ctx.tags.items():
            out[k] = _plain(self.value_of(v, model))
        return out

    def value_of(self, v, model):
        if type(v) is SymInt:
            return ir.evaluate(v.n, model)
        if isinstance(v, SymBool):
            return bool(z3.is_true(model.eval(v.z(), model_completion=True)))
        if isinstance(v, SymBytes):
            return bytes(self.value_of(x, model) for x in v.b)
        if isinstance(v, (list, tuple)):
            return type(v)(self.value_of(x, model) for x in v)
        if isinstance(v, dict):
            return {k: self.value_of(x, model) for k, x in v.items()}
        try:
            from .symstr import SymStr
            if isinstance(v, SymStr):
                return ''.join(chr(self.value_of(x, model)) for x in v.c)
        except ImportError:
            pass
        return v

    def _region(self, kf, model):
        """(bool under model, z3 term) of the known-finding region, or None if not evaluable"""
        expr = kf.get('region')
        if not expr:
            return True, z3.BoolVal(True)
        env = dict(self._proxies)
        env['tags'] = self._ctx.tags
        env.update({k: v for k, v in self._ctx.tags.items() if k.isidentifier() and k not in env})
        try:
            r = eval(expr, {'__builtins__': {'len': len, 'abs': abs, 'min': min, 'max': max, 'True': True, 'False': False, 'None': None}}, _Env(env))
        except (NameError, KeyError, TypeError, AttributeError, IndexError):
            return None
        if isinstance(r, SymInt):
            r = (r != 0)
        if isinstance(r, SymBool):
            t = r.z()
            return bool(z3.is_true(model.eval(t, model_completion=True))), t
        return bool(r), z3.BoolVal(bool(r))


class _Env(dict):
    def __missing__(self, k):
        raise NameError(k)


class ConcV(object):
    """replay: same harness, plain Python values"""
    mode = 'concrete'
    symbolic = False

    def __init__(self, values, harness_name='', stop_on_fail=True):
        self.values = dict(values)
        self.harness = harness_name
        self.tags = {}
        self.failed = []
        self.stop_on_fail = stop_on_fail
        self._nchecks = 0

    def int(self, name, lo, hi):
        v = self.values.get(name, lo)
        return int(v)

    def bool(self, name):
        return bool(self.values.get(name, False))

    def choice(self, name, k):
        if k <= 0:
            raise Abort()
        return int(self.values.get(name, 0))

    def pick(self, name, options):
        options = list(options)
        return options[self.choice(name, len(options))]

    def flag(self, name):
        return self.bool(name)

    def bytes(self, name, n):
        return bytes(int(self.values.get('%s[%d]' % (name, i), 0)) for i in range(n))

    def str(self, name, n, lo=0, hi=0x10FFFF):
        return ''.join(chr(int(self.values.get('%s[%d]' % (name, i), lo))) for i in range(n))

    def float(self, name, **kw):
        from . import symfloat
        return symfloat.concrete_float(self.values, name, **kw)

    def assume(self, c):
        if not c:
            raise Abort()

    def end(self):
        raise PathEnd()

    def tag(self, name, value):
        self.tags[name] = value
    note = tag

    def check(self, cond, label='check', note=''):
        self._nchecks += 1
        if cond:
            return True
        self.failed.append(label)
        if self.stop_on_fail:
            raise ReplayFailure(label, note)
        return False
    require = check

    def plain_tags(self):
        return {k: _plain(v) for k, v in self.tags.items()}
