import argparse
import os
import sys

ROOT = os.path.dirname(os.path.dirname(os.path.abspath(__file__)))
if ROOT not in sys.path:
    sys.path.insert(0, ROOT)


def main():
    ap = argparse.ArgumentParser()
    ap.add_argument('property')
    ap.add_argument('--tier', default=os.environ.get('VERIF_TIER', 'quick'))
    ap.add_argument('--replay')
    ap.add_argument('--only', nargs='*')
    ap.add_argument('--workers', type=int)
    a = ap.parse_args()
    if a.replay:
        from sx import run
        rc, out = run.replay_file(a.replay)
        sys.stdout.write(out)
        if rc == 1:
            print('VIOLATION property=%s replay=%s' % (a.property, a.replay))
        return rc
    from sx import run
    seed = int(os.environ.get('VERIF_SEED', '0') or 0)
    return run.run_check(a.property, a.tier, seed, a.only, a.workers)


if __name__ == '__main__':
    sys.exit(main())
