"""sx core: path exploration by decision replay over proxy values, on z3.

A harness is `h(V)`.  In *symbolic* mode V hands out proxies; every Python
truth test on a symbolic condition is a recorded decision; the harness is
re-executed once per path (DFS).  Obligations (`V.check`) are decided by the
solver for *all* values following the path.  In *concrete* mode (replay) V
hands out plain Python values from a stored assignment and the same harness
runs against the uninstrumented driver.
"""
import time
import z3

from . import ir


class Abort(BaseException):
    """infeasible path / failed assumption (path silently dropped)"""


Inconclusive = ir.Inconclusive


class PathEnd(BaseException):
    """harness asked to end the path (e.g. 'would block')"""


class Unsupported(Inconclusive):
    pass


def is_true(e):
    return z3.is_true(e)


def is_false(e):
    return z3.is_false(e)


class SymBool(object):
    """z3 Bool wrapper.  `e` is a z3 BoolRef, or a lazy wide comparison
    ('lazy', fn, a, b) whose z3 term is only built if really needed."""
    __slots__ = ('e', 'on_true', 'on_false', 'meta')

    def __init__(self, e, on_true=None, on_false=None):
        self.e = e
        self.on_true = on_true
        self.on_false = on_false
        self.meta = None

    def z(self):
        e = self.e
        if isinstance(e, tuple):
            if e[0] == 'lazy':
                return e[1](e[2], e[3])
            if e[0] == 'not':
                return z3.Not(SymBool(e[1]).z())
        return e

    def __bool__(self):
        return Ctx.cur.branch(self)

    def _lift(self, o):
        if isinstance(o, SymBool):
            return o.z()
        if isinstance(o, (bool, int)):
            return z3.BoolVal(bool(o))
        return None

    def __and__(self, o):
        x = self._lift(o)
        if x is None:
            return NotImplemented
        return mkbool(z3.And(self.z(), x), simp=False)
    __rand__ = __and__

    def __or__(self, o):
        x = self._lift(o)
        if x is None:
            return NotImplemented
        return mkbool(z3.Or(self.z(), x), simp=False)
    __ror__ = __or__

    def __xor__(self, o):
        x = self._lift(o)
        if x is None:
            return NotImplemented
        return mkbool(z3.Xor(self.z(), x), simp=False)
    __rxor__ = __xor__

    def __invert__(self):
        if isinstance(self.e, tuple):
            return SymBool(('not', self.e), self.on_false, self.on_true)
        return mkbool(z3.Not(self.e), self.on_false, self.on_true, simp=False)

    def __eq__(self, o):
        x = self._lift(o)
        if x is None:
            return False
        return mkbool(self.z() == x, simp=False)

    def __ne__(self, o):
        x = self._lift(o)
        if x is None:
            return True
        return mkbool(self.z() != x, simp=False)

    def implies(self, o):
        return mkbool(z3.Implies(self.z(), self._lift(o)), simp=False)

    def __hash__(self):
        return hash(bool(self))

    def __int__(self):
        return 1 if bool(self) else 0
    __index__ = __int__

    def __repr__(self):
        return 'SymBool(%s)' % (self.e if not isinstance(self.e, tuple) else 'lazy')


def mkbool(e, on_true=None, on_false=None, simp=True):
    """SymBool or plain bool when the term is a literal.  z3.simplify walks the whole term: callers
    pass simp=False for large terms"""
    if not isinstance(e, tuple):
        if z3.is_true(e):
            return True
        if z3.is_false(e):
            return False
        if simp:
            e = z3.simplify(e)
            if z3.is_true(e):
                return True
            if z3.is_false(e):
                return False
        elif z3.is_not(e):
            c = e.arg(0)
            if z3.is_true(c):
                return False
            if z3.is_false(c):
                return True
    return SymBool(e, on_true, on_false)


def zb(x):
    """z3 Bool of a SymBool / bool"""
    if isinstance(x, SymBool):
        return x.z()
    return z3.BoolVal(bool(x))


def all_of(xs):
    r = True
    for x in xs:
        if x is False:
            return False
        r = x & r if isinstance(x, SymBool) else (r if x else False)
        if r is False:
            return False
    return r


def any_of(xs):
    r = False
    for x in xs:
        if x is True:
            return True
        r = x | r if isinstance(x, SymBool) else (True if x else r)
        if r is True:
            return True
    return r


class Stats(object):
    def __init__(self):
        self.paths = 0            # paths explored to completion
        self.aborted = 0          # infeasible / assumption-failed paths
        self.ended = 0            # paths ended by PathEnd
        self.inconclusive = 0     # paths with an engine limit hit
        self.decisions = 0        # symbolic branch decisions taken (all paths)
        self.queries = 0
        self.solver_s = 0.0
        self.obligations = 0
        self.discharged = 0
        self.trivial = 0          # obligations that were concrete True
        self.unknown = 0
        self.nontrivial_paths = 0
        self.inconclusive_reasons = {}
        self.max_bv_width = 0

    def merge(self, o):
        for k, v in o.__dict__.items():
            if isinstance(v, dict):
                d = getattr(self, k)
                for kk, vv in v.items():
                    d[kk] = d.get(kk, 0) + vv
            elif k == 'max_bv_width':
                self.max_bv_width = max(self.max_bv_width, v)
            else:
                setattr(self, k, getattr(self, k) + v)

    def as_dict(self):
        d = dict(self.__dict__)
        d['solver_s'] = round(d['solver_s'], 3)
        return d


class Ctx(object):
    """state of one path"""
    cur = None

    def __init__(self, prefix, stats, opts):
        self.solver = z3.Solver()
        self.prefix = prefix      # list of [decision, flipped, model_for_this_side]
        self.pos = 0
        self.stats = stats
        self.opts = opts
        self.model = None         # a model of the current PC (or None = unknown)
        self.lazy = []            # (SymBool-lazy-tuple, decision)
        self.vars = {}            # name -> ('int', node) | ('bool', z3 const)
        self.order = []           # creation order of names
        self.tags = {}
        self.ndec = 0
        self.domain = []
        self.timeout_ms = opts.get('timeout_ms', 20000)
        self.conc_cap = opts.get('conc_cap', 64)
        self.max_decisions = opts.get('max_decisions', 20000)

    # -- solver plumbing
    def _check(self, *extra, timeout=None):
        t = time.time()
        self.stats.queries += 1
        self.solver.set('timeout', timeout or self.timeout_ms)
        r = self.solver.check(*extra)
        self.stats.solver_s += time.time() - t
        return r

    def add(self, e):
        self.solver.add(e)

    def new_var(self, name, kind, obj, dom=None):
        if name in self.vars:
            raise RuntimeError('duplicate symbolic variable %r' % name)
        self.vars[name] = (kind, obj)
        self.order.append(name)
        if dom is not None and not z3.is_true(dom):
            self.solver.add(dom)
            self.domain.append(dom)
            if self.model is not None:
                # keep self.model a model of the PC: a fresh variable is only
                # constrained by its domain
                v = self.model.eval(dom, model_completion=True)
                if not z3.is_true(v):
                    self.model = None

    def ensure_model(self):
        if self.model is None:
            r = self._check()
            if r == z3.sat:
                self.model = self.solver.model()
            elif r == z3.unsat:
                raise Abort()
            else:
                self.note_inconclusive('unknown:pc')
                raise Inconclusive('solver unknown on path condition')
        return self.model

    def note_inconclusive(self, why):
        d = self.stats.inconclusive_reasons
        d[why] = d.get(why, 0) + 1

    def feasible(self, e):
        """is PC ∧ e satisfiable?  (True/False; unknown -> Inconclusive)"""
        r = self._check(e)
        if r == z3.sat:
            return True, self.solver.model()
        if r == z3.unsat:
            return False, None
        self.stats.unknown += 1
        self.note_inconclusive('unknown:branch')
        raise Inconclusive('solver unknown at branch')

    def branch(self, sb):
        """decide the truth of symbolic condition sb on this path"""
        e = sb.e
        if isinstance(e, tuple):
            return self._branch_lazy(sb)
        if z3.is_true(e):
            return True
        if z3.is_false(e):
            return False
        self.ndec += 1
        if self.ndec > self.max_decisions:
            self.note_inconclusive('cap:decisions')
            raise Inconclusive('decision cap')
        h = e.hash()
        if self.pos < len(self.prefix):
            ent = self.prefix[self.pos]
            d = ent[0]
            if d == 'c' or (ent[3] is not None and ent[3] != h):
                self.note_inconclusive('nondeterministic-harness')
                raise Inconclusive('decision replay diverged (harness not deterministic)')
            if self.pos == len(self.prefix) - 1:
                self.model = ent[2]
                ent[2] = None
            else:
                self.model = None
        else:
            m = self.ensure_model()
            v = m.eval(e, model_completion=True)
            if z3.is_true(v):
                ok, m2 = self.feasible(z3.Not(e))
                if ok:
                    self.prefix.append([True, False, m2, h])
                else:
                    self.prefix.append([True, True, None, h])
                d = True
            elif z3.is_false(v):
                ok, m2 = self.feasible(e)
                if ok:
                    self.prefix.append([True, False, m, h])   # other side (False) keeps model m
                    self.model = m2
                    d = True
                else:
                    self.prefix.append([False, True, None, h])
                    d = False
            else:
                okt, mt = self.feasible(e)
                okf, mf = self.feasible(z3.Not(e))
                if okt and okf:
                    self.prefix.append([True, False, mf, h])
                    self.model = mt
                    d = True
                elif okt:
                    self.prefix.append([True, True, None, h])
                    self.model = mt
                    d = True
                elif okf:
                    self.prefix.append([False, True, None, h])
                    self.model = mf
                    d = False
                else:
                    raise Abort()
        self.pos += 1
        self.stats.decisions += 1
        self.solver.add(e if d else z3.Not(e))
        cb = sb.on_true if d else sb.on_false
        if cb:
            cb()
        return d

    def pick_value(self, n):
        """concretise IR node n: a multi-way decision recorded in the prefix as
        ['c', value, state, tried]; every feasible value becomes its own path"""
        from . import ir
        self.ndec += 1
        if self.pos < len(self.prefix):
            ent = self.prefix[self.pos]
            if ent[0] != 'c':
                self.note_inconclusive('nondeterministic-harness')
                raise Inconclusive('decision replay diverged (harness not deterministic)')
            if ent[2] == 'advance':
                # all earlier values explored: find a value not tried yet
                if len(ent[3]) >= self.conc_cap:
                    ent[2] = 'done'
                    self.note_inconclusive('cap:concretize')
                    raise Inconclusive('concretisation cap (%d values) at a single site' % self.conc_cap)
                ok, m = self.feasible(z3.And(*[ir.neq_const(n, v) for v in ent[3]]))
                if not ok:
                    ent[2] = 'done'
                    raise Abort()
                v = ir.evaluate(n, m)
                ent[1] = v
                ent[3].append(v)
                ent[2] = 'live'
                self.model = m
            else:
                v = ent[1]
                self.model = None
        else:
            m = self.ensure_model()
            v = ir.evaluate(n, m)
            self.prefix.append(['c', v, 'live', [v]])
        self.pos += 1
        self.stats.decisions += 1
        self.solver.add(ir.eq(n, ir.const(v)))
        return v

    def _branch_lazy(self, sb):
        # wide comparison: fork without consulting the solver
        self.ndec += 1
        if self.pos < len(self.prefix):
            d = self.prefix[self.pos][0]
            self.model = None
        else:
            d = True
            self.prefix.append([True, False, None, None])
            self.model = None
        self.pos += 1
        self.stats.decisions += 1
        self.lazy.append((sb, d))
        cb = sb.on_true if d else sb.on_false
        if cb:
            cb()
        return d

    def assume(self, c):
        if isinstance(c, SymBool):
            if isinstance(c.e, tuple):
                if not bool(c):
                    raise Abort()
                return
            e = c.e
            if self.model is not None and not z3.is_true(self.model.eval(e, model_completion=True)):
                self.model = None
            self.solver.add(e)
            if self.model is None and self.pos >= len(self.prefix):
                r = self._check()
                if r == z3.unsat:
                    raise Abort()
                if r == z3.sat:
                    self.model = self.solver.model()
                else:
                    self.note_inconclusive('unknown:assume')
                    raise Inconclusive('unknown at assume')
            if c.on_true:
                c.on_true()
        elif not c:
            raise Abort()

    def lazy_terms(self):
        out = []
        for sb, d in self.lazy:
            t = sb.z()
            out.append(t if d else z3.Not(t))
        return out

    def values(self, model):
        """concrete assignment {name: value} of every variable created on this path"""
        out = {}
        for name in self.order:
            kind, obj = self.vars[name]
            if kind == 'int':
                out[name] = ir.evaluate(obj, model)
            elif kind == 'bool':
                out[name] = bool(z3.is_true(model.eval(obj, model_completion=True)))
        return out


class Violation(object):
    def __init__(self, harness, label, values, tags, note=''):
        self.harness = harness
        self.label = label
        self.values = values
        self.tags = tags
        self.note = note

    def as_dict(self):
        return dict(harness=self.harness, label=self.label, values=self.values,
                    tags=self.tags, note=self.note)


class ExploreResult(object):
    def __init__(self):
        self.stats = Stats()
        self.violations = []      # Violation (unreplayed candidates)
        self.known_hits = {}      # kf id -> Violation (candidate inside a known region)
        self.witnesses = []       # dicts {values, tags, nchecks}
        self.samples = []
        self.labels = {}          # label -> count of obligations
        self.complete = True      # exploration ran to the end (no path cap)


def explore(fn, V, opts=None, known=()):
    """Run harness fn(V) over all paths.  V is a sx.api.SymV instance."""
    opts = dict(opts or {})
    ir.set_mode(opts.get('arith', 'bv'))
    res = ExploreResult()
    st = res.stats
    max_paths = opts.get('max_paths', 200000)
    deadline = time.time() + opts.get('max_seconds', 3600)
    max_viol = opts.get('max_violations', 3)
    witness_cap = opts.get('witness_cap', 40)
    prefix = []
    total = 0
    while True:
        c = Ctx(prefix, st, opts)
        Ctx.cur = c
        V._begin(c, res, known)
        total += 1
        try:
            try:
                try:
                    r = fn(V)
                    if r is not None:
                        V.check(r, 'result')
                except Exception as e:          # not BaseException: engine control flow passes through
                    import traceback
                    tb = traceback.format_exc(limit=-6)
                    V.check(False, 'exception:' + type(e).__name__, note=tb[-1500:])
                st.paths += 1
                if c.ndec or V._nontrivial:
                    st.nontrivial_paths += 1
                if getattr(V, '_path_violated', False):
                    pass
                elif len(res.witnesses) < witness_cap or (st.paths % 97 == 0 and len(res.witnesses) < 4 * witness_cap):
                    try:
                        if c.lazy:
                            # lazily forked wide comparisons were not checked when taken: the path may be
                            # infeasible (its obligations were discharged with these terms included, so that
                            # is sound); only a model of PC and the lazy terms is a witness of this path
                            r = c._check(*c.lazy_terms())
                            if r != z3.sat:
                                raise Abort()
                            m = c.solver.model()
                        else:
                            m = c.ensure_model()
                        res.witnesses.append(dict(values=c.values(m), tags=dict(c.tags), nchecks=V._nchecks))
                    except (Abort, Inconclusive):
                        pass
            except PathEnd:
                st.ended += 1
                st.paths += 1
        except Abort:
            st.aborted += 1
        except Inconclusive as e:
            st.inconclusive += 1
            if not c.stats.inconclusive_reasons:
                c.note_inconclusive(str(e) or 'inconclusive')
        finally:
            Ctx.cur = None
        # backtrack
        prefix = c.prefix[:c.pos] if c.pos < len(c.prefix) else c.prefix
        while prefix and (prefix[-1][2] == 'done' if prefix[-1][0] == 'c' else prefix[-1][1]):
            prefix.pop()
        if not prefix:
            break
        last = prefix[-1]
        if last[0] == 'c':
            last[2] = 'advance'
        else:
            prefix[-1] = [not last[0], True, last[2], last[3]]
        if len(res.violations) >= max_viol:
            res.complete = False
            break
        if total >= max_paths or time.time() > deadline:
            res.complete = False
            st.inconclusive_reasons['cap:paths' if total >= max_paths else 'cap:time'] = 1
            break
    return res
