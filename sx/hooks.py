"""Hooks called from instrumented modules.  Each one performs the native
operation unless an operand is symbolic, in which case it dispatches to a
model.  MODELS_USED records which models actually fired (for evidence)."""
import io
import re as _re
import struct
import types

from .core import SymBool, Ctx, Inconclusive, mkbool
from .symint import SymInt, concretize, mk, smin, smax
from . import symseq
from .symseq import SymBytes, SymByteArray, SymBytesIO, mkbytes, items_of

MODELS_USED = {}


def used(name):
    MODELS_USED[name] = MODELS_USED.get(name, 0) + 1


_SYM = (SymInt, SymBool, SymBytes, SymBytesIO)


def _symtypes():
    global _SYM
    try:
        from .symstr import SymStr, LazyStr
        from .symfloat import SymFloat
        _SYM = (SymInt, SymBool, SymBytes, SymBytesIO, SymStr, SymFloat, LazyStr)
    except ImportError:
        pass


def is_sym(x):
    return isinstance(x, _SYM)


def any_sym(xs):
    for x in xs:
        if isinstance(x, _SYM):
            return True
        if type(x) in (list, tuple):
            for y in x:
                if isinstance(y, _SYM):
                    return True
    return False


def pytype(x):
    """the Python type a proxy stands for"""
    pt = getattr(type(x), '__sx_pytype__', None)
    if pt is not None:
        return pt
    if type(x) is SymInt:
        return int
    if isinstance(x, SymBool):
        return bool
    if type(x) is SymByteArray:
        return bytearray
    if type(x) is SymBytes:
        return bytes
    if type(x) is SymBytesIO:
        return io.BytesIO
    n = type(x).__name__
    if n == 'SymStr' or n == 'LazyStr':
        return str
    if n == 'SymFloat':
        return float
    return type(x)


_FUNC_TYPES = (types.FunctionType, types.MethodType)
_BUILTIN_METHOD = type(_re.compile('a').match)

# ---------------------------------------------------------------------------
EXTRA = {}      # callable -> model(*a, **k) or NotImplemented; registered by harness kits
EXTRA_METHODS = {}   # (type, name) -> model(self, *a, **k)


def register(fn, model):
    EXTRA[fn] = model


def register_method(tp, name, model):
    EXTRA_METHODS[(tp, name)] = model


def call(f, *a, **k):
    tf = type(f)
    if tf is types.FunctionType:
        if EXTRA and f in EXTRA:
            r = EXTRA[f](*a, **k)
            if r is not NotImplemented:
                return r
        return f(*a, **k)
    if tf is types.MethodType:
        if EXTRA and f in EXTRA:
            r = EXTRA[f](*a, **k)
            if r is not NotImplemented:
                return r
        return f(*a, **k)
    if tf is type:
        h = _TYPE_HOOKS.get(f)
        if h is not None:
            r = h(a, k)
            if r is not NotImplemented:
                return r
        elif EXTRA and f in EXTRA:
            r = EXTRA[f](*a, **k)
            if r is not NotImplemented:
                return r
        return f(*a, **k)
    if tf is types.BuiltinFunctionType:      # builtin function or bound method of a C object
        selfobj = f.__self__
        if selfobj is None or isinstance(selfobj, types.ModuleType):
            h = _BUILTIN_HOOKS.get(f)
            if h is not None:
                r = h(a, k)
                if r is not NotImplemented:
                    return r
            elif EXTRA and f in EXTRA:
                r = EXTRA[f](*a, **k)
                if r is not NotImplemented:
                    return r
            return f(*a, **k)
        r = _bound_c_method(f, selfobj, a, k)
        if r is not NotImplemented:
            return r
        return f(*a, **k)
    if tf is types.MethodDescriptorType or tf is types.WrapperDescriptorType or tf is types.ClassMethodDescriptorType:
        r = _unbound_c_method(f, a, k)
        if r is not NotImplemented:
            return r
        return f(*a, **k)
    if tf is _BUILTIN_METHOD:                # bound METH_METHOD method (re.Pattern.match, ...)
        r = _bound_c_method(f, f.__self__, a, k)
        if r is not NotImplemented:
            return r
        return f(*a, **k)
    if EXTRA:
        try:
            m = EXTRA.get(f)
        except TypeError:
            m = None
        if m is not None:
            r = m(*a, **k)
            if r is not NotImplemented:
                return r
    return f(*a, **k)


# ---- builtins ---------------------------------------------------------------
def _h_len(a, k):
    x = a[0]
    if isinstance(x, SymBytes):
        return len(x.b)
    if type(x).__name__ in ('SymStr', 'LazyStr'):
        return len(x)
    return NotImplemented


def _h_isinstance(a, k):
    x, t = a
    if isinstance(x, _SYM) or hasattr(type(x), '__sx_pytype__'):
        pt = pytype(x)
        if pt is not type(x):
            if isinstance(t, tuple):
                return any(_issub(pt, y) for y in t)
            return _issub(pt, t)
    return NotImplemented


def _issub(pt, t):
    try:
        return issubclass(pt, t)
    except TypeError:
        return False


def _h_type(a, k):
    if len(a) == 1 and (isinstance(a[0], _SYM) or hasattr(type(a[0]), '__sx_pytype__')):
        return pytype(a[0])
    return NotImplemented


def _h_int(a, k):
    if not a:
        return NotImplemented
    x = a[0]
    if type(x) is SymInt:
        return x
    if isinstance(x, SymBool):
        return symseq.lift_int(x)
    if hasattr(x, '__sx_int__'):
        return x.__sx_int__()
    n = type(x).__name__
    if n == 'SymFloat':
        return x.__int__()
    if n == 'SymStr' or n == 'HexStr':
        from . import symstr
        base = a[1] if len(a) > 1 else k.get('base', 10)
        return symstr.parse_int(x, base)
    return NotImplemented


def _h_bool(a, k):
    if a and isinstance(a[0], _SYM):
        x = a[0]
        if isinstance(x, SymBool):
            return x
        if type(x) is SymInt:
            return x != 0
        if isinstance(x, SymBytes):
            return len(x.b) > 0
        return bool(x)
    return NotImplemented


def _h_abs(a, k):
    if type(a[0]) is SymInt:
        return abs(a[0])
    return NotImplemented


def _h_min(a, k):
    if k:
        return NotImplemented
    xs = a if len(a) > 1 else list(a[0])
    if any(type(x) is SymInt or type(x).__name__ == 'SymRat' for x in xs):
        used('min/max')
        r = xs[0]
        for x in xs[1:]:
            r = smin(r, x)
        return r
    return NotImplemented


def _h_max(a, k):
    if k:
        return NotImplemented
    xs = a if len(a) > 1 else list(a[0])
    if any(type(x) is SymInt or type(x).__name__ == 'SymRat' for x in xs):
        used('min/max')
        r = xs[0]
        for x in xs[1:]:
            r = smax(r, x)
        return r
    return NotImplemented


def _h_range(a, k):
    if any(type(x) is SymInt for x in a):
        return range(*[concretize(x) for x in a])
    return NotImplemented


def _h_divmod(a, k):
    if any(type(x) is SymInt for x in a):
        return (a[0] // a[1], a[0] % a[1])
    return NotImplemented


def _h_bytes(a, k):
    if not a:
        return NotImplemented
    x = a[0]
    if isinstance(x, SymBytes):
        return mkbytes(x.b)
    if type(x) is SymInt:
        return bytes(concretize(x))
    if isinstance(x, (list, tuple)) and any(type(y) is SymInt for y in x):
        return mkbytes(x)
    n = type(x).__name__
    if n == 'SymStr':
        return x.encode(*a[1:], **k)
    return NotImplemented


def _h_bytearray(a, k):
    used('bytearray')
    if not a:
        return SymByteArray([])
    x = a[0]
    if type(x) is SymInt:
        x = concretize(x)
    if isinstance(x, int):
        return SymByteArray([0] * x)
    if isinstance(x, (SymBytes, bytes, bytearray, memoryview)):
        return SymByteArray(items_of(x))
    if isinstance(x, (list, tuple)):
        return SymByteArray(list(x))
    return NotImplemented


def _h_bytesio(a, k):
    used('io.BytesIO')
    return SymBytesIO(*a, **k)


def _h_str(a, k):
    if a and isinstance(a[0], _SYM):
        from . import symstr
        return symstr.to_str(a[0])
    return NotImplemented


def _h_repr(a, k):
    if a and isinstance(a[0], _SYM):
        from . import symstr
        return symstr.to_repr(a[0])
    return NotImplemented


def _h_float(a, k):
    if a and isinstance(a[0], _SYM):
        from . import symfloat
        return symfloat.to_float(a[0])
    return NotImplemented


def _h_sum(a, k):
    xs = list(a[0])
    if any_sym(xs):
        r = a[1] if len(a) > 1 else 0
        for x in xs:
            r = r + x
        return r
    return NotImplemented


def _h_memoryview(a, k):
    if isinstance(a[0], SymBytes):
        return a[0]
    return NotImplemented


def _h_hash(a, k):
    return NotImplemented


def _h_ord(a, k):
    x = a[0]
    n = type(x).__name__
    if n == 'SymStr':
        return x.c[0]
    if isinstance(x, SymBytes) and len(x.b) == 1:
        return x.b[0]
    return NotImplemented


def _h_chr(a, k):
    if type(a[0]) is SymInt:
        from .symstr import SymStr
        return SymStr([a[0]])
    return NotImplemented


def _h_islice(a, k):
    if any(type(x) is SymInt for x in a[1:]):
        import itertools
        return itertools.islice(a[0], *[concretize(x) for x in a[1:]])
    return NotImplemented


import itertools as _it
_TYPE_HOOKS = {
    _it.islice: _h_islice,
    int: _h_int, bool: _h_bool, bytes: _h_bytes, bytearray: _h_bytearray,
    io.BytesIO: _h_bytesio, type: _h_type, range: _h_range, str: _h_str,
    float: _h_float, memoryview: _h_memoryview,
}
_BUILTIN_HOOKS = {
    len: _h_len, isinstance: _h_isinstance, abs: _h_abs, min: _h_min, max: _h_max,
    divmod: _h_divmod, repr: _h_repr, sum: _h_sum, ord: _h_ord, chr: _h_chr,
}


def _h_struct_pack(a, k):
    if any_sym(a[1:]):
        used('struct.pack')
        return symseq.struct_pack(a[0], a[1:])
    return NotImplemented


def _h_struct_unpack(a, k):
    if isinstance(a[1], SymBytes):
        used('struct.unpack')
        return symseq.struct_unpack(a[0], a[1])
    return NotImplemented


def _h_struct_unpack_from(a, k):
    if isinstance(a[1], SymBytes):
        used('struct.unpack')
        off = concretize(a[2] if len(a) > 2 else k.get('offset', 0))
        size = struct.calcsize(a[0])
        n = len(a[1].b)
        if off < 0:
            if off + n < 0:
                raise struct.error('offset %d out of range for %d-byte buffer' % (off, n))
            off += n
        if off + size > n:
            raise struct.error('unpack_from requires a buffer of at least %d bytes' % (off + size))
        return symseq.struct_unpack(a[0], a[1].b[off:off + size])
    return NotImplemented


_BUILTIN_HOOKS[struct.pack] = _h_struct_pack
_BUILTIN_HOOKS[struct.unpack] = _h_struct_unpack
_BUILTIN_HOOKS[struct.unpack_from] = _h_struct_unpack_from


def _bound_c_method(f, selfobj, a, k):
    name = f.__name__
    ts = type(selfobj)
    if ts is struct.Struct:
        if name == 'pack':
            if any_sym(a):
                used('struct.pack')
                return symseq.struct_pack(selfobj.format, a)
        elif name == 'unpack':
            if isinstance(a[0], SymBytes):
                used('struct.unpack')
                return symseq.struct_unpack(selfobj.format, a[0])
        elif name == 'unpack_from':
            if isinstance(a[0], SymBytes):
                used('struct.unpack')
                off = concretize(a[1] if len(a) > 1 else k.get('offset', 0))
                n = len(a[0].b)
                if off < 0:
                    if off + n < 0:
                        raise struct.error('offset %d out of range for %d-byte buffer' % (off, n))
                    off += n
                if off + selfobj.size > n:
                    raise struct.error('unpack_from requires a buffer of at least %d bytes' % (off + selfobj.size))
                return symseq.struct_unpack(selfobj.format, a[0].b[off:off + selfobj.size])
        return NotImplemented
    if ts is bytes or ts is bytearray:
        if name == 'join':
            parts = list(a[0])
            if any(isinstance(p, SymBytes) for p in parts):
                return SymBytes(items_of(selfobj)).join(parts)
            return selfobj.join(parts)
        if name in ('extend', 'append') and ts is bytearray and any_sym(a):
            raise Inconclusive('symbolic value stored into a native bytearray (created outside instrumented code)')
        return NotImplemented
    if ts is str:
        if name == 'format' and (any_sym(a) or any_sym(k.values())):
            from . import symstr
            return symstr.format_method(selfobj, a, k)
        if a and (any_sym(a) or (name == 'join' and not isinstance(a[0], str))):
            from . import symstr
            return symstr.str_method(selfobj, name, a, k)
        return NotImplemented
    if ts is _re.Pattern and name in ('match', 'fullmatch', 'search') and a and type(a[0]).__name__ in ('SymStr', 'LazyStr'):
        from . import symre, symstr
        used('re.' + name)
        chars = symstr.cps(a[0])
        return symre.FakeMatch() if bool(symre.matches(selfobj, chars, name)) else None
    if ts is list and name == 'sort' and not a and not k:
        return NotImplemented
    if EXTRA_METHODS:
        m = EXTRA_METHODS.get((ts, name))
        if m is not None:
            return m(selfobj, *a, **k)
    return NotImplemented


def _unbound_c_method(f, a, k):
    name = f.__name__
    oc = getattr(f, '__objclass__', None)
    if oc is int and a:
        if name == 'bit_length' and type(a[0]) is SymInt:
            used('int.bit_length')
            return a[0].bit_length()
        if name == 'from_bytes' and isinstance(a[0], SymBytes):
            return int_from_bytes(*a, **k)
    return NotImplemented


def int_from_bytes(data, byteorder='big', signed=False):
    bs = items_of(data)
    if byteorder == 'big':
        bs = bs[::-1]
    v = 0
    for i, b in enumerate(bs):
        v = v | (b << (8 * i))
    if signed and bs:
        h = 1 << (8 * len(bs) - 1)
        v = (v ^ h) - h
    return v


_BUILTIN_HOOKS[int.from_bytes] = lambda a, k: int_from_bytes(*a, **k) if isinstance(a[0], SymBytes) else NotImplemented


def crc32_model(data, value=0):
    """bit-precise zlib.crc32 (reflected CRC-32, poly 0xEDB88320) over symbolic bytes, branch-free"""
    from .symint import ite
    crc = (value ^ 0xFFFFFFFF) & 0xFFFFFFFF
    for b in items_of(data):
        crc = crc ^ b
        for _ in range(8):
            low = crc & 1
            crc = ite(low == 1, (crc >> 1) ^ 0xEDB88320, crc >> 1) if isinstance(low, SymInt) else \
                ((crc >> 1) ^ 0xEDB88320 if low else crc >> 1)
    return crc ^ 0xFFFFFFFF


def _h_crc32(a, k):
    if isinstance(a[0], SymBytes) or (len(a) > 1 and type(a[1]) is SymInt):
        used('zlib.crc32')
        return crc32_model(*a)
    return NotImplemented


import zlib as _zlib
_BUILTIN_HOOKS[_zlib.crc32] = _h_crc32


def _h_hexlify(a, k):
    if a and isinstance(a[0], SymBytes) and len(a) == 1 and not k:
        used('binascii.hexlify')
        from .symint import ite as _ite
        out = []
        for b in a[0].b:
            for nib in ((b >> 4) & 15, b & 15):
                out.append(_ite(nib < 10, nib + 48, nib + 87) if type(nib) is SymInt else (nib + 48 if nib < 10 else nib + 87))
        return symseq.mkbytes(out)
    return NotImplemented


import binascii as _binascii
_BUILTIN_HOOKS[_binascii.hexlify] = _h_hexlify


# ---- operators ----------------------------------------------------------------
def mod(l, r):
    if type(l) is str or type(l) is bytes:
        if is_sym(r) or (type(r) is tuple and any_sym(r)) or (type(r) is dict and any_sym(r.values())):
            from . import symstr
            return symstr.percent_format(l, r)
        try:
            return l % r
        except TypeError as e:
            if '__str__ returned non-string' in str(e):
                # an object whose (instrumented) __str__ produced a symbolic string
                from . import symstr
                return symstr.percent_format(l, r)
            raise
    return l % r


def not_(x):
    if isinstance(x, SymBool):
        return ~x
    if type(x) is SymInt:
        return x == 0
    return not x


def in_(x, container, neg):
    if type(x).__name__ in ('SymStr', 'LazyStr') and type(container) in (set, frozenset, tuple, list):
        # membership of a symbolic string in a collection of strings: compared element-wise, never hashed
        from . import symstr
        from .symseq import seq_eq
        xs = symstr.cps(x)
        r = False
        for w in container:
            if isinstance(w, str) and len(w) == len(xs):
                e = seq_eq(xs, [ord(ch) for ch in w])
                if e is True:
                    r = True
                    break
                if e is not False:
                    r = e | r
        if isinstance(r, SymBool):
            return ~r if neg else r
        return (not r) if neg else r
    if type(x) is SymInt and type(container) in (tuple, list, set, frozenset) and len(container) <= 64:
        r = False
        for y in container:
            if isinstance(y, (int, SymInt)):
                e = (x == y)
                if e is True:
                    r = True
                    break
                if e is not False:
                    r = e | r
        if isinstance(r, SymBool):
            return ~r if neg else r
        return (not r) if neg else r
    if neg:
        return x not in container
    return x in container


def isctl_(e):
    from .core import Abort, PathEnd
    return isinstance(e, (Abort, PathEnd, Inconclusive, KeyboardInterrupt, SystemExit, GeneratorExit))


def issym_(c):
    return isinstance(c, SymBool)


def ite_(c, a, b):
    from .symint import ite, lift
    if lift(a) is not None and lift(b) is not None:
        return ite(c, a, b)
    return a if bool(c) else b


def fstr(*parts):
    if not any(type(p) is tuple and is_sym(p[0]) for p in parts):
        out = []
        for p in parts:
            if type(p) is tuple:
                v, conv, spec = p
                if conv == 114:
                    v = repr(v)
                elif conv == 115:
                    v = str(v)
                elif conv == 97:
                    v = ascii(v)
                out.append(format(v, spec))
            else:
                out.append(p)
        return ''.join(out)
    from . import symstr
    return symstr.fstring(parts)


_symtypes()
