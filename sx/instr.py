"""AST instrumentation of selected /repo modules (import hook).

The module is re-compiled from its current source file on every run; `Call`,
`%`, `not`, f-strings and `is`-free chained compares are rewritten into calls
of the hooks in sx.hooks, which perform the native operation unless an operand
is symbolic.
"""
import ast
import hashlib
import importlib.abc
import importlib.machinery
import sys

_SKIP_NAMES = ('super', 'locals', 'globals', 'vars', 'eval', 'exec', 'dir', '__sx_ite__', '__sx_issym__', '__sx_isctl__',
               '__sx_call__', '__sx_mod__', '__sx_not__', '__sx_fstr__', '__sx_in__')


class T(ast.NodeTransformer):
    counter = 0

    def visit_Call(self, node):
        self.generic_visit(node)
        if isinstance(node.func, ast.Name) and node.func.id in _SKIP_NAMES:
            return node
        for a in node.args:
            if isinstance(a, ast.Starred):
                break
        return ast.copy_location(
            ast.Call(func=ast.Name('__sx_call__', ast.Load()),
                     args=[node.func] + node.args, keywords=node.keywords), node)

    def visit_BinOp(self, node):
        self.generic_visit(node)
        if isinstance(node.op, ast.Mod):
            return ast.copy_location(
                ast.Call(func=ast.Name('__sx_mod__', ast.Load()),
                         args=[node.left, node.right], keywords=[]), node)
        return node

    def visit_UnaryOp(self, node):
        self.generic_visit(node)
        if isinstance(node.op, ast.Not):
            return ast.copy_location(
                ast.Call(func=ast.Name('__sx_not__', ast.Load()),
                         args=[node.operand], keywords=[]), node)
        return node

    def visit_Compare(self, node):
        self.generic_visit(node)
        if len(node.ops) == 1 and isinstance(node.ops[0], (ast.In, ast.NotIn)):
            neg = isinstance(node.ops[0], ast.NotIn)
            return ast.copy_location(
                ast.Call(func=ast.Name('__sx_in__', ast.Load()),
                         args=[node.left, node.comparators[0], ast.Constant(neg)], keywords=[]), node)
        return node

    # -- if-conversion: `if C: x op= E` with a symbolic C becomes x = ite(C, x op E, x) (no fork)
    _PURE = (ast.Name, ast.Constant, ast.BinOp, ast.UnaryOp, ast.Attribute)

    def _pure(self, e):
        for n in ast.walk(e):
            if isinstance(n, (ast.expr_context, ast.operator, ast.unaryop)):
                continue
            if not isinstance(n, self._PURE):
                return False
            if isinstance(n, ast.BinOp) and isinstance(n.op, (ast.Mod, ast.Div, ast.FloorDiv, ast.Pow, ast.MatMult)):
                return False
            if isinstance(n, ast.UnaryOp) and isinstance(n.op, ast.Not):
                return False
        return True

    def visit_If(self, node):
        ok = not node.orelse and 1 <= len(node.body) <= 3
        if ok:
            for st in node.body:
                if isinstance(st, ast.AugAssign) and isinstance(st.target, ast.Name) and self._pure(st.value) and \
                        isinstance(st.op, (ast.BitXor, ast.BitOr, ast.BitAnd, ast.Add, ast.Sub, ast.LShift, ast.RShift)):
                    continue
                if isinstance(st, ast.Assign) and len(st.targets) == 1 and isinstance(st.targets[0], ast.Name) and self._pure(st.value):
                    continue
                ok = False
        if not ok:
            self.generic_visit(node)
            return node
        T.counter += 1
        cname = '__sxc%d' % T.counter
        import copy
        orig = copy.deepcopy(node)
        self.generic_visit(orig)
        test = self.visit(copy.deepcopy(node.test))
        conv = []
        for st in node.body:
            if isinstance(st, ast.AugAssign):
                then = ast.BinOp(ast.Name(st.target.id, ast.Load()), st.op, copy.deepcopy(st.value))
                tgt = st.target.id
            else:
                then = copy.deepcopy(st.value)
                tgt = st.targets[0].id
            conv.append(ast.Assign([ast.Name(tgt, ast.Store())],
                                   ast.Call(ast.Name('__sx_ite__', ast.Load()),
                                            [ast.Name(cname, ast.Load()), then, ast.Name(tgt, ast.Load())], [])))
        orig.test = ast.Name(cname, ast.Load())
        new = [ast.Assign([ast.Name(cname, ast.Store())], test),
               ast.If(ast.Call(ast.Name('__sx_issym__', ast.Load()), [ast.Name(cname, ast.Load())], []), conv, [orig])]
        for n in new:
            ast.copy_location(n, node)
        return new

    def visit_ExceptHandler(self, node):
        # a bare `except:` must not swallow the engine's control-flow exceptions
        self.generic_visit(node)
        if node.type is None or (isinstance(node.type, ast.Name) and node.type.id == 'BaseException'):
            name = node.name or '__sx_e'
            guard = ast.If(ast.Call(ast.Name('__sx_isctl__', ast.Load()), [ast.Name(name, ast.Load())], []),
                           [ast.Raise()], [])
            new = ast.ExceptHandler(ast.Name('BaseException', ast.Load()), name, [guard] + node.body)
            return ast.copy_location(new, node)
        return node

    def visit_JoinedStr(self, node):
        self.generic_visit(node)
        parts = []
        for v in node.values:
            if isinstance(v, ast.Constant):
                parts.append(v)
            elif isinstance(v, ast.FormattedValue):
                spec = v.format_spec if v.format_spec is not None else ast.Constant('')
                if isinstance(spec, ast.JoinedStr):
                    if all(isinstance(x, ast.Constant) for x in spec.values):
                        spec = ast.Constant(''.join(x.value for x in spec.values))
                    else:
                        return node
                parts.append(ast.Tuple([v.value, ast.Constant(v.conversion), spec], ast.Load()))
            else:
                return node
        return ast.copy_location(
            ast.Call(func=ast.Name('__sx_fstr__', ast.Load()), args=parts, keywords=[]), node)


TARGETS = set()
LOADED = {}       # module name -> dict(file, sha1)


class Finder(importlib.abc.MetaPathFinder, importlib.abc.Loader):
    def find_spec(self, name, path, target=None):
        if name not in TARGETS:
            return None
        spec = importlib.machinery.PathFinder.find_spec(name, path)
        if spec is None or not spec.origin or not spec.origin.endswith('.py'):
            return None
        spec.loader = self
        return spec

    def create_module(self, spec):
        return None

    def exec_module(self, module):
        from . import hooks
        origin = module.__spec__.origin
        with open(origin, 'rb') as f:
            raw = f.read()
        src = raw.decode('utf-8')
        tree = T().visit(ast.parse(src, origin))
        ast.fix_missing_locations(tree)
        code = compile(tree, origin, 'exec')
        d = module.__dict__
        d['__sx_call__'] = hooks.call
        d['__sx_mod__'] = hooks.mod
        d['__sx_not__'] = hooks.not_
        d['__sx_fstr__'] = hooks.fstr
        d['__sx_in__'] = hooks.in_
        d['__sx_ite__'] = hooks.ite_
        d['__sx_issym__'] = hooks.issym_
        d['__sx_isctl__'] = hooks.isctl_
        d['__file__'] = origin
        LOADED[module.__name__] = dict(file=origin, sha1=hashlib.sha1(raw).hexdigest())
        exec(code, d)


def install(*names):
    """instrument these modules when they are (next) imported"""
    for n in names:
        if n in sys.modules and n not in LOADED:
            raise RuntimeError('%s was imported before sx.instr.install' % n)
    TARGETS.update(names)
    if not any(isinstance(f, Finder) for f in sys.meta_path):
        sys.meta_path.insert(0, Finder())
