"""Integer IR with exact Python-int semantics.

Every node carries a conservative interval [lo, hi] (Python ints).  Lowering to
z3 is to bit-vectors whose width is derived from the intervals, so no
wrap-around can occur; lowering is demand-driven (`low(e, n)` = e mod 2^n as an
n-bit vector), which lets masks / `% 2^k` / shifts-then-mask cut wide products
down to the bits that are actually observed.  Lowered terms are hash-consed on
a canonical key so that syntactically different Python computations of the
same expression become the same z3 term.
"""
import z3

class Inconclusive(BaseException):
    """engine limit hit on this path (cap, unknown, unsupported op)"""


WIDE = 128          # comparisons on terms wider than this are forked lazily
MODE = 'bv'         # 'bv': exact-width bit-vectors (default) | 'int': z3 Int (linear arithmetic; no bitwise ops)


def set_mode(m):
    global MODE, WIDE
    MODE = m
    WIDE = 128 if m == 'bv' else 1 << 30


def bits_for(lo, hi):
    """minimal signed width holding [lo, hi]"""
    m = max(hi, -lo - 1, 0)
    return m.bit_length() + 1


class N(object):
    __slots__ = ('op', 'a', 'lo', 'hi', '_z', 'sz')

    def __init__(s, op, a, lo, hi):
        s.op = op
        s.a = a
        s.lo = lo
        s.hi = hi
        s._z = {}
        n = 1
        for x in a:
            if type(x) is N:
                n += x.sz
        s.sz = n if n < 100000 else 100000       # tree size (capped): cheap proxy for term size

    @property
    def w(s):
        return bits_for(s.lo, s.hi)

    def is_const(s):
        return s.op == 'c'

    def __repr__(s):
        if s.op == 'c':
            return 'c(%d)' % s.a[0]
        if s.op == 'v':
            return 'v(%s)' % s.a[0]
        return '%s[%d..%d]' % (s.op, s.lo, s.hi)


_CONSTS = {}


def const(v):
    v = int(v)
    n = _CONSTS.get(v)
    if n is None:
        n = N('c', (v,), v, v)
        if -1024 <= v <= 1024:
            _CONSTS[v] = n
    return n


def var(name, lo, hi):
    assert lo <= hi, (name, lo, hi)
    if lo == hi:
        return const(lo)
    return N('v', (name,), lo, hi)


def zbv(expr, lo, hi):
    """opaque z3 bit-vector term (signed interpretation) with a known interval"""
    return N('z', (expr, expr.size()), lo, hi)


def var_domain(n):
    """z3 constraint lo <= v <= hi for a var node"""
    if MODE == 'int':
        v = z3.Int(n.a[0])
        return z3.And(v >= n.lo, v <= n.hi)
    w = n.w
    v = z3.BitVec(n.a[0], w)
    cs = []
    if n.lo != -(1 << (w - 1)):
        cs.append(v >= n.lo)
    if n.hi != (1 << (w - 1)) - 1:
        cs.append(v <= n.hi)
    return z3.And(*cs) if cs else z3.BoolVal(True)


def _corners(f, a, b):
    vs = [f(x, y) for x in (a.lo, a.hi) for y in (b.lo, b.hi)]
    return min(vs), max(vs)


def add(a, b):
    if a.op == 'c' and b.op == 'c':
        return const(a.a[0] + b.a[0])
    if b.op == 'c' and b.a[0] == 0:
        return a
    if a.op == 'c' and a.a[0] == 0:
        return b
    c = _try_cat(a, b)
    if c is not None:
        return c
    return N('+', (a, b), a.lo + b.lo, a.hi + b.hi)


def sub(a, b):
    if a.op == 'c' and b.op == 'c':
        return const(a.a[0] - b.a[0])
    if b.op == 'c' and b.a[0] == 0:
        return a
    # sign-extension idiom: (x ^ 2^(k-1)) - 2^(k-1), x in [0, 2^k)
    if b.op == 'c' and a.op == '^':
        c = b.a[0]
        for x, y in ((a.a[0], a.a[1]), (a.a[1], a.a[0])):
            if y.op == 'c' and y.a[0] == c and c > 0 and c & (c - 1) == 0 and x.lo >= 0 and x.hi < 2 * c:
                k = c.bit_length()
                if x.op == 'bits' and x.a[1] == 0 and x.a[2] == k and x.a[0].lo >= -c and x.a[0].hi <= c - 1:
                    return x.a[0]
                return N('sxt', (x, k), -c, c - 1)
    return N('-', (a, b), a.lo - b.hi, a.hi - b.lo)


def mul(a, b):
    if a.op == 'c' and b.op == 'c':
        return const(a.a[0] * b.a[0])
    for x, y in ((a, b), (b, a)):
        if x.op == 'c':
            if x.a[0] == 0:
                return const(0)
            if x.a[0] == 1:
                return y
    lo, hi = _corners(lambda x, y: x * y, a, b)
    return N('*', (a, b), lo, hi)


def neg(a):
    if a.op == 'c':
        return const(-a.a[0])
    return N('neg', (a,), -a.hi, -a.lo)


def inv(a):
    if a.op == 'c':
        return const(~a.a[0])
    return N('~', (a,), ~a.hi, ~a.lo)


def shl(a, k):
    if k == 0:
        return a
    if a.op == 'c':
        return const(a.a[0] << k)
    if a.op == '<<':
        return shl(a.a[0], a.a[1] + k)
    return N('<<', (a, k), a.lo << k, a.hi << k)


def shr(a, k):
    if k == 0:
        return a
    if a.op == 'c':
        return const(a.a[0] >> k)
    if a.op == '>>':
        return shr(a.a[0], a.a[1] + k)            # floor shifts compose
    if a.op == 'bits':
        X, l0, n0 = a.a
        return const(0) if k >= n0 else bits(X, l0 + k, n0 - k)
    if a.op == 'cat':
        hi_, lo_, k2 = a.a
        if k >= k2:
            return shr(hi_, k - k2)
    return N('>>', (a, k), a.lo >> k, a.hi >> k)


def _base(n):
    while n.op == 'ref':
        n = n.a[0]
    return n


def bits(x, lo, ln):
    """(x >> lo) & (2^ln - 1): the bit field [lo, lo+ln) of x (two's complement)"""
    if ln <= 0:
        return const(0)
    if x.op == 'c':
        return const((x.a[0] >> lo) & ((1 << ln) - 1))
    if x.op == 'bits':
        X, l0, n0 = x.a
        if lo >= n0:
            return const(0)
        return bits(X, l0 + lo, min(ln, n0 - lo))
    if x.op == 'cat':
        hi_, lo_, k = x.a
        if lo + ln <= k:
            return bits(lo_, lo, ln)
        if lo >= k:
            return bits(hi_, lo - k, ln)
    if x.op == '>>':
        return bits(x.a[0], x.a[1] + lo, ln)
    if x.op == 'sxt' and lo + ln <= x.a[1]:
        return bits(x.a[0], lo, ln)          # below the sign bit a sign extension changes nothing
    if lo == 0 and x.lo >= 0 and x.hi < (1 << ln):
        return x
    if x.lo >= 0 and (x.hi >> lo) < (1 << ln):
        # the mask is a no-op: keep the field form (it recombines with its neighbours)
        if lo == 0:
            return x
        top = x.hi >> lo
        return N('bits', (x, lo, max(1, top.bit_length())), x.lo >> lo, top)
    hi = (1 << ln) - 1
    if x.lo >= 0:
        hi = min(hi, x.hi >> lo)
    return N('bits', (x, lo, ln), 0, hi)


def cat(hi_, lo_, k):
    """hi * 2^k + lo, with 0 <= lo < 2^k"""
    if lo_.op == 'c' and lo_.a[0] == 0:
        return shl(hi_, k)
    if hi_.op == 'c' and hi_.a[0] == 0:
        return lo_
    if hi_.op == 'c' and lo_.op == 'c':
        return const((hi_.a[0] << k) | lo_.a[0])
    # adjacent fields of the same value recombine
    l = lo_
    if l.op != 'bits' and l.lo >= 0 and l.hi < (1 << k):
        l = N('bits', (lo_, 0, k), 0, l.hi)          # view lo as the field [0,k) of itself
    if hi_.op == 'bits' and l.op == 'bits' and _base(hi_.a[0]) is _base(l.a[0]) and l.a[2] == k and hi_.a[1] == l.a[1] + k:
        return bits(l.a[0], l.a[1], hi_.a[2] + k)
    return N('cat', (hi_, lo_, k), hi_.lo << k, (hi_.hi << k) + (1 << k) - 1)


def _try_cat(a, b):
    for hi_, lo_ in ((a, b), (b, a)):
        if hi_.op == '<<' and lo_.lo >= 0 and lo_.hi < (1 << hi_.a[1]):
            return cat(hi_.a[0], lo_, hi_.a[1])
    return None


def _bitrange(a, b):
    if a.lo >= 0 and b.lo >= 0:
        k = max(a.hi.bit_length(), b.hi.bit_length())
        return 0, (1 << k) - 1
    w = max(a.w, b.w)
    return -(1 << (w - 1)), (1 << (w - 1)) - 1


def band(a, b):
    if a.op == 'c' and b.op == 'c':
        return const(a.a[0] & b.a[0])
    for x, m in ((a, b), (b, a)):
        if m.op == 'c' and m.a[0] >= 0 and (m.a[0] & (m.a[0] + 1)) == 0:
            if m.a[0] == 0:
                return const(0)
            return bits(x, 0, m.a[0].bit_length())
        if m.op == 'c' and m.a[0] > 0 and (m.a[0] & (m.a[0] - 1)) == 0:
            k = m.a[0].bit_length() - 1          # single-bit mask
            return shl(bits(x, k, 1), k)
    if b.op == 'c' and b.a[0] >= 0:
        lo, hi = 0, b.a[0]
        if a.lo >= 0:
            hi = min(hi, a.hi)
    elif a.op == 'c' and a.a[0] >= 0:
        lo, hi = 0, a.a[0]
        if b.lo >= 0:
            hi = min(hi, b.hi)
    elif a.lo >= 0 and b.lo >= 0:
        lo, hi = 0, min(a.hi, b.hi)
    elif a.lo >= 0:
        lo, hi = 0, a.hi
    elif b.lo >= 0:
        lo, hi = 0, b.hi
    else:
        lo, hi = _bitrange(a, b)
    return N('&', (a, b), lo, hi)


def bor(a, b):
    if a.op == 'c' and b.op == 'c':
        return const(a.a[0] | b.a[0])
    if b.op == 'c' and b.a[0] == 0:
        return a
    if a.op == 'c' and a.a[0] == 0:
        return b
    c = _try_cat(a, b)
    if c is not None:
        return c
    lo, hi = _bitrange(a, b)
    return N('|', (a, b), lo, hi)


def bxor(a, b):
    if a.op == 'c' and b.op == 'c':
        return const(a.a[0] ^ b.a[0])
    if b.op == 'c' and b.a[0] == 0:
        return a
    if a.op == 'c' and a.a[0] == 0:
        return b
    c = _try_cat(a, b)
    if c is not None:
        return c
    lo, hi = _bitrange(a, b)
    return N('^', (a, b), lo, hi)


def ite(c, a, b):
    """c: z3 Bool"""
    if z3.is_true(c):
        return a
    if z3.is_false(c):
        return b
    return N('ite', (c, a, b), min(a.lo, b.lo), max(a.hi, b.hi))


def modpow2(a, k):
    return band(a, const((1 << k) - 1))


def absn(a):
    if a.op == 'c':
        return const(abs(a.a[0]))
    if a.lo >= 0:
        return a
    if a.hi <= 0:
        return neg(a)
    return N('abs', (a,), 0, max(abs(a.lo), abs(a.hi)))


def bitlen(a):
    """bit_length of a non-negative value"""
    assert a.lo >= 0
    if a.op == 'c':
        return const(a.a[0].bit_length())
    return N('bl', (a,), a.lo.bit_length(), a.hi.bit_length())


def floordiv(a, b):
    """Python floor division; b must exclude 0 (caller forks on b == 0)"""
    assert b.lo > 0 or b.hi < 0
    if a.op == 'c' and b.op == 'c':
        return const(a.a[0] // b.a[0])
    if b.op == 'c':
        c = b.a[0]
        if c == 1:
            return a
        if c > 0 and c & (c - 1) == 0:
            return shr(a, c.bit_length() - 1)
    lo, hi = _corners(lambda x, y: x // y, a, b)
    if b.op != 'c':
        # |a // b| <= |a|
        m = max(abs(a.lo), abs(a.hi))
        lo, hi = min(lo, -m), max(hi, m)
    return N('//', (a, b), lo, hi)


def pymod(a, b):
    """Python modulo (sign of divisor); b must exclude 0"""
    assert b.lo > 0 or b.hi < 0
    if a.op == 'c' and b.op == 'c':
        return const(a.a[0] % b.a[0])
    if b.op == 'c':
        c = b.a[0]
        if c > 0 and c & (c - 1) == 0:
            return modpow2(a, c.bit_length() - 1)
    if b.lo > 0:
        lo, hi = 0, b.hi - 1
        if a.lo >= 0:
            hi = min(hi, a.hi)
    else:
        lo, hi = b.lo + 1, 0
    return N('%', (a, b), lo, hi)


def refine(n, lo, hi):
    """alias of n known (from the path condition) to lie in [lo, hi]"""
    lo = n.lo if lo is None else max(lo, n.lo)
    hi = n.hi if hi is None else min(hi, n.hi)
    if (lo, hi) == (n.lo, n.hi) or lo > hi:
        return n
    if n.op == 'c':
        return n
    return N('ref', (n,), lo, hi)


# ---------------------------------------------------------------------------
# lowering:  low(e, n) == z3 BV of width n equal to e mod 2^n
#
# Canonical keys are *interned*: a key is a small int naming a structural tuple whose
# children are again interned ids, so shared sub-terms (DAGs such as a CRC loop) stay
# shared and syntactically different Python computations of one expression meet at one id.
_INTERN = {}        # structural tuple -> id
_KEYS = []          # id -> structural tuple
_OBJ = {}           # id -> embedded z3 object (conditions, opaque terms)
_BUILT = {}         # id -> z3 term


def _intern(t, obj=None):
    i = _INTERN.get(t)
    if i is None:
        i = len(_KEYS)
        _INTERN[t] = i
        _KEYS.append(t)
        if obj is not None:
            _OBJ[i] = obj
    return i


def _ck_full(e):
    return ckey(e, e.w)


def ckey(e, n):
    k = ('k', n)
    z = e._z
    if k in z:
        return z[k]
    op = e.op
    if op == 'c':
        r = _intern(('c', e.a[0] & ((1 << n) - 1), n))
    elif op == 'v':
        r = _intern(('v', e.a[0], e.w, n))
    elif op == 'z':
        r = _intern(('z', e.a[0].get_id(), e.a[1], n), e.a[0])
    elif op == 'sxt':
        x, kk = e.a
        r = ckey(x, n) if n <= kk else _intern(('sxt', ckey(x, kk), kk, n))
    elif op == 'ref':
        # value is within e's interval, which fits e.w bits; e.a[0]'s low n bits are exact for n <= width
        ew = e.w
        r = ckey(e.a[0], n) if n <= ew else _intern(('sxt', ckey(e.a[0], ew), ew, n))
    elif op in ('+', '*', '|', '^'):
        r = None
        if r is None:
            x, y = ckey(e.a[0], n), ckey(e.a[1], n)
            if y < x:
                x, y = y, x
            r = _intern((op, n, x, y))
    elif op == '&':
        a, b = e.a
        m = None
        if b.op == 'c' and b.a[0] >= 0:
            m = b.a[0]
            x = a
        elif a.op == 'c' and a.a[0] >= 0:
            m = a.a[0]
            x = b
        if m is not None and (m & ((1 << n) - 1)) == (1 << n) - 1:
            r = ckey(x, n)
        elif m is not None and m.bit_length() < n:
            k2 = max(m.bit_length(), 1)
            inner = ckey(x, k2) if m == (1 << k2) - 1 else _intern(('&', k2, ckey(x, k2), _intern(('c', m, k2))))
            r = _intern(('zxt', inner, k2, n))
        else:
            x, y = ckey(a, n), ckey(b, n)
            if y < x:
                x, y = y, x
            r = _intern(('&', n, x, y))
    elif op == 'bits':
        X, lo_, ln = e.a
        m = min(n, ln)
        need = lo_ + m
        xw = X.w
        if need <= xw:
            inner = _intern(('ext', ckey(X, need), lo_, m)) if lo_ or True else ckey(X, m)
        else:
            inner = _intern(('ext', _intern(('sxt', ckey(X, xw), xw, need)), lo_, m))
        r = inner if m == n else _intern(('zxt', inner, m, n))
    elif op == 'cat':
        hi_, lo_, k2 = e.a
        r = ckey(lo_, n) if n <= k2 else _intern(('cat', ckey(hi_, n - k2), ckey(lo_, k2), k2, n))
    elif op == '-':
        r = _intern((op, n, ckey(e.a[0], n), ckey(e.a[1], n)))
    elif op in ('neg', '~'):
        r = _intern((op, n, ckey(e.a[0], n)))
    elif op == '<<':
        a, k2 = e.a
        r = _intern(('c', 0, n)) if k2 >= n else _intern(('shl', ckey(a, n - k2), k2, n))
    elif op == '>>':
        a, k2 = e.a
        need = n + k2
        aw = a.w
        if need <= aw:
            r = _intern(('ext', ckey(a, need), k2, n))
        else:
            r = _intern(('ext', _intern(('sxt', ckey(a, aw), aw, need)), k2, n))
    elif op == 'ite':
        r = _intern(('ite', n, e.a[0].get_id(), ckey(e.a[1], n), ckey(e.a[2], n)), e.a[0])
    elif op == 'abs':
        r = _intern(('abs', n, _ck_full(e.a[0]), e.a[0].w))
    elif op == 'bl':
        r = _intern(('bl', n, _ck_full(e.a[0]), e.a[0].w))
    elif op in ('//', '%'):
        a, b = e.a
        W = max(a.w, b.w) + 1
        r = _intern((op, n, ckey(a, W), ckey(b, W), W, a.lo >= 0 and b.lo > 0))
    else:
        raise NotImplementedError(op)
    z[k] = r
    return r


def _fit(t, w, n, signed=True):
    if n < w:
        return z3.Extract(n - 1, 0, t)
    if n == w:
        return t
    return z3.SignExt(n - w, t) if signed else z3.ZeroExt(n - w, t)


def build(i):
    r = _BUILT.get(i)
    if r is not None:
        return r
    k = _KEYS[i]
    t = k[0]
    if t == 'c':
        r = z3.BitVecVal(k[1], k[2])
    elif t == 'v':
        r = _fit(z3.BitVec(k[1], k[2]), k[2], k[3])
    elif t == 'z':
        r = _fit(_OBJ[i], k[2], k[3])
    elif t == 'sxt':
        r = z3.SignExt(k[3] - k[2], build(k[1]))
    elif t == 'zxt':
        r = z3.ZeroExt(k[3] - k[2], build(k[1]))
    elif t in ('+', '*', '|', '^', '&'):
        a = build(k[2])
        b = build(k[3])
        r = a + b if t == '+' else a * b if t == '*' else a | b if t == '|' else a ^ b if t == '^' else a & b
    elif t == '-':
        r = build(k[2]) - build(k[3])
    elif t == 'neg':
        r = -build(k[2])
    elif t == '~':
        r = ~build(k[2])
    elif t == 'shl':
        r = z3.Concat(build(k[1]), z3.BitVecVal(0, k[2]))
    elif t == 'cat':
        r = z3.Concat(build(k[1]), build(k[2]))
    elif t == 'ext':
        r = z3.Extract(k[3] + k[2] - 1, k[2], build(k[1]))
    elif t == 'ite':
        r = z3.If(_OBJ[i], build(k[3]), build(k[4]))
    elif t == 'abs':
        n, w = k[1], k[3]
        x = build(k[2])
        m = max(n, w + 1)
        xe = z3.SignExt(m - w, x) if m > w else x
        r = z3.If(xe < 0, -xe, xe)
        r = z3.Extract(n - 1, 0, r) if n < m else r
    elif t == 'bl':
        n, w = k[1], k[3]
        x = build(k[2])
        r = z3.BitVecVal(0, n)
        for j in range(w - 1):       # x >= 0: bits 0 .. w-2
            r = z3.If(z3.Extract(j, j, x) == 1, z3.BitVecVal(j + 1, n), r)
    elif t in ('//', '%'):
        n, W, nonneg = k[1], k[4], k[5]
        a = build(k[2])
        b = build(k[3])
        if nonneg:
            r = z3.UDiv(a, b) if t == '//' else z3.URem(a, b)
        else:
            q = a / b                  # signed, truncating
            rem = z3.SRem(a, b)
            adj = z3.And(rem != 0, (rem < 0) != (b < 0))
            if t == '//':
                r = z3.If(adj, q - 1, q)
            else:
                r = z3.If(adj, rem + b, rem)
        r = _fit(r, W, n)
    else:
        raise NotImplementedError(t)
    _BUILT[i] = r
    return r


def low(e, n):
    return build(ckey(e, n))


class IntModeUnsupported(Inconclusive):
    pass


def to_int(e):
    """z3 Int term of node e (MODE == 'int')"""
    z = e._z
    r = z.get('int')
    if r is not None:
        return r
    op = e.op
    a = e.a
    if op == 'c':
        r = z3.IntVal(a[0])
    elif op == 'v':
        r = z3.Int(a[0])
    elif op == '+':
        r = to_int(a[0]) + to_int(a[1])
    elif op == '-':
        r = to_int(a[0]) - to_int(a[1])
    elif op == '*':
        r = to_int(a[0]) * to_int(a[1])
    elif op == 'neg':
        r = -to_int(a[0])
    elif op == 'ref':
        r = to_int(a[0])
    elif op == 'bits':
        r = (to_int(a[0]) / z3.IntVal(1 << a[1])) % z3.IntVal(1 << a[2])
    elif op == 'bl':
        x = to_int(a[0])
        r = z3.IntVal(0)
        for k in range(a[0].hi.bit_length()):
            r = z3.If(x >= (1 << k), z3.IntVal(k + 1), r)
    elif op == 'sxt':
        h = 1 << (a[1] - 1)
        r = ((to_int(a[0]) + h) % z3.IntVal(1 << a[1])) - h
    elif op == 'cat':
        r = to_int(a[0]) * (1 << a[2]) + to_int(a[1])
    elif op == 'ite':
        r = z3.If(a[0], to_int(a[1]), to_int(a[2]))
    elif op == 'abs':
        x = to_int(a[0])
        r = z3.If(x < 0, -x, x)
    elif op == '<<':
        r = to_int(a[0]) * (1 << a[1])
    elif op == '>>':
        r = to_int(a[0]) / z3.IntVal(1 << a[1])           # z3 Int div with positive divisor = floor
    elif op in ('//', '%'):
        x, y = a
        if y.op != 'c':
            raise IntModeUnsupported('division by a symbolic value in int mode')
        c = y.a[0]
        if c > 0:
            r = to_int(x) / z3.IntVal(c) if op == '//' else to_int(x) % z3.IntVal(c)
        else:
            # floor semantics for a negative constant divisor: a // c == (-a) // (-c); a % c == -((-a) % (-c))
            if op == '//':
                r = (-to_int(x)) / z3.IntVal(-c)
            else:
                r = -((-to_int(x)) % z3.IntVal(-c))
    elif op == '&' and a[1].op == 'c' and a[1].a[0] >= 0 and (a[1].a[0] & (a[1].a[0] + 1)) == 0:
        r = to_int(a[0]) % z3.IntVal(a[1].a[0] + 1)
    elif op == '&' and a[0].op == 'c' and a[0].a[0] >= 0 and (a[0].a[0] & (a[0].a[0] + 1)) == 0:
        r = to_int(a[1]) % z3.IntVal(a[0].a[0] + 1)
    elif op in ('|', '^') and _disjoint_bits(a[0], a[1]):
        # no common set bit possible (intervals): or/xor is addition
        r = to_int(a[0]) + to_int(a[1])
    else:
        raise IntModeUnsupported('operator %r is not encoded in int mode' % op)
    z['int'] = r
    return r


def _disjoint_bits(x, y):
    """True when the interval/shape of x and y shows they cannot share a set bit"""
    for p, q in ((x, y), (y, x)):
        if q.lo < 0 or p.lo < 0:
            return False
        tz = _trailing_zero_bits(p)
        if tz is not None and q.hi < (1 << tz):
            return True
    return False


def _trailing_zero_bits(n):
    if n.op == 'c':
        v = n.a[0]
        return None if v <= 0 else (v & -v).bit_length() - 1
    if n.op == '<<':
        return n.a[1]
    if n.op in ('|', '^', '+') and len(n.a) == 2:
        x, y = _trailing_zero_bits(n.a[0]), _trailing_zero_bits(n.a[1])
        return None if x is None or y is None else min(x, y)
    if n.op == 'cat':
        return _trailing_zero_bits(n.a[1]) if type(n.a[1]) is N else None
    return None


def full(e):
    """exact value as a signed BV of width e.w (or the Int term in int mode)"""
    if MODE == 'int':
        return to_int(e)
    return low(e, e.w)


def neq_const(e, v):
    """z3 Bool: e != v"""
    if MODE == 'int':
        return to_int(e) != v
    return full(e) != z3.BitVecVal(v, e.w)


def eq(a, b):
    if a.hi < b.lo or b.hi < a.lo:
        return z3.BoolVal(False)
    if a.op == 'c' and b.op == 'c':
        return z3.BoolVal(a.a[0] == b.a[0])
    if MODE == 'int':
        return to_int(a) == to_int(b)
    n = max(a.w, b.w)
    if ckey(a, n) == ckey(b, n):
        return z3.BoolVal(True)           # structurally the same term
    return low(a, n) == low(b, n)


def lt(a, b):
    if a.hi < b.lo:
        return z3.BoolVal(True)
    if a.lo >= b.hi:
        return z3.BoolVal(False)
    if MODE == 'int':
        return to_int(a) < to_int(b)
    n = max(a.w, b.w)
    return low(a, n) < low(b, n)      # signed


def le(a, b):
    if a.hi <= b.lo:
        return z3.BoolVal(True)
    if a.lo > b.hi:
        return z3.BoolVal(False)
    if MODE == 'int':
        return to_int(a) <= to_int(b)
    n = max(a.w, b.w)
    return low(a, n) <= low(b, n)


def evaluate(e, model):
    """concrete value of node e under a z3 model (model completion on)"""
    if e.op == 'c':
        return e.a[0]
    v = model.eval(full(e), model_completion=True)
    if MODE == 'int':
        return v.as_long()
    return v.as_signed_long()


def vars_of(e, acc=None):
    if acc is None:
        acc = {}
    stack = [e]
    seen = set()
    while stack:
        x = stack.pop()
        if id(x) in seen:
            continue
        seen.add(id(x))
        if x.op == 'v':
            acc[x.a[0]] = x
        else:
            for y in x.a:
                if isinstance(y, N):
                    stack.append(y)
    return acc
