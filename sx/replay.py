"""Concrete replay of stored inputs on the real, uninstrumented driver.

usage: python -m sx.replay FILE
 kind=violation|known : exit 1 if the property fails with these inputs, 0 if it holds
 kind=witness         : run every item, compare check outcomes and tags; prints WITNESS-RESULT {json}
"""
import json
import os
import sys
import traceback

os.environ['SX_MODE'] = 'concrete'
ROOT = os.path.dirname(os.path.dirname(os.path.abspath(__file__)))
if ROOT not in sys.path:
    sys.path.insert(0, ROOT)

from sx import api, core, run   # noqa


def run_one(h, tier, jobname, values):
    job = [j for j in h.jobs(tier) if j.name == jobname][0]
    fn = getattr(h, job.fn)
    V = api.ConcV(values, jobname)
    try:
        r = fn(V, **job.params)
        if r is not None:
            V.check(r, 'result')
        return V, None
    except api.ReplayFailure as e:
        return V, ('check', e.label, e.note)
    except core.PathEnd:
        return V, None
    except core.Abort:
        return V, ('abort', 'assumption failed in replay', '')
    except core.Inconclusive as e:
        return V, ('abort', 'inconclusive in replay: %s' % e, '')
    except Exception as e:
        return V, ('check', 'exception:' + type(e).__name__, traceback.format_exc(limit=-8))


def main(path):
    d = json.load(open(path))
    h = run.load_harness(d['property'])
    sys.setrecursionlimit(10000)
    if d['kind'] in ('violation', 'known'):
        V, fail = run_one(h, d['tier'], d['job'], d['values'])
        if fail and fail[0] == 'check':
            print('REPLAY: property %s FAILS on the real driver: job=%s label=%s' % (d['property'], d['job'], fail[1]))
            print('inputs: %s' % json.dumps(d['values']))
            if fail[2]:
                print(fail[2])
            print('observed: %s' % json.dumps(V.plain_tags(), default=str)[:3000])
            return 1
        print('REPLAY: property holds with these inputs (%s)' % (fail[1] if fail else 'all checks passed'))
        return 0
    ok = 0
    bad = []
    for it in d['items']:
        V, fail = run_one(h, d['tier'], it['job'], it['values'])
        if fail:
            bad.append(dict(job=it['job'], values=it['values'], failure=[str(x)[-800:] for x in fail]))
            continue
        t = json.loads(json.dumps(V.plain_tags(), default=str))
        if t != json.loads(json.dumps(it['tags'], default=str)):
            bad.append(dict(job=it['job'], values=it['values'], tags_symbolic=it['tags'], tags_concrete=t))
            continue
        ok += 1
    print('WITNESS-RESULT ' + json.dumps(dict(ok=ok, bad=bad), default=str))
    return 0


if __name__ == '__main__':
    sys.exit(main(sys.argv[1]))
