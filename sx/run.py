"""Check runner: jobs -> worker processes -> replay -> evidence -> exit code."""
import concurrent.futures as cf
import hashlib
import importlib
import inspect
import json
import multiprocessing as mp
import os
import subprocess
import sys
import time
import traceback

ROOT = os.path.dirname(os.path.dirname(os.path.abspath(__file__)))
EXIT_OK, EXIT_VIOLATION, EXIT_HARNESS = 0, 1, 2


class Job(object):
    def __init__(self, name, fn, params=None, opts=None, labels=()):
        self.name = name
        self.fn = fn              # name of a function in the harness module
        self.params = params or {}
        self.opts = opts or {}
        self.labels = tuple(labels)   # labels that must be reached (vacuity witness)


def load_harness(pid):
    return importlib.import_module('harness.' + pid.lower())


def src_sha1(objs):
    out = []
    for o in objs:
        try:
            src = inspect.getsource(o)
            mod = getattr(o, '__module__', None) or getattr(o, '__name__', '')
            out.append(dict(function='%s:%s' % (mod, getattr(o, '__qualname__', getattr(o, '__name__', '?'))),
                            sha1=hashlib.sha1(src.encode()).hexdigest()[:12]))
        except (OSError, TypeError):
            out.append(dict(function=repr(o), sha1=None))
    return out


def worker(pid, jobname, tier, seed, known):
    """runs in a spawned process"""
    t0 = time.time()
    try:
        os.environ['SX_MODE'] = 'sym'
        sys.setrecursionlimit(10000)
        from . import core, api, hooks, instr
        h = load_harness(pid)
        job = [j for j in h.jobs(tier) if j.name == jobname][0]
        fn = getattr(h, job.fn)
        # watchdog: a driver loop that never ends (possible on a changed tree) must not hang the check
        import signal

        def _alarm(signum, frame):
            raise TimeoutError('job watchdog: no progress within the time limit')
        try:
            signal.signal(signal.SIGALRM, _alarm)
            signal.alarm(int(job.opts.get('max_seconds', 3600) * 1.5) + 120)
        except (ValueError, OSError):
            pass
        V = api.SymV(job.name, job.opts)
        params = dict(job.params)

        def run(V):
            return fn(V, **params)
        res = core.explore(run, V, job.opts, known)
        try:
            signal.alarm(0)
        except (ValueError, OSError):
            pass
        st = res.stats
        funcs = []
        if hasattr(h, 'encoded_functions'):
            funcs = src_sha1(h.encoded_functions())
        out = dict(job=job.name, stats=st.as_dict(), complete=res.complete,
                   violations=[v.as_dict() for v in res.violations],
                   known_hits={k: v.as_dict() for k, v in res.known_hits.items()},
                   witnesses=res.witnesses, labels=res.labels,
                   models=dict(hooks.MODELS_USED), instrumented=dict(instr.LOADED),
                   functions=funcs, wall_s=round(time.time() - t0, 3), error=None,
                   params=_jsonable(params))
        missing = [l for l in job.labels if l not in res.labels]
        if missing and not res.violations:
            out['error'] = 'vacuity: labels never reached: %s' % missing
        return out
    except BaseException:
        return dict(job=jobname, error=traceback.format_exc(), stats=None, wall_s=round(time.time() - t0, 3))


def _jsonable(x):
    try:
        json.dumps(x)
        return x
    except TypeError:
        return repr(x)


REPLAY_TIMEOUT = 120


def replay_file(path):
    """run one replay file in a fresh interpreter, concrete mode, no instrumentation.
    returns (failed: bool, output)"""
    env = dict(os.environ)
    env['SX_MODE'] = 'concrete'
    env['PYTHONPATH'] = ROOT + os.pathsep + env.get('PYTHONPATH', '')
    try:
        p = subprocess.run([sys.executable, '-m', 'sx.replay', path], cwd=ROOT, env=env,
                           stdout=subprocess.PIPE, stderr=subprocess.STDOUT, timeout=REPLAY_TIMEOUT)
    except subprocess.TimeoutExpired as e:
        # the real driver did not finish on these inputs (e.g. it deadlocked): the candidate is not confirmed as a
        # violation of the stated label, and is reported as a replay that did not terminate
        out = (e.stdout or b'').decode('utf-8', 'replace') if isinstance(e.stdout, bytes) else (e.stdout or '')
        return 3, out + '\nREPLAY: did not terminate within %d s on the real driver (hang or deadlock)\n' % REPLAY_TIMEOUT
    return p.returncode, p.stdout.decode('utf-8', 'replace')


def load_known(pid):
    p = os.path.join(ROOT, 'known_findings.json')
    if not os.path.exists(p):
        return []
    d = json.load(open(p))
    return [k for k in d.get('known', []) if k.get('property') == pid]


def run_check(pid, tier='quick', seed=0, only=None, workers=None):
    t0 = time.time()
    os.environ.setdefault('SX_MODE', 'sym')
    h = load_harness(pid)
    jobs = h.jobs(tier)
    if only:
        jobs = [j for j in jobs if any(o in j.name for o in only)]
    known = load_known(pid)
    workers = workers or min(16, max(1, len(jobs)))
    ctx = mp.get_context('spawn')
    results = []
    with cf.ProcessPoolExecutor(max_workers=workers, mp_context=ctx) as ex:
        futs = {ex.submit(worker, pid, j.name, tier, seed, known): j for j in jobs}
        for f in cf.as_completed(futs):
            j = futs[f]
            try:
                results.append(f.result())
            except BaseException as e:
                results.append(dict(job=j.name, error='worker died: %r' % (e,), stats=None, wall_s=0))
    results.sort(key=lambda r: r['job'])
    return finish(pid, tier, seed, h, results, known, t0)


def finish(pid, tier, seed, h, results, known, t0):
    from .core import Stats
    total = Stats()
    harness_errors = []
    cands = []
    known_hits = {}
    witnesses = []
    labels = {}
    models = {}
    instrumented = {}
    functions = {}
    incomplete = []
    per_job = []
    for r in results:
        if r.get('stats') is None:
            harness_errors.append('%s: %s' % (r['job'], r['error']))
            continue
        if r.get('error'):
            harness_errors.append('%s: %s' % (r['job'], r['error']))
        s = Stats()
        s.__dict__.update(r['stats'])
        total.merge(s)
        if not r['complete']:
            incomplete.append(r['job'])
        for v in r['violations']:
            cands.append(v)
        for k, v in r['known_hits'].items():
            known_hits.setdefault(k, v)
        for w in r['witnesses']:
            w['job'] = r['job']
            witnesses.append(w)
        for k, v in r['labels'].items():
            labels[k] = labels.get(k, 0) + v
        for k, v in r['models'].items():
            models[k] = models.get(k, 0) + v
        instrumented.update(r['instrumented'])
        for f in r['functions']:
            functions[f['function']] = f['sha1']
        per_job.append(dict(job=r['job'], paths=r['stats']['paths'], obligations=r['stats']['obligations'],
                            discharged=r['stats']['discharged'], unknown=r['stats']['unknown'],
                            inconclusive_paths=r['stats']['inconclusive'], queries=r['stats']['queries'],
                            solver_s=r['stats']['solver_s'], wall_s=r['wall_s'], complete=r['complete']))

    os.makedirs(os.path.join(ROOT, 'replays'), exist_ok=True)
    os.makedirs(os.path.join(ROOT, 'evidence'), exist_ok=True)

    # ---- replay violation candidates on the real (uninstrumented) driver
    confirmed = []
    unconfirmed = []
    seen = set()
    n = 0
    for v in cands:
        key = (v['harness'], v['label'])
        if key in seen and len([c for c in confirmed if (c['harness'], c['label']) == key]) >= 1:
            continue
        seen.add(key)
        n += 1
        path = os.path.join(ROOT, 'replays', '%s_%s_%d.json' % (pid, tier, n))
        json.dump(dict(property=pid, tier=tier, job=v['harness'], label=v['label'], values=v['values'],
                       tags=v['tags'], note=v.get('note', ''), kind='violation'), open(path, 'w'), indent=1)
        rc, out = replay_file(path)
        if rc == 1:
            v['replay'] = path
            confirmed.append(v)
        else:
            v['replay'] = path
            v['replay_output'] = out[-2000:]
            unconfirmed.append(v)
    known_confirmed = []
    known_stale = []
    for kid, v in sorted(known_hits.items()):
        path = os.path.join(ROOT, 'replays', '%s_%s_known_%s.json' % (pid, tier, kid))
        json.dump(dict(property=pid, tier=tier, job=v['harness'], label=v['label'], values=v['values'],
                       tags=v['tags'], note=v.get('note', ''), kind='known', known_id=kid), open(path, 'w'), indent=1)
        rc, out = replay_file(path)
        kf = [k for k in known if k['id'] == kid][0]
        if rc == 1:
            known_confirmed.append((kf, v))
        else:
            known_stale.append((kf, v, out[-500:]))

    # ---- validate a sample of path witnesses against the real driver
    validated = 0
    mismatches = []
    wsel = _select_witnesses(witnesses, getattr(h, 'WITNESS_REPLAYS', {'quick': 60, 'thorough': 200}).get(tier, 60), seed)
    if wsel:
        nb = min(16, max(1, len(wsel) // 4))
        batches = [wsel[i::nb] for i in range(nb)]
        paths = []
        for i, b in enumerate(batches):
            path = os.path.join(ROOT, 'replays', '.%s_%s_witness_%d.json' % (pid, tier, i))
            json.dump(dict(property=pid, tier=tier, kind='witness', items=b), open(path, 'w'))
            paths.append(path)
        with cf.ThreadPoolExecutor(max_workers=nb) as tex:
            for path, (rc, out) in zip(paths, tex.map(replay_file, paths)):
                try:
                    last = [l for l in out.splitlines() if l.startswith('WITNESS-RESULT ')][-1]
                    d = json.loads(last[len('WITNESS-RESULT '):])
                    validated += d['ok']
                    mismatches += d['bad']
                except Exception:
                    mismatches.append(dict(error='witness replay crashed', output=out[-1500:]))
                try:
                    os.unlink(path)
                except OSError:
                    pass
    if mismatches:
        harness_errors.append('path witnesses disagree with the uninstrumented driver: %s' % json.dumps(mismatches[:3])[:3000])
    if unconfirmed:
        harness_errors.append('counterexample(s) did not replay on the real driver: %s' %
                              json.dumps([dict(job=u['harness'], label=u['label'], values=u['values'], out=u.get('replay_output', '')[-600:]) for u in unconfirmed[:3]])[:4000])

    inconclusive = total.unknown + total.inconclusive + len(incomplete)
    meta = getattr(h, 'META', {})
    level = meta.get('level', 'model_checking')
    samples = []
    for w in witnesses[:: max(1, len(witnesses) // 5)][:5]:
        samples.append(dict(job=w['job'], inputs=w['values'], observed=w['tags'], obligations_on_path=w['nchecks']))
    if not samples:
        samples = [dict(note='no completed path')]
    cov = dict(
        states=max(total.paths, 0), transitions=total.decisions,
        traces_validated_against_impl=validated, samples=samples,
        evaluations=total.obligations, distinct_nontrivial=total.nontrivial_paths,
        rule='one case = one explored path of the harness (a distinct sequence of symbolic branch decisions through the real driver code); '
             'non-trivial = the path took at least one symbolic decision or carried an obligation that needed the solver; '
             'evaluations = obligations (V.check) decided over all inputs following their path',
        obligations=total.obligations, discharged=total.discharged,
        trivially_true_obligations=total.trivial,
        inconclusive=inconclusive, inconclusive_reasons=total.inconclusive_reasons,
        unknown_solver_answers=total.unknown, aborted_infeasible_paths=total.aborted,
        paths_ended_early=total.ended, solver_queries=total.queries, solver_seconds=round(total.solver_s, 2),
        solver='z3 %s (python wheel)' % _z3_version(), max_bv_width=total.max_bv_width,
        jobs=per_job, labels_reached=labels,
        functions_encoded=[dict(function=k, sha1=v) for k, v in sorted(functions.items())],
        instrumented_modules=instrumented, models_used=models,
        bounds=meta.get('bounds', {}).get(tier, meta.get('bounds', '')),
        outside_claim=meta.get('outside', []),
        exhaustive=(inconclusive == 0 and not harness_errors),
        explanation=meta.get('explanation', ''),
        known_findings_reported=[k['id'] for k, _ in known_confirmed],
        known_findings_not_reproduced=[k['id'] for k, _, _ in known_stale],
    )
    ev = dict(property_id=pid, tier=tier, seed=int(seed), level=level, coverage=cov,
              assumptions=list(meta.get('assumptions', [])) + ['stubs/models: ' + s for s in meta.get('stubs', [])],
              wall_s=round(time.time() - t0, 2), violations=len(confirmed))
    if harness_errors:
        ev['harness_errors'] = [e[:3000] for e in harness_errors]
    json.dump(ev, open(os.path.join(ROOT, 'evidence', '%s.json' % pid), 'w'), indent=1, default=str)

    # ---- report
    print('%s tier=%s jobs=%d paths=%d obligations=%d discharged=%d inconclusive=%d queries=%d solver_s=%.1f wall_s=%.1f witnesses_validated=%d' % (
        pid, tier, len(per_job), total.paths, total.obligations, total.discharged, inconclusive,
        total.queries, total.solver_s, time.time() - t0, validated))
    for kf, v in known_confirmed:
        print('KNOWN-FINDING: property=%s %s [%s]' % (pid, kf['what'], kf['id']))
    for kf, v, out in known_stale:
        print('note: known finding %s did not reproduce on replay (listed region still satisfiable symbolically)' % kf['id'])
    if inconclusive:
        print('INCONCLUSIVE: %d (%s)' % (inconclusive, json.dumps(total.inconclusive_reasons)[:500]))
    for v in confirmed:
        print('VIOLATION property=%s replay=%s' % (pid, v['replay']))
        print('  job=%s label=%s inputs=%s' % (v['harness'], v['label'], json.dumps(v['values'])[:600]))
        if v.get('note'):
            print('  note: ' + str(v['note'])[-600:].replace('\n', '\n        '))
    for e in harness_errors:
        print('HARNESS-ERROR: ' + e[:3000])
    if confirmed:
        return EXIT_VIOLATION
    if harness_errors:
        return EXIT_HARNESS
    return EXIT_OK


def _select_witnesses(ws, k, seed):
    if len(ws) <= k:
        return ws
    import random
    rnd = random.Random(seed)
    idx = sorted(rnd.sample(range(len(ws)), k))
    return [ws[i] for i in idx]


def _z3_version():
    try:
        import z3
        return z3.get_version_string()
    except Exception:
        return '?'
