"""Floats.  Only the *opaque-bits* layer is implemented: an IEEE value that
enters through struct.unpack('>f'/'>d') is represented by its bit pattern, and
the only operations are packing it back and bit-wise identity.  Arithmetic on
symbolic floats is outside what this engine encodes (paths that need it end
Inconclusive and are reported as such)."""
import struct

from .core import Inconclusive, SymBool
from .symint import SymInt, concretize
from .symseq import seq_eq, items_of


class SymFloat(object):
    __slots__ = ('bits', 'code')

    def __init__(s, bits, code):
        s.bits = list(bits)     # big-endian byte items
        s.code = code           # 'f' | 'd'

    def same_bits(s, o):
        if isinstance(o, SymFloat):
            if o.code != s.code:
                return False
            return seq_eq(s.bits, o.bits)
        if isinstance(o, float):
            return seq_eq(s.bits, list(struct.pack('>' + s.code, o)))
        return False

    def _no(s, *a, **k):
        raise Inconclusive('arithmetic / comparison on a symbolic float is not encoded')
    __add__ = __radd__ = __sub__ = __rsub__ = __mul__ = __rmul__ = __truediv__ = __rtruediv__ = _no
    __lt__ = __le__ = __gt__ = __ge__ = __int__ = __float__ = __bool__ = __hash__ = _no
    __eq__ = __ne__ = _no

    def to_str(s):
        raise Inconclusive('str() of a symbolic float')

    def __repr__(s):
        return 'SymFloat(%s)' % s.code


def pack_float(v, code, order):
    if isinstance(v, SymFloat):
        if v.code != code:
            raise Inconclusive('float width conversion on a symbolic float')
        bs = list(v.bits)
    elif isinstance(v, SymInt):
        raise Inconclusive('symbolic int packed as float')
    else:
        bs = list(struct.pack('>' + code, v))
    if order == '<':
        bs.reverse()
    return bs


def unpack_float(bs, code, order):
    bs = list(bs)
    if order == '<':
        bs.reverse()
    if all(not (type(x) is SymInt and x.n.op != 'c') for x in bs):
        return struct.unpack('>' + code, bytes(concretize(x) for x in bs))[0]
    return SymFloat(bs, code)


def int_truediv(a, b):
    raise Inconclusive('true division on a symbolic int (float result) is not encoded')


def from_int(x):
    raise Inconclusive('int -> float conversion of a symbolic int is not encoded')


def to_float(x):
    if isinstance(x, SymFloat):
        return x
    raise Inconclusive('float() of %s is not encoded' % type(x).__name__)


def new_float(ctx, name, code='d'):
    from .symseq import byte_var_items
    n = 4 if code == 'f' else 8
    return SymFloat(byte_var_items(ctx, name, n), code)


def concrete_float(values, name, code='d'):
    n = 4 if code == 'f' else 8
    b = bytes(int(values.get('%s[%d]' % (name, i), 0)) for i in range(n))
    return struct.unpack('>' + code, b)[0]


# ---- exact-rational layer -------------------------------------------------------
class SymRat(object):
    """the float produced by int / int (true division), kept as the exact rational
    num/den.  Comparisons against integers and other rationals are decided on the
    exact values; this agrees with IEEE round-to-nearest whenever every value that
    is compared is an integer (or k/den) of magnitude < 2^44 -- see the rounding
    lemma listed in the harness assumptions."""
    __slots__ = ('num', 'den')

    def __init__(s, num, den):
        s.num = num
        s.den = den

    def _pair(s, o):
        if isinstance(o, SymRat):
            return s.num * o.den, o.num * s.den
        if isinstance(o, (int, SymInt)):
            return s.num, o * s.den
        if isinstance(o, float) and o == int(o):
            return s.num, int(o) * s.den
        raise Inconclusive('SymRat compared with %s' % type(o).__name__)

    def __lt__(s, o): a, b = s._pair(o); return a < b
    def __le__(s, o): a, b = s._pair(o); return a <= b
    def __gt__(s, o): a, b = s._pair(o); return a > b
    def __ge__(s, o): a, b = s._pair(o); return a >= b
    def __eq__(s, o): a, b = s._pair(o); return a == b
    def __ne__(s, o): a, b = s._pair(o); return a != b
    __hash__ = None

    def __mul__(s, k):
        if isinstance(k, float) and k == int(k):
            k = int(k)
        if isinstance(k, (int, SymInt)):
            return SymRat(s.num * k, s.den)
        raise Inconclusive('SymRat arithmetic')
    __rmul__ = __mul__

    def __add__(s, o):
        if isinstance(o, float) and o == int(o):
            o = int(o)
        if isinstance(o, (int, SymInt)):
            return SymRat(s.num + o * s.den, s.den)
        if isinstance(o, SymRat):
            if o.den == s.den:
                return SymRat(s.num + o.num, s.den)
            return SymRat(s.num * o.den + o.num * s.den, s.den * o.den)
        raise Inconclusive('SymRat arithmetic')
    __radd__ = __add__

    def __neg__(s):
        return SymRat(-s.num, s.den)

    def __sub__(s, o):
        return s + (-o)

    def __sx_int__(s):
        if s.den == 1:
            return s.num
        # int() truncates toward zero
        q = abs(s.num) // s.den
        from .symint import ite
        return ite(s.num < 0, -q, q) if isinstance(s.num, SymInt) else (-(-s.num // s.den) if s.num < 0 else s.num // s.den)

    def __repr__(s):
        return 'SymRat(/%d)' % s.den


def int_truediv(a, b):       # noqa: F811  (replaces the placeholder above)
    if isinstance(b, float) and b == int(b) and b > 0:
        b = int(b)
    if isinstance(b, int) and not isinstance(b, bool) and b > 0 and isinstance(a, (int, SymInt)):
        return SymRat(a, b)
    raise Inconclusive('true division on a symbolic int by a non-constant is not encoded')
