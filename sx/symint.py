"""SymInt: proxy for a Python int with exact semantics over the integer IR."""
import z3

from . import ir
from .core import SymBool, mkbool, Ctx, Abort, Inconclusive


def lift(o):
    """IR node of an int-like operand, or None"""
    if type(o) is SymInt:
        return o.n
    if o is True or o is False:
        return ir.const(int(o))
    if type(o) is int:
        return ir.const(o)
    if isinstance(o, SymBool):
        return ir.ite(o.z(), ir.const(1), ir.const(0))
    if isinstance(o, int):
        return ir.const(int(o))
    return None


def _refine(sobj, lo, hi):
    sobj.n = ir.refine(sobj.n, lo, hi)


def _refiners(s, o, kind):
    if type(o) is not int or s.n.op == 'c':
        return (None, None)
    c = o
    if kind == 'lt':
        return (lambda: _refine(s, None, c - 1), lambda: _refine(s, c, None))
    if kind == 'le':
        return (lambda: _refine(s, None, c), lambda: _refine(s, c + 1, None))
    if kind == 'gt':
        return (lambda: _refine(s, c + 1, None), lambda: _refine(s, None, c))
    if kind == 'ge':
        return (lambda: _refine(s, c, None), lambda: _refine(s, None, c - 1))
    if kind == 'eq':
        return (lambda: _refine(s, c, c), None)
    if kind == 'ne':
        return (None, lambda: _refine(s, c, c))
    return (None, None)


def _definitely_apart(a, b):
    return a.hi < b.lo or b.hi < a.lo


_CMP = {
    'lt': lambda a, b: ir.lt(a, b),
    'le': lambda a, b: ir.le(a, b),
    'gt': lambda a, b: ir.lt(b, a),
    'ge': lambda a, b: ir.le(b, a),
    'eq': lambda a, b: ir.eq(a, b),
    'ne': lambda a, b: z3.Not(ir.eq(a, b)),
}


def _float_cmp(s, o, kind):
    """exact comparison of an int with a concrete float (Python compares them exactly)"""
    import math
    if o != o:
        return kind == 'ne'
    if o == float('inf'):
        return kind in ('lt', 'le', 'ne')
    if o == float('-inf'):
        return kind in ('gt', 'ge', 'ne')
    if o == int(o):
        return compare(s, int(o), kind)
    if kind == 'eq':
        return False
    if kind == 'ne':
        return True
    if kind in ('lt', 'le'):
        return compare(s, math.floor(o), 'le')
    return compare(s, math.ceil(o), 'ge')


def compare(s, o, kind):
    if type(o) is float:
        return _float_cmp(s, o, kind)
    x = lift(o)
    if x is None:
        return NotImplemented
    a, b = s.n, x
    f = _CMP[kind]
    rt, rf = _refiners(s, o, kind)
    if max(a.w, b.w) > ir.WIDE:
        # decide by intervals when possible, else fork lazily
        quick = None
        if kind == 'lt':
            quick = True if a.hi < b.lo else False if a.lo >= b.hi else None
        elif kind == 'le':
            quick = True if a.hi <= b.lo else False if a.lo > b.hi else None
        elif kind == 'gt':
            quick = True if b.hi < a.lo else False if b.lo >= a.hi else None
        elif kind == 'ge':
            quick = True if b.hi <= a.lo else False if b.lo > a.hi else None
        elif kind == 'eq' and _definitely_apart(a, b):
            quick = False
        elif kind == 'ne' and _definitely_apart(a, b):
            quick = True
        if quick is not None:
            return quick
        return SymBool(('lazy', f, a, b), rt, rf)
    r = mkbool(f(a, b), rt, rf, simp=(a.sz + b.sz) < 60)
    if a.op == '<<' and a.a[0].op in ('bits', '>>'):
        a = a.a[0]
    if kind in ('ne', 'eq') and isinstance(r, SymBool) and b.op == 'c' and b.a[0] == 0:
        # single-bit test: remembered so that an if-converted `x ^= K` can narrow its interval
        if a.op == 'bits' and a.a[2] == 1 and a.lo == 0:
            r.meta = ('bit', a.a[0], a.a[1], kind == 'ne')
        elif a.op == '>>' and a.lo == 0 and a.hi == 1:
            r.meta = ('bit', a.a[0], a.a[1], kind == 'ne')
    return r


class SymInt(object):
    __slots__ = ('n',)

    def __init__(s, n):
        s.n = n

    # -- arithmetic
    def _b(s, o, f, rev=False):
        x = lift(o)
        if x is None:
            return NotImplemented
        return mk(f(x, s.n) if rev else f(s.n, x))

    def __add__(s, o): return s._b(o, ir.add)
    def __radd__(s, o): return s._b(o, ir.add, True)
    def __sub__(s, o): return s._b(o, ir.sub)
    def __rsub__(s, o): return s._b(o, ir.sub, True)
    def __mul__(s, o):
        if type(o) is float and o == int(o) and abs(o) < 2 ** 53:
            # int * integer-valued float constant: kept exact (see SymRat's rounding lemma)
            from . import symfloat
            return symfloat.SymRat(s * int(o), 1)
        return s._b(o, ir.mul)
    __rmul__ = lambda s, o: s.__mul__(o) if type(o) is float else s._b(o, ir.mul, True)
    def __and__(s, o): return s._b(o, ir.band)
    def __rand__(s, o): return s._b(o, ir.band, True)
    def __or__(s, o): return s._b(o, ir.bor)
    def __ror__(s, o): return s._b(o, ir.bor, True)
    def __xor__(s, o): return s._b(o, ir.bxor)
    def __rxor__(s, o): return s._b(o, ir.bxor, True)
    def __neg__(s): return mk(ir.neg(s.n))
    def __pos__(s): return s
    def __invert__(s): return mk(ir.inv(s.n))
    def __abs__(s): return mk(ir.absn(s.n))

    def __lshift__(s, k):
        k = concretize(k)
        if k < 0:
            raise ValueError('negative shift count')
        return mk(ir.shl(s.n, k))

    def __rshift__(s, k):
        k = concretize(k)
        if k < 0:
            raise ValueError('negative shift count')
        return mk(ir.shr(s.n, k))

    def __rlshift__(s, o):
        return o << concretize(s)

    def __rrshift__(s, o):
        return o >> concretize(s)

    def _divlike(s, o, f, rev=False):
        x = lift(o)
        if x is None:
            return NotImplemented
        a, b = (x, s.n) if rev else (s.n, x)
        if b.lo <= 0 <= b.hi:
            bs = mk(b)
            if bs == 0:
                raise ZeroDivisionError('integer division or modulo by zero')
            # refine after the fork
            if b.op != 'c':
                if bool(bs > 0):
                    b = ir.refine(b, 1, None)
                else:
                    b = ir.refine(b, None, -1)
        return mk(f(a, b))

    def __floordiv__(s, o): return s._divlike(o, ir.floordiv)
    def __rfloordiv__(s, o): return s._divlike(o, ir.floordiv, True)
    def __mod__(s, o): return s._divlike(o, ir.pymod)
    def __rmod__(s, o):
        if isinstance(o, (str, bytes)):
            return NotImplemented
        return s._divlike(o, ir.pymod, True)

    def __divmod__(s, o):
        return (s // o, s % o)

    def __rdivmod__(s, o):
        return (o // s, o % s)

    def __truediv__(s, o):
        from . import symfloat
        return symfloat.int_truediv(s, o)

    def __rtruediv__(s, o):
        from . import symfloat
        return symfloat.int_truediv(o, s)

    def __pow__(s, o, m=None):
        e = concretize(o)
        if e < 0 or m is not None:
            raise Inconclusive('unsupported pow on SymInt')
        r = 1
        for _ in range(e):
            r = r * s
        return r

    def __rpow__(s, o):
        return o ** concretize(s)

    def bit_length(s):
        return mk(ir.bitlen(ir.absn(s.n)))

    def to_bytes(s, length, byteorder='big', signed=False):
        from .symseq import SymBytes
        length = concretize(length)
        lo, hi = (-(1 << (8 * length - 1)), (1 << (8 * length - 1)) - 1) if signed else (0, (1 << (8 * length)) - 1)
        if not ((s >= lo) & (s <= hi)):
            raise OverflowError('int too big to convert')
        bs = [(s >> (8 * k)) & 0xff for k in range(length)]
        if byteorder == 'big':
            bs.reverse()
        return SymBytes(bs)

    # -- comparisons
    def __lt__(s, o): return compare(s, o, 'lt')
    def __le__(s, o): return compare(s, o, 'le')
    def __gt__(s, o): return compare(s, o, 'gt')
    def __ge__(s, o): return compare(s, o, 'ge')

    def __eq__(s, o):
        r = compare(s, o, 'eq')
        if r is NotImplemented:
            from . import symfloat
            if isinstance(o, (float, symfloat.SymFloat)):
                return symfloat.from_int(s) == o
            return NotImplemented
        return r

    def __ne__(s, o):
        r = compare(s, o, 'ne')
        if r is NotImplemented:
            from . import symfloat
            if isinstance(o, (float, symfloat.SymFloat)):
                return symfloat.from_int(s) != o
            return NotImplemented
        return r

    def __bool__(s):
        return bool(s != 0)

    def __hash__(s):
        return hash(concretize(s))

    def __index__(s):
        return concretize(s)

    __int__ = __index__
    __trunc__ = __index__

    def __float__(s):
        return float(concretize(s))

    def __repr__(s):
        if s.n.op == 'c':
            return 'SymInt(%d)' % s.n.a[0]
        return 'SymInt[%d..%d]' % (s.n.lo, s.n.hi)

    def __format__(s, spec):
        return format(concretize(s), spec)

    def __str__(s):
        return str(concretize(s))

    @property
    def real(s): return s
    @property
    def imag(s): return 0
    @property
    def numerator(s): return s
    @property
    def denominator(s): return 1

    def conjugate(s): return s

    def __reduce__(s):
        raise Inconclusive('pickling a SymInt')

    # immutable: copies are the object itself (copy.deepcopy of containers holding proxies)
    def __copy__(s):
        return s

    def __deepcopy__(s, memo):
        return s


def mk(n):
    """SymInt, or a plain int when the node is a constant"""
    if n.op == 'c':
        return n.a[0]
    return SymInt(n)


def concretize(x):
    """fork over the feasible values of x (each value is its own path)"""
    if type(x) is not SymInt:
        if isinstance(x, SymBool):
            return 1 if bool(x) else 0
        return x
    n = x.n
    if n.op == 'c':
        return n.a[0]
    v = Ctx.cur.pick_value(n)
    x.n = ir.const(v)
    return v


def ite(cond, a, b):
    """symbolic if-then-else over ints (no fork)"""
    if cond is True:
        return a
    if cond is False:
        return b
    na, nb = lift(a), lift(b)
    m = getattr(cond, 'meta', None)
    if m is not None and m[0] == 'bit':
        # cond tests the top possible bit k of X (0 <= X < 2^(k+1)): under cond, X ^ K with bit k of K set
        # is < 2^k; under not cond, X itself is < 2^k  (the LFSR / CRC step idiom)
        _, X, k, sense = m
        if X.lo >= 0 and X.hi < (1 << (k + 1)):
            top = (1 << k) - 1

            def narrow(n, bit_is_set):
                if ir._base(n) is ir._base(X):
                    return n if bit_is_set else ir.refine(n, 0, top)
                if n.op == '^' and bit_is_set:
                    for p, q in ((n.a[0], n.a[1]), (n.a[1], n.a[0])):
                        if ir._base(p) is ir._base(X) and q.op == 'c' and (q.a[0] >> k) == 1:
                            return ir.refine(n, 0, top)
                return n
            na = narrow(na, sense)
            nb = narrow(nb, not sense)
    return mk(ir.ite(cond.z(), na, nb))


def _intlike(x):
    return type(x) is SymInt or type(x) is int


def smin(a, b):
    if _intlike(a) and _intlike(b):
        return ite(a <= b, a, b) if (type(a) is SymInt or type(b) is SymInt) else min(a, b)
    return b if bool(b < a) else a          # Python's min: first minimal element


def smax(a, b):
    if _intlike(a) and _intlike(b):
        return ite(a >= b, a, b) if (type(a) is SymInt or type(b) is SymInt) else max(a, b)
    return b if bool(b > a) else a
