"""Regular expressions over SymStr: the pattern text is taken from the compiled object the driver
uses, parsed with the standard library's own parser (re._parser) and interpreted over symbolic code
points.  Supported: literals, classes/ranges/negation/\\d\\w\\s, greedy and lazy repeats, groups,
alternation, ^ and $ (with $'s "or before a final newline" meaning).  match/fullmatch/search only."""
import re
try:
    import re._parser as sre_parse
    import re._constants as C
except ImportError:                      # pragma: no cover
    import sre_parse
    import sre_constants as C

import z3
from .core import SymBool, mkbool, zb, Inconclusive
from .symint import SymInt


def _b(x):
    return zb(x) if isinstance(x, SymBool) else z3.BoolVal(bool(x))


def _and(*xs):
    xs = [x for x in xs if not z3.is_true(x)]
    if any(z3.is_false(x) for x in xs):
        return z3.BoolVal(False)
    return z3.And(*xs) if len(xs) > 1 else (xs[0] if xs else z3.BoolVal(True))


def _or(*xs):
    xs = [x for x in xs if not z3.is_false(x)]
    if any(z3.is_true(x) for x in xs):
        return z3.BoolVal(True)
    return z3.Or(*xs) if len(xs) > 1 else (xs[0] if xs else z3.BoolVal(False))


def _char_in(c, items, flags):
    """z3 Bool: code point c matches the class items"""
    negate = False
    alts = []
    for op, av in items:
        if op is C.NEGATE:
            negate = True
        elif op is C.LITERAL:
            alts.append(_b(c == av))
        elif op is C.RANGE:
            lo, hi = av
            alts.append(_b((c >= lo) & (c <= hi)))
        elif op is C.CATEGORY:
            alts.append(_category(c, av))
        else:
            raise Inconclusive('regex class item %r not modelled' % (op,))
    r = _or(*alts)
    return z3.Not(r) if negate else r


def _category(c, cat):
    digit = _b((c >= 48) & (c <= 57))
    word = _or(digit, _b((c >= 97) & (c <= 122)), _b((c >= 65) & (c <= 90)), _b(c == 95))
    space = _or(_b(c == 32), _b((c >= 9) & (c <= 13)))
    ascii_only = _b(c < 128)
    table = {C.CATEGORY_DIGIT: digit, C.CATEGORY_NOT_DIGIT: z3.Not(digit), C.CATEGORY_WORD: word,
             C.CATEGORY_NOT_WORD: z3.Not(word), C.CATEGORY_SPACE: space, C.CATEGORY_NOT_SPACE: z3.Not(space)}
    if cat not in table:
        raise Inconclusive('regex category %r not modelled' % (cat,))
    # unicode-aware categories (\\w matching non-ASCII letters) are only modelled for ASCII input
    return _and(table[cat], ascii_only) if cat in (C.CATEGORY_DIGIT, C.CATEGORY_WORD, C.CATEGORY_SPACE) else _or(table[cat], z3.Not(ascii_only))


def _match_seq(items, chars, pos, flags, k):
    """all ways the item sequence can match starting at pos: k(end_pos, condition) -> z3 Bool, OR-ed"""
    if not items:
        return k(pos)
    (op, av), rest = items[0], items[1:]
    n = len(chars)
    if op is C.LITERAL:
        if pos >= n:
            return z3.BoolVal(False)
        return _and(_b(chars[pos] == av), _match_seq(rest, chars, pos + 1, flags, k))
    if op is C.NOT_LITERAL:
        if pos >= n:
            return z3.BoolVal(False)
        return _and(z3.Not(_b(chars[pos] == av)), _match_seq(rest, chars, pos + 1, flags, k))
    if op is C.ANY:
        if pos >= n:
            return z3.BoolVal(False)
        c = _b(chars[pos] != 10) if not (flags & re.DOTALL) else z3.BoolVal(True)
        return _and(c, _match_seq(rest, chars, pos + 1, flags, k))
    if op is C.IN:
        if pos >= n:
            return z3.BoolVal(False)
        return _and(_char_in(chars[pos], av, flags), _match_seq(rest, chars, pos + 1, flags, k))
    if op is C.AT:
        if av in (C.AT_BEGINNING, C.AT_BEGINNING_STRING):
            return _match_seq(rest, chars, pos, flags, k) if pos == 0 else z3.BoolVal(False)
        if av is C.AT_END:
            # '$': at the end, or just before a newline that is the last character
            if pos == n:
                return _match_seq(rest, chars, pos, flags, k)
            if pos == n - 1:
                return _and(_b(chars[pos] == 10), _match_seq(rest, chars, pos, flags, k))
            return z3.BoolVal(False)
        if av is C.AT_END_STRING:
            return _match_seq(rest, chars, pos, flags, k) if pos == n else z3.BoolVal(False)
        raise Inconclusive('regex anchor %r not modelled' % (av,))
    if op in (C.MAX_REPEAT, C.MIN_REPEAT):
        lo, hi, sub = av
        sub = list(sub)

        def rep(count, p):
            alts = []
            if count >= lo:
                alts.append(_match_seq(rest, chars, p, flags, k))
            if (hi is C.MAXREPEAT or count < hi) and p < n:
                alts.append(_match_seq(sub, chars, p, flags, lambda q, c=count, p0=p: rep(c + 1, q) if q > p0 else z3.BoolVal(False)))
            return _or(*alts)
        return rep(0, pos)
    if op is C.SUBPATTERN:
        sub = list(av[-1])
        return _match_seq(sub + rest, chars, pos, flags, k)
    if op is C.BRANCH:
        return _or(*[_match_seq(list(alt) + rest, chars, pos, flags, k) for alt in av[1]])
    raise Inconclusive('regex construct %r not modelled' % (op,))


def matches(pattern, chars, mode='match'):
    """SymBool/bool: does the compiled pattern match the code point list (re.match semantics)"""
    tree = list(sre_parse.parse(pattern.pattern, pattern.flags))
    flags = pattern.flags
    n = len(chars)
    if mode == 'fullmatch':
        k = lambda q: z3.BoolVal(q == n)
        r = _match_seq(tree, chars, 0, flags, k)
    elif mode == 'match':
        r = _match_seq(tree, chars, 0, flags, lambda q: z3.BoolVal(True))
    else:
        r = _or(*[_match_seq(tree, chars, s, flags, lambda q: z3.BoolVal(True)) for s in range(n + 1)])
    return mkbool(r, simp=False)


class FakeMatch(object):
    def __bool__(self):
        return True

    def group(self, *a):
        raise Inconclusive('match groups of a symbolic match are not modelled')
    groups = span = start = end = group
