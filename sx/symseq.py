"""Symbolic byte sequences: concrete length, symbolic elements.

SymBytes (immutable), SymByteArray (mutable), SymBytesIO.  Elements are plain
ints or SymInt in 0..255.  A symbolic *length* is handled by the harness
forking over it (V.choice / concretize), so every length in the bound is its
own path.
"""
import z3

from . import ir
from .core import SymBool, mkbool, zb, Ctx, Inconclusive
from .symint import SymInt, concretize, lift


def _isbyteslike(o):
    return isinstance(o, (bytes, bytearray, memoryview, SymBytes))


def items_of(o):
    """list of byte items of a bytes-like / iterable of ints"""
    if isinstance(o, SymBytes):
        return list(o.b)
    if isinstance(o, (bytes, bytearray, memoryview)):
        return list(bytes(o))
    return list(o)


def all_concrete(items):
    for x in items:
        if type(x) is SymInt:
            if x.n.op != 'c':
                return False
    return True


def mkbytes(items):
    """real bytes when every item is concrete, else SymBytes"""
    items = list(items)
    if all_concrete(items):
        return bytes(int(concretize(x)) for x in items)
    return SymBytes(items)


def seq_eq(a, b):
    """element-wise equality of two item lists -> bool | SymBool"""
    if len(a) != len(b):
        return False
    terms = []
    for x, y in zip(a, b):
        e = (x == y)
        if e is True:
            continue
        if e is False:
            return False
        terms.append(zb(e))
    if not terms:
        return True
    return mkbool(z3.And(*terms) if len(terms) > 1 else terms[0], simp=False)


def _idx(i, n):
    i = concretize(i)
    if not isinstance(i, int):
        raise TypeError('byte indices must be integers')
    if i < 0:
        i += n
    if not 0 <= i < n:
        raise IndexError('index out of range')
    return i


def _slice(sl):
    return slice(concretize(sl.start), concretize(sl.stop), concretize(sl.step))


class SymBytes(object):
    __slots__ = ('b',)
    _mutable = False

    def __init__(s, items=()):
        s.b = items_of(items)

    def _new(s, items):
        return mkbytes(items)

    def __len__(s):
        return len(s.b)

    def __iter__(s):
        return iter(list(s.b))

    def __getitem__(s, i):
        if isinstance(i, slice):
            return s._new(s.b[_slice(i)])
        return s.b[_idx(i, len(s.b))]

    def __add__(s, o):
        if not _isbyteslike(o):
            return NotImplemented
        return s._new(s.b + items_of(o))

    def __radd__(s, o):
        if not _isbyteslike(o):
            return NotImplemented
        return s._new(items_of(o) + s.b)

    def __mul__(s, k):
        return s._new(s.b * concretize(k))
    __rmul__ = __mul__

    def __eq__(s, o):
        if not _isbyteslike(o):
            return False
        return seq_eq(s.b, items_of(o))

    def __ne__(s, o):
        r = s.__eq__(o)
        if isinstance(r, SymBool):
            return ~r
        return not r

    def _cmp_lex(s, o, strict, less):
        a, b = s.b, items_of(o)
        # lexicographic comparison by forking on the first difference
        for x, y in zip(a, b):
            if bool(x == y):
                continue
            return bool(x < y) if less else bool(x > y)
        if len(a) == len(b):
            return not strict
        return (len(a) < len(b)) if less else (len(a) > len(b))

    def __lt__(s, o): return s._cmp_lex(o, True, True)
    def __le__(s, o): return s._cmp_lex(o, False, True)
    def __gt__(s, o): return s._cmp_lex(o, True, False)
    def __ge__(s, o): return s._cmp_lex(o, False, False)

    def __hash__(s):
        return hash(bytes(concretize(x) for x in s.b))

    def __bool__(s):
        return len(s.b) > 0

    def __contains__(s, x):
        if _isbyteslike(x):
            xs = items_of(x)
            n = len(xs)
            for i in range(len(s.b) - n + 1):
                if bool(seq_eq(s.b[i:i + n], xs)):
                    return True
            return False
        for y in s.b:
            if bool(y == x):
                return True
        return False

    def __repr__(s):
        return 'SymBytes(len=%d)' % len(s.b)

    def __bytes__(s):
        return bytes(concretize(x) for x in s.b)

    def concrete(s):
        return bytes(concretize(x) for x in s.b)

    def startswith(s, p):
        p = items_of(p)
        return bool(seq_eq(s.b[:len(p)], p)) if len(p) <= len(s.b) else False

    def endswith(s, p):
        p = items_of(p)
        return bool(seq_eq(s.b[len(s.b) - len(p):], p)) if len(p) <= len(s.b) else False

    def join(s, parts):
        out = []
        first = True
        for p in parts:
            if not first:
                out += s.b
            out += items_of(p)
            first = False
        return mkbytes(out)

    def hex(s):
        return bytes(s).hex()

    def decode(s, encoding='utf-8', errors='strict'):
        from . import symstr
        return symstr.decode_bytes(s, encoding, errors)

    def tobytes(s):
        return s

    def find(s, sub, start=0):
        sub = items_of(sub) if _isbyteslike(sub) else [sub]
        n = len(sub)
        for i in range(concretize(start), len(s.b) - n + 1):
            if bool(seq_eq(s.b[i:i + n], sub)):
                return i
        return -1

    def __reduce__(s):
        raise Inconclusive('pickling a SymBytes')


class SymByteArray(SymBytes):
    __slots__ = ()
    _mutable = True
    __hash__ = None

    def _new(s, items):
        return SymByteArray(items)

    def _byte(s, x):
        if type(x) is SymInt:
            if not bool((x >= 0) & (x <= 255)):
                raise ValueError('byte must be in range(0, 256)')
            return x
        x = int(x)
        if not 0 <= x <= 255:
            raise ValueError('byte must be in range(0, 256)')
        return x

    def append(s, x):
        s.b.append(s._byte(x))

    def extend(s, o):
        s.b.extend(s._byte(x) for x in items_of(o))

    def __iadd__(s, o):
        s.b.extend(items_of(o))
        return s

    def reverse(s):
        s.b.reverse()

    def __setitem__(s, i, v):
        if isinstance(i, slice):
            s.b[_slice(i)] = items_of(v)
        else:
            s.b[_idx(i, len(s.b))] = s._byte(v)

    def __delitem__(s, i):
        if isinstance(i, slice):
            del s.b[_slice(i)]
        else:
            del s.b[_idx(i, len(s.b))]

    def pop(s, i=-1):
        return s.b.pop(concretize(i))

    def clear(s):
        del s.b[:]

    def insert(s, i, x):
        s.b.insert(concretize(i), s._byte(x))

    def __repr__(s):
        return 'SymByteArray(len=%d)' % len(s.b)


class SymBytesIO(object):
    """model of io.BytesIO (position and length concrete, content symbolic)"""

    def __init__(s, init=b''):
        s.b = items_of(init) if init is not None else []
        s.pos = 0
        s.closed = False

    def write(s, data):
        data = items_of(data)
        if s.pos > len(s.b):
            s.b.extend([0] * (s.pos - len(s.b)))
        s.b[s.pos:s.pos + len(data)] = data
        s.pos += len(data)
        return len(data)

    def getvalue(s):
        return mkbytes(s.b)

    def getbuffer(s):
        return mkbytes(s.b)

    def read(s, n=-1):
        n = concretize(n)
        if n is None or n < 0:
            r = s.b[s.pos:]
        else:
            r = s.b[s.pos:s.pos + n]
        s.pos += len(r)
        return mkbytes(r)

    def read1(s, n=-1):
        return s.read(n)

    def seek(s, p, whence=0):
        p = concretize(p)
        whence = concretize(whence)
        if whence == 0:
            if p < 0:
                raise ValueError('negative seek value %d' % p)
            s.pos = p
        elif whence == 1:
            s.pos = max(0, s.pos + p)
        else:
            s.pos = max(0, len(s.b) + p)
        return s.pos

    def tell(s):
        return s.pos

    def truncate(s, size=None):
        size = s.pos if size is None else concretize(size)
        del s.b[size:]
        return size

    def close(s):
        s.closed = True

    def __enter__(s):
        return s

    def __exit__(s, *a):
        s.close()

    def readable(s): return True
    def writable(s): return True
    def seekable(s): return True

    def flush(s):
        pass


def byte_var_items(ctx, name, n):
    out = []
    for i in range(n):
        node = ir.var('%s[%d]' % (name, i), 0, 255)
        ctx.new_var('%s[%d]' % (name, i), 'int', node, ir.var_domain(node))
        out.append(SymInt(node))
    return out


# ---- struct models --------------------------------------------------------
_FMT = {'b': (1, True), 'B': (1, False), 'h': (2, True), 'H': (2, False),
        'i': (4, True), 'I': (4, False), 'l': (4, True), 'L': (4, False),
        'q': (8, True), 'Q': (8, False), '?': (1, False), 'c': (1, False)}


def parse_fmt(fmt):
    """[(code, count)] and byte order for the struct formats the driver uses"""
    import struct
    if isinstance(fmt, bytes):
        fmt = fmt.decode()
    order = '@'
    if fmt and fmt[0] in '<>!=@':
        order = fmt[0]
        fmt = fmt[1:]
    if order in '@=':
        import sys
        order = '<' if sys.byteorder == 'little' else '>'
        # native alignment is not modelled
    if order == '!':
        order = '>'
    out = []
    num = ''
    for ch in fmt:
        if ch.isdigit():
            num += ch
            continue
        if ch.isspace():
            continue
        cnt = int(num) if num else 1
        num = ''
        if ch in ('s', 'p', 'x'):
            out.append((ch, cnt))
        elif ch in _FMT or ch in 'fd':
            out.extend([(ch, 1)] * cnt)
        else:
            raise Inconclusive('struct format %r not modelled' % ch)
    return order, out


def struct_size(fmt):
    import struct
    return struct.calcsize(fmt)


def struct_pack(fmt, vals):
    import struct
    order, codes = parse_fmt(fmt)
    nvals = sum(1 for c, _ in codes if c != 'x')
    if nvals != len(vals):
        raise struct.error('pack expected %d items for packing (got %d)' % (nvals, len(vals)))
    out = []
    vi = 0
    for code, cnt in codes:
        if code == 'x':
            out += [0] * cnt
            continue
        v = vals[vi]
        vi += 1
        if code == 's':
            if not _isbyteslike(v):
                raise struct.error("argument for 's' must be a bytes object")
            bs = items_of(v)[:cnt]
            out += bs + [0] * (cnt - len(bs))
            continue
        if code in 'fd':
            from . import symfloat
            out += symfloat.pack_float(v, code, order)
            continue
        size, signed = _FMT[code]
        if isinstance(v, SymBool):
            v = lift_int(v)
        if type(v) is not SymInt:
            if not isinstance(v, int):
                if hasattr(v, '__index__'):
                    v = v.__index__()
                else:
                    raise struct.error('required argument is not an integer')
            out += list(struct.pack(order + code, v))
            continue
        lo, hi = (-(1 << (8 * size - 1)), (1 << (8 * size - 1)) - 1) if signed else (0, (1 << (8 * size)) - 1)
        if not bool((v >= lo) & (v <= hi)):
            raise struct.error("'%s' format requires %d <= number <= %d" % (code, lo, hi))
        bs = [(v >> (8 * k)) & 0xff for k in range(size)]
        if order == '>':
            bs.reverse()
        out += bs
    return mkbytes(out)


def lift_int(v):
    from .symint import mk
    return mk(lift(v))


def struct_unpack(fmt, data):
    import struct
    order, codes = parse_fmt(fmt)
    data = items_of(data)
    if len(data) != struct.calcsize(fmt):
        raise struct.error('unpack requires a buffer of %d bytes' % struct.calcsize(fmt))
    out = []
    p = 0
    for code, cnt in codes:
        if code == 'x':
            p += cnt
            continue
        if code == 's':
            out.append(mkbytes(data[p:p + cnt]))
            p += cnt
            continue
        if code in 'fd':
            from . import symfloat
            size = 4 if code == 'f' else 8
            out.append(symfloat.unpack_float(data[p:p + size], code, order))
            p += size
            continue
        size, signed = _FMT[code]
        bs = data[p:p + size]
        p += size
        if order == '>':
            bs = bs[::-1]
        v = 0
        for k, b in enumerate(bs):
            v = v | (b << (8 * k))
        if signed:
            v = (v ^ (1 << (8 * size - 1))) - (1 << (8 * size - 1))
        if code == '?':
            v = (v != 0)
        out.append(v)
    return tuple(out)
