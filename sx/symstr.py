"""SymStr: str with concrete length and symbolic code points.  OpaqueStr: the
result of formatting something we do not model (only ever fit for logging)."""
import re
import z3

from . import ir
from .core import SymBool, mkbool, zb, Ctx, Inconclusive
from .symint import SymInt, concretize, mk, ite as int_ite
from .symseq import SymBytes, mkbytes, seq_eq, items_of as bytes_items


class OpaqueStr(object):
    """a formatted string whose content is not modelled; any inspection is inconclusive"""
    def __init__(self, why=''):
        self.why = why

    def _no(self, *a, **k):
        raise Inconclusive('content of an unmodelled formatted string inspected (%s)' % self.why)
    __eq__ = __ne__ = __len__ = __iter__ = __getitem__ = __contains__ = __hash__ = _no
    __add__ = __radd__ = lambda s, o: s
    __mod__ = lambda s, o: s

    def format(self, *a, **k):
        return self

    def __str__(self):
        return '<unmodelled string>'
    __repr__ = __str__


def cps(o):
    """list of code points of a str / SymStr"""
    if isinstance(o, LazyStr):
        o = o._force()
    if isinstance(o, SymStr):
        return list(o.c)
    if isinstance(o, str):
        return [ord(x) for x in o]
    raise TypeError('expected str, got %r' % type(o))


def _isstr(o):
    return isinstance(o, (str, SymStr, LazyStr))


def all_concrete(items):
    for x in items:
        if type(x) is SymInt and x.n.op != 'c':
            return False
    return True


def mkstr(items):
    items = list(items)
    if all_concrete(items):
        return ''.join(chr(concretize(x)) for x in items)
    return SymStr(items)


def str_var_items(ctx, name, n, lo=0, hi=0x10FFFF):
    out = []
    for i in range(n):
        node = ir.var('%s[%d]' % (name, i), lo, hi)
        ctx.new_var('%s[%d]' % (name, i), 'int', node, ir.var_domain(node))
        out.append(SymInt(node))
    return out


def _in_range(c, lo, hi):
    return (c >= lo) & (c <= hi)


def is_lower(c): return _in_range(c, 97, 122)
def is_upper(c): return _in_range(c, 65, 90)
def is_digit(c): return _in_range(c, 48, 57)


class SymStr(object):
    __slots__ = ('c',)

    def __init__(s, items=()):
        s.c = list(items)

    def __len__(s):
        return len(s.c)

    def __iter__(s):
        return iter([mkstr([x]) for x in s.c])

    def __getitem__(s, i):
        if isinstance(i, slice):
            i = slice(concretize(i.start), concretize(i.stop), concretize(i.step))
            return mkstr(s.c[i])
        i = concretize(i)
        return mkstr([s.c[i]])

    def __add__(s, o):
        if not _isstr(o):
            return NotImplemented
        return mkstr(s.c + cps(o))

    def __radd__(s, o):
        if not _isstr(o):
            return NotImplemented
        return mkstr(cps(o) + s.c)

    def __mul__(s, k):
        return mkstr(s.c * concretize(k))

    def __eq__(s, o):
        if not _isstr(o):
            return False
        return seq_eq(s.c, cps(o))

    def __ne__(s, o):
        r = s.__eq__(o)
        return ~r if isinstance(r, SymBool) else (not r)

    def __hash__(s):
        return hash(s.concrete())

    def __bool__(s):
        return len(s.c) > 0

    def concrete(s):
        return ''.join(chr(concretize(x)) for x in s.c)

    def __str__(s):
        return s.concrete()

    def __repr__(s):
        return 'SymStr(len=%d)' % len(s.c)

    def __contains__(s, sub):
        sub = cps(sub)
        n = len(sub)
        for i in range(len(s.c) - n + 1):
            if bool(seq_eq(s.c[i:i + n], sub)):
                return True
        return False

    def startswith(s, p):
        p = cps(p)
        return bool(seq_eq(s.c[:len(p)], p)) if len(p) <= len(s.c) else False

    def endswith(s, p):
        p = cps(p)
        return bool(seq_eq(s.c[len(s.c) - len(p):], p)) if len(p) <= len(s.c) else False

    def replace(s, old, new, count=-1):
        old = cps(old)
        new = cps(new)
        if len(old) != 1:
            raise Inconclusive('SymStr.replace with a pattern of length != 1')
        out = []
        for x in s.c:
            if bool(x == old[0]):
                out += new
            else:
                out.append(x)
        return mkstr(out)

    def lower(s):
        # ASCII and Latin-1 letters are modelled exactly; other code points fork to concrete
        return mkstr([y for x in s.c for y in _lower_cp(x)])

    def upper(s):
        return mkstr([_upper_cp(x) for x in s.c])

    def join(s, parts):
        out = []
        first = True
        for p in parts:
            if not first:
                out += s.c
            out += cps(p)
            first = False
        return mkstr(out)

    def encode(s, encoding='utf-8', errors='strict'):
        return encode_str(s, encoding, errors)

    def isdigit(s):
        return bool(len(s.c) > 0) and all(bool(is_digit(x)) for x in s.c)

    def strip(s, chars=None):
        return s.lstrip(chars).rstrip(chars)

    def _is_strip_char(s, x, chars):
        if chars is None:
            return bool((x == 32) | ((x >= 9) & (x <= 13)) | ((x >= 0x1c) & (x <= 0x1f)) | (x == 0x85) | (x == 0xa0))
        for ch in cps(chars):
            if bool(x == ch):
                return True
        return False

    def lstrip(s, chars=None):
        c = list(s.c)
        while c and s._is_strip_char(c[0], chars):
            c.pop(0)
        return mkstr(c)

    def rstrip(s, chars=None):
        c = list(s.c)
        while c and s._is_strip_char(c[-1], chars):
            c.pop()
        return mkstr(c)

    def format(s, *a, **k):
        return OpaqueStr('SymStr.format')

    def __mod__(s, o):
        return OpaqueStr('SymStr %')

    def split(s, sep=None, maxsplit=-1):
        if sep is None:
            raise Inconclusive('SymStr.split() on whitespace')
        sep = cps(sep)
        if len(sep) != 1:
            raise Inconclusive('SymStr.split with multi-char separator')
        out, cur = [], []
        for x in s.c:
            if (maxsplit < 0 or len(out) < maxsplit) and bool(x == sep[0]):
                out.append(mkstr(cur))
                cur = []
            else:
                cur.append(x)
        out.append(mkstr(cur))
        return out

    def find(s, sub, start=0):
        sub = cps(sub)
        n = len(sub)
        for i in range(concretize(start), len(s.c) - n + 1):
            if bool(seq_eq(s.c[i:i + n], sub)):
                return i
        return -1


_LOWER_SPECIAL = None
_AUX = [0]


def _lower_special():
    """non-ASCII code points whose lower() is not a single non-ASCII code point (computed from this
    interpreter's unicode tables): U+0130 (two code points) and U+212A KELVIN SIGN ('k')"""
    global _LOWER_SPECIAL
    if _LOWER_SPECIAL is None:
        sp = {}
        for c in range(128, 0x110000):
            l = chr(c).lower()
            if len(l) != 1 or ord(l) < 128:
                sp[c] = [ord(ch) for ch in l]
        _LOWER_SPECIAL = sp
    return _LOWER_SPECIAL


def _lower_cp(x):
    """code points of lower() of one code point (a list: U+0130 lowers to two)"""
    if type(x) is not SymInt or x.n.op == 'c':
        return [ord(ch) for ch in chr(concretize(x)).lower()]
    if bool(x < 128):
        return [int_ite(is_upper(x), x + 32, x)]
    for c, l in sorted(_lower_special().items()):
        if bool(x == c):
            return list(l)
    # any other non-ASCII code point lowers to a single non-ASCII code point: over-approximated by a
    # fresh unconstrained non-ASCII code point (sound for callers that only compare with ASCII text)
    ctx = Ctx.cur
    _AUX[0] += 1
    name = 'aux:lower#%d' % len(ctx.order)
    node = ir.var(name, 128, 0x10FFFF)
    ctx.new_var(name, 'int', node, ir.var_domain(node))
    return [SymInt(node)]


def _upper_cp(x):
    if type(x) is not SymInt:
        return ord(chr(x).upper()) if len(chr(x).upper()) == 1 else x
    if bool(x < 128):
        return int_ite(is_lower(x), x - 32, x)
    v = concretize(x)
    u = chr(v).upper()
    if len(u) != 1:
        raise Inconclusive('upper() changes length')
    return ord(u)


# ---- codecs -------------------------------------------------------------------
def _norm(enc):
    return enc.lower().replace('-', '').replace('_', '')


def encode_str(s, encoding='utf-8', errors='strict'):
    enc = _norm(encoding)
    out = []
    for i, x in enumerate(cps(s)):
        if enc in ('ascii', 'usascii'):
            if not bool(x < 128):
                raise UnicodeEncodeError('ascii', '?', i, i + 1, 'ordinal not in range(128)')
            out.append(x)
        elif enc in ('utf8', 'utf8'):
            if bool(x < 0x80):
                out.append(x)
            elif bool(x < 0x800):
                out += [0xC0 | (x >> 6), 0x80 | (x & 0x3F)]
            elif bool(x < 0x10000):
                if bool((x >= 0xD800) & (x <= 0xDFFF)):
                    raise UnicodeEncodeError('utf-8', '?', i, i + 1, 'surrogates not allowed')
                out += [0xE0 | (x >> 12), 0x80 | ((x >> 6) & 0x3F), 0x80 | (x & 0x3F)]
            else:
                out += [0xF0 | (x >> 18), 0x80 | ((x >> 12) & 0x3F), 0x80 | ((x >> 6) & 0x3F), 0x80 | (x & 0x3F)]
        elif enc in ('latin1', 'iso88591'):
            if not bool(x < 256):
                raise UnicodeEncodeError('latin-1', '?', i, i + 1, 'ordinal not in range(256)')
            out.append(x)
        else:
            raise Inconclusive('encoding %r not modelled' % encoding)
    return mkbytes(out)


def decode_bytes(b, encoding='utf-8', errors='strict'):
    enc = _norm(encoding)
    bs = bytes_items(b)
    out = []
    i = 0
    n = len(bs)
    while i < n:
        x = bs[i]
        if enc in ('ascii', 'usascii'):
            if not bool(x < 128):
                raise UnicodeDecodeError('ascii', b'?', i, i + 1, 'ordinal not in range(128)')
            out.append(x)
            i += 1
        elif enc == 'utf8':
            if bool(x < 0x80):
                out.append(x)
                i += 1
                continue
            if bool(x < 0xC2) or bool(x > 0xF4):
                raise UnicodeDecodeError('utf-8', b'?', i, i + 1, 'invalid start byte')
            need = 1 if bool(x < 0xE0) else 2 if bool(x < 0xF0) else 3
            if i + need > n - 1:
                raise UnicodeDecodeError('utf-8', b'?', i, n, 'unexpected end of data')
            cont = bs[i + 1:i + 1 + need]
            for j, y in enumerate(cont):
                if not bool((y & 0xC0) == 0x80):
                    raise UnicodeDecodeError('utf-8', b'?', i, i + 1 + j, 'invalid continuation byte')
            if need == 1:
                cp = ((x & 0x1F) << 6) | (cont[0] & 0x3F)
            elif need == 2:
                cp = ((x & 0x0F) << 12) | ((cont[0] & 0x3F) << 6) | (cont[1] & 0x3F)
                if bool(cp < 0x800) or bool((cp >= 0xD800) & (cp <= 0xDFFF)):
                    raise UnicodeDecodeError('utf-8', b'?', i, i + 1, 'invalid continuation byte')
            else:
                cp = ((x & 0x07) << 18) | ((cont[0] & 0x3F) << 12) | ((cont[1] & 0x3F) << 6) | (cont[2] & 0x3F)
                if bool(cp < 0x10000) or bool(cp > 0x10FFFF):
                    raise UnicodeDecodeError('utf-8', b'?', i, i + 1, 'invalid continuation byte')
            out.append(cp)
            i += 1 + need
        elif enc in ('latin1', 'iso88591'):
            out.append(x)
            i += 1
        else:
            raise Inconclusive('encoding %r not modelled' % encoding)
    return mkstr(out)


# ---- formatting -----------------------------------------------------------------
class HexStr(object):
    """'%02x' % byte pieces joined: only what int(s, 16) needs"""
    def __init__(s, bytes_):
        s.bytes = list(bytes_)


def parse_int(x, base=10):
    if isinstance(x, HexStr):
        if base != 16:
            raise Inconclusive('HexStr parsed with base %r' % base)
        v = 0
        n = len(x.bytes)
        for i, b in enumerate(x.bytes):
            v = v | (b << (8 * (n - 1 - i)))
        return v
    if isinstance(x, SymStr):
        if base != 10:
            raise Inconclusive('int(SymStr, base=%r)' % base)
        c = x.c
        if not c:
            raise ValueError('invalid literal for int()')
        neg = False
        if bool(c[0] == 45):
            neg = True
            c = c[1:]
        elif bool(c[0] == 43):
            c = c[1:]
        if not c:
            raise ValueError('invalid literal for int()')
        src = rendered_source(cps(x))
        if src is not None:
            return src
        v = 0
        for d in c:
            if not bool(is_digit(d)):
                raise ValueError('invalid literal for int() with base 10')
            v = v * 10 + (d - 48)
        return -v if neg else v
    raise Inconclusive('int() of %r' % type(x))


def to_str(x):
    if isinstance(x, LazyStr):
        x = x._force()
    if isinstance(x, SymStr):
        return x
    if isinstance(x, SymBool):
        return 'True' if bool(x) else 'False'
    if type(x) is SymInt:
        return int_to_str(x)
    if type(x).__name__ == 'SymFloat':
        return x.to_str()
    f = getattr(type(x), '__str__', None)
    if isinstance(f, type(to_str)):          # a Python-level __str__ may return a symbolic string
        r = f(x)
        if isinstance(r, LazyStr):
            r = r._force()
        return r
    return str(x)


def to_repr(x):
    if isinstance(x, SymStr):
        raise Inconclusive('repr() of a SymStr')
    return to_str(x)


MAX_INT_DIGITS = 24


def int_to_str(x):
    """decimal rendering; forks on sign and digit count"""
    if type(x) is not SymInt:
        return str(x)
    neg = bool(x < 0)
    a = -x if neg else x
    nd = 1
    p = 10
    while not bool(a < p):
        nd += 1
        p *= 10
        if nd > 400:
            raise Inconclusive('int too long to render')
    digs = []
    for i in range(nd):
        digs.append(48 + (a // (10 ** (nd - 1 - i))) % 10)
    items = ([45] if neg else []) + digs
    # remember that these code points are the decimal rendering of x on this path, so that
    # int(str(x)) is x again without asking the solver to re-add the digits
    reg = Ctx.cur.__dict__.setdefault('_rendered', {})
    reg[_render_key(items)] = (x, items)
    return mkstr(items)


def _render_key(items):
    return tuple(id(c.n) if type(c) is SymInt else c for c in items)


def rendered_source(items):
    """the SymInt whose decimal rendering these code points are (on this path), or None"""
    ctx = Ctx.cur
    if ctx is None:
        return None
    reg = ctx.__dict__.get('_rendered', {})
    ent = reg.get(_render_key(items))
    if ent is not None:
        return ent[0]
    # a registered rendering right-padded with concrete zeros: the value times a power of ten
    k = 0
    while k < len(items) and type(items[len(items) - 1 - k]) is not SymInt and items[len(items) - 1 - k] == 48:
        k += 1
    if 0 < k < len(items):
        ent = reg.get(_render_key(items[:len(items) - k]))
        if ent is not None:
            return ent[0] * 10 ** k
    return None


def percent_format(fmt, args):
    """'fmt' % args with symbolic operands: rendered lazily; the (fmt, args) pair stays attached so that a
    parser of the same text (e.g. Decimal('%de%d' % ...)) can be modelled on the values instead of the digits"""
    if fmt == '%02x' and type(args) is SymInt:
        if bool((args >= 0) & (args <= 255)):
            return HexStr([args])
    if isinstance(fmt, str) and not isinstance(args, dict) and '%(' not in fmt:
        # the argument-count error is raised eagerly, as Python does (the rendering itself stays lazy)
        nspec = len([m for m in re.findall(r'%[#0\- +]*\d*(?:\.\d+)?([sdrixXfeEgGcoa%])', fmt) if m != '%'])
        nargs = len(args) if isinstance(args, tuple) else 1
        if nargs > nspec:
            raise TypeError('not all arguments converted during string formatting')
        if nargs < nspec:
            raise TypeError('not enough arguments for format string')
    r = LazyStr(lambda: _percent_format(fmt, args))
    r.__dict__['fmt'] = fmt
    r.__dict__['args'] = args
    return r


def _percent_format(fmt, args):
    import re
    if isinstance(fmt, bytes):
        raise Inconclusive('bytes %% with symbolic operand')
    if fmt == '%02x' and type(args) is SymInt:
        if bool((args >= 0) & (args <= 255)):
            return HexStr([args])
    if isinstance(args, dict):
        specs = re.findall(r'%(?:\((\w+)\))?([#0\- +]*\d*(?:\.\d+)?)([sdrixXf%])', fmt)
        pieces = re.split(r'%(?:\(\w+\))?[#0\- +]*\d*(?:\.\d+)?[sdrixXf%]', fmt)
        out = list(cps(pieces[0]))
        for (key, flags, conv), lit in zip(specs, pieces[1:]):
            if conv == '%':
                out += [37]
            else:
                out += _fmt_piece(args[key], flags, conv)
            out += cps(lit)
        return mkstr(out)
    if not isinstance(args, tuple):
        args = (args,)
    specs = re.findall(r'%([#0\- +]*\d*(?:\.\d+)?)([sdrixXf%])', fmt)
    pieces = re.split(r'%[#0\- +]*\d*(?:\.\d+)?[sdrixXf%]', fmt)
    out = list(cps(pieces[0]))
    ai = 0
    for (flags, conv), lit in zip(specs, pieces[1:]):
        if conv == '%':
            out += [37]
        else:
            out += _fmt_piece(args[ai], flags, conv)
            ai += 1
        out += cps(lit)
    return mkstr(out)


def _fmt_piece(v, flags, conv):
    if flags not in ('',):
        if not isinstance(v, (SymStr, SymInt, SymBool)) and type(v).__name__ != 'SymFloat':
            return cps(('%' + flags + conv) % v)
        m = re.fullmatch(r'0(\d+)', flags)
        if m and conv in 'di' and type(v) is SymInt:
            w = int(m.group(1))
            if bool(v >= 0) and bool(v < 10 ** w):
                items = [48 + (v // (10 ** (w - 1 - i))) % 10 for i in range(w)]
                Ctx.cur.__dict__.setdefault('_rendered', {})[_render_key(items)] = (v, items)
                return items
            r = cps(int_to_str(v))
            if len(r) >= w:
                return r
            neg = r[:1] == [45]
            return ([45] if neg else []) + [48] * (w - len(r)) + (r[1:] if neg else r)
        raise Inconclusive('format flags %r on symbolic value' % flags)
    if conv in 'sr':
        if conv == 'r' and isinstance(v, (str, SymStr)):
            raise Inconclusive('%r of a string')
        r = to_str(v)
        if isinstance(r, OpaqueStr):
            raise Inconclusive('unmodelled string in %s')
        return cps(r)
    if conv in 'di':
        return cps(int_to_str(v))
    raise Inconclusive('format conversion %r on symbolic value' % conv)


def str_method(selfobj, name, a, k):
    """method of a concrete str receiving symbolic arguments"""
    if name == 'join':
        parts = [p._force() if isinstance(p, LazyStr) else p for p in a[0]]
        if any(isinstance(p, HexStr) for p in parts):
            out = []
            for p in parts:
                out += p.bytes if isinstance(p, HexStr) else list(bytes.fromhex(p))
            return HexStr(out)
        if any(isinstance(p, SymStr) for p in parts):
            return SymStr(cps(selfobj)).join(parts)
        if any(isinstance(p, OpaqueStr) for p in parts):
            return OpaqueStr('join')
        return selfobj.join(parts)
    if name == 'format':
        return format_method(selfobj, a, k)
    if name in ('startswith', 'endswith', 'replace', '__contains__', 'find', '__eq__'):
        return getattr(SymStr(cps(selfobj)), name)(*a, **k)
    return NotImplemented


class LazyStr(object):
    """a formatted string that is only rendered (forking on digit counts etc.) if its
    content is ever inspected -- log messages never are"""
    def __init__(self, thunk):
        self.__dict__['_thunk'] = thunk
        self.__dict__['_val'] = None

    def _force(self):
        if self._val is None:
            self.__dict__['_val'] = self._thunk()
        return self._val

    def __getattr__(self, n):
        return getattr(self._force(), n)

    def __eq__(self, o): return self._force() == o
    def __ne__(self, o): return self._force() != o
    def __len__(self): return len(self._force())
    def __iter__(self): return iter(self._force())
    def __getitem__(self, i): return self._force()[i]
    def __contains__(self, x): return x in self._force()
    def __hash__(self): return hash(self._force())
    def __add__(self, o): return self._force() + o
    def __radd__(self, o): return o + self._force()
    def __str__(self): return str(self._force())
    def __repr__(self): return '<LazyStr>'


def force(x):
    return x._force() if isinstance(x, LazyStr) else x


def format_method(fmt, a, k):
    return LazyStr(lambda: _format_method(fmt, a, k))


def _format_method(fmt, a, k):
    """'...{}...{name}...'.format(...) with symbolic arguments: simple fields only"""
    import string
    out = []
    auto = 0
    try:
        for lit, field, spec, conv in string.Formatter().parse(fmt):
            out += cps(lit)
            if field is None:
                continue
            if spec or (conv and conv != 's') or '.' in field or '[' in field:
                return OpaqueStr('format spec')
            if field == '':
                v = a[auto]
                auto += 1
            elif field.isdigit():
                v = a[int(field)]
            else:
                v = k[field]
            r = to_str(v)
            if isinstance(r, OpaqueStr):
                return r
            out += cps(r)
    except Inconclusive:
        return OpaqueStr('format')
    return mkstr(out)


def fstring(parts):
    out = []
    for p in parts:
        if type(p) is tuple:
            v, conv, spec = p
            if spec or conv not in (-1, 115):
                if isinstance(v, (SymStr, SymInt, SymBool)) or type(v).__name__ == 'SymFloat':
                    return OpaqueStr('f-string spec')
                out += cps(format(repr(v) if conv == 114 else v, spec))
                continue
            r = to_str(v)
            if isinstance(r, OpaqueStr):
                return r
            out += cps(r)
        else:
            out += cps(p)
    return mkstr(out)
