"""Differential self-test of the IR smart constructors + lowering against Python int semantics."""
import sys, random
sys.path.insert(0, '/verif')
import z3
from sx import ir


def run(n=4000, seed=1):
    random.seed(seed)
    bad = 0
    for t in range(n):
        lo = random.choice([0, -2**31, -5, 0, 0, -2**63])
        hi = random.choice([255, 2**31 - 1, 2**24 - 1, 2**64 - 1, 1000, 2**63 - 1])
        x = ir.var('x', lo, hi)
        val = random.choice([lo, hi, random.randint(lo, hi), random.randint(lo, hi)])

        def rnd(d):
            if d == 0 or random.random() < 0.2:
                if random.random() < 0.6:
                    return x, val
                c = random.randint(0, 300)
                return ir.const(c), c
            c = random.choice(['and', 'or', 'xor', 'add', 'shl', 'shr', 'sub', 'sxt', 'neg'])
            a, av = rnd(d - 1)
            if c == 'shl':
                k = random.choice([1, 8, 16, 3])
                return ir.shl(a, k), av << k
            if c == 'shr':
                k = random.choice([1, 8, 16, 3])
                return ir.shr(a, k), av >> k
            if c == 'and':
                m = random.choice([0xff, 0xffff, 0x7f, 0xf0, 2**24 - 1, 2**32 - 1, 2**64 - 1])
                return ir.band(a, ir.const(m)), av & m
            if c == 'neg':
                return ir.neg(a), -av
            if c == 'sxt':
                k = random.choice([8, 16, 32, 64])
                m = (1 << k) - 1
                a2, v2 = ir.band(a, ir.const(m)), av & m
                h = 1 << (k - 1)
                return ir.sub(ir.bxor(a2, ir.const(h)), ir.const(h)), (v2 ^ h) - h
            b, bv = rnd(d - 1)
            f = {'or': (ir.bor, lambda p, q: p | q), 'xor': (ir.bxor, lambda p, q: p ^ q),
                 'add': (ir.add, lambda p, q: p + q), 'sub': (ir.sub, lambda p, q: p - q)}[c]
            return f[0](a, b), f[1](av, bv)
        e, pv = rnd(4)
        if not (e.lo <= pv <= e.hi):
            bad += 1
            print('INTERVAL', e, pv, e.lo, e.hi)
            continue
        s = z3.Solver()
        if x.op == 'v':
            s.add(z3.BitVec('x', x.w) == val)
        zt = ir.full(e)
        assert s.check() == z3.sat
        got = s.model().eval(zt, model_completion=True).as_signed_long()
        if got != pv:
            bad += 1
            print('MISMATCH', pv, got, e)
    return bad


if __name__ == '__main__':
    b = run()
    print('ir selftest: bad =', b)
    sys.exit(1 if b else 0)
