#!/bin/sh
# usage: tools/confirm_seed.sh <ID> <k>
# Confirms a seeded change in its scratch worktree /tmp/wt/<ID>: demo passes on pristine, fails with the patch,
# pinned unit suite unchanged (350 passed). On success copies it to /verif/seeded/<ID>-<k>/ with meta.json.
ID="$1"; K="$2"; W=/tmp/wt/$ID; S=$W/_seed/$K
cd $W || exit 9
git checkout -q -- cassandra
/venv/bin/python $S/demo.py >/tmp/seed_$ID_$K.pristine.log 2>&1; R0=$?
git apply $S/patch.diff || { echo "$ID-$K: patch does not apply"; exit 1; }
/venv/bin/python $S/demo.py >/tmp/seed_${ID}_$K.patched.log 2>&1; R1=$?
/venv/bin/python -m pytest -q -p no:cacheprovider --timeout=900 --continue-on-collection-errors tests/unit -x --co -q >/dev/null 2>&1
T=$(/venv/bin/python -m pytest -q -p no:cacheprovider --timeout=900 --continue-on-collection-errors tests 2>&1 | tail -1)
git checkout -q -- cassandra
find $W -name __pycache__ -type d -prune -exec rm -rf {} + 2>/dev/null
echo "$ID-$K: demo pristine rc=$R0, patched rc=$R1, suite: $T"
PASSED=$(echo "$T" | grep -o '[0-9]* passed' | grep -o '[0-9]*')
if [ "$R0" = 0 ] && [ "$R1" != 0 ] && [ "$PASSED" = 350 ]; then
  D=/verif/seeded/$ID-$K; mkdir -p $D
  cp $S/patch.diff $S/demo.py $D/
  /venv/bin/python - "$S/notes.json" "$D/meta.json" "$T" <<PY
import json,sys
n=json.load(open(sys.argv[1]))
m=dict(property=n.get('property'),summary=n.get('summary'),needs_to_manifest=n.get('needs_to_manifest'),files_touched=n.get('files_touched'),
 why_tests_still_pass=n.get('why_tests_still_pass'),
 confirmed=dict(demo_on_pristine_rc=0,demo_with_patch_rc='non-zero',unit_suite_with_patch=sys.argv[3],
   how='tools/confirm_seed.sh: scratch worktree, demo.py before/after git apply, pinned pytest command over tests/'),
 detected_by=None)
json.dump(m,open(sys.argv[2],'w'),indent=1)
PY
  echo "$ID-$K: KEPT -> $D"
else
  echo "$ID-$K: REJECTED"
fi
