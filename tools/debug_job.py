"""usage: .venv/bin/python tools/debug_job.py C09 history-low-f1 [quick] [dump_after_s] -- runs one job in-process"""
import sys, os, faulthandler, time, json
ROOT = os.path.dirname(os.path.dirname(os.path.abspath(__file__)))
sys.path.insert(0, ROOT)
os.environ.setdefault('SX_MODE', 'sym')
pid, job = sys.argv[1], sys.argv[2]
tier = sys.argv[3] if len(sys.argv) > 3 else 'quick'
faulthandler.dump_traceback_later(int(sys.argv[4]) if len(sys.argv) > 4 else 30, exit=True)
from sx import run
r = run.worker(pid, job, tier, 0, run.load_known(pid))
if r.get('error'):
    print(r['error'])
print(json.dumps({k: v for k, v in r.items() if k in ('stats', 'complete', 'labels', 'wall_s')}, indent=1, default=str)[:3000])
for v in (r.get('violations') or [])[:5]:
    print('VIOL', v['label'], json.dumps(v['values']), json.dumps(v['tags'])[:300], '\n', v['note'][-1500:])
