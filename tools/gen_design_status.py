"""prints the generated tables of DESIGN.md section 9 (claimed checks, seeds, findings) from harness META, seeded/*/meta.json and known_findings.json"""
import json, os, sys, glob, importlib, warnings
ROOT = os.path.dirname(os.path.dirname(os.path.abspath(__file__)))
sys.path.insert(0, ROOT)
os.environ.setdefault('SX_MODE', 'sym')
warnings.simplefilter('ignore')
props = [json.loads(l) for l in open(os.path.join(ROOT, 'properties.jsonl'))]
man = json.load(open(os.path.join(ROOT, 'MANIFEST.json')))
claimed = {c['property_id']: c for c in man['checks']}
na = {}
for x in man['not_applicable']:
    if isinstance(x, dict):
        na[x.get('property_id') or x.get('id')] = x.get('reason', '')
    else:
        na[x] = ''
print('### 9.1 Status per property\n')
print('| id | title | status | level claimed | quick bounds (from the harness META) |')
print('|---|---|---|---|---|')
for p in props:
    pid = p['id']
    if pid in claimed:
        try:
            h = importlib.import_module('harness.' + pid.lower())
            b = h.META['bounds']['quick']
        except Exception as e:
            b = '(see MANIFEST/evidence)'
        print('| %s | %s | claimed | %s | %s |' % (pid, p['title'], (claimed[pid]['level_claimed']['category'] if isinstance(claimed[pid]['level_claimed'], dict) else claimed[pid]['level_claimed']), b.replace('|', '/')))
    else:
        print('| %s | %s | not applicable / not decided | - | see MANIFEST.not_applicable |' % (pid, p['title']))
print('\n### 9.1b What each claimed check assumes, stubs and leaves outside (from the harness META)\n')
for p in props:
    pid = p['id']
    if pid not in claimed:
        continue
    try:
        h = importlib.import_module('harness.' + pid.lower())
        M = h.META
    except Exception:
        continue
    print('- **%s** — %s' % (pid, M.get('level_text', '').strip()))
    if M.get('level_note'):
        print('  - limits: %s' % M['level_note'])
    if M.get('assumptions'):
        print('  - assumes: %s' % '; '.join(M['assumptions']))
    if M.get('stubs'):
        print('  - stubs: %s' % '; '.join(M['stubs']))
    if M.get('outside'):
        print('  - outside the claim: %s' % '; '.join(M['outside']))
    b = M.get('bounds', {})
    if b.get('thorough'):
        print('  - thorough tier: %s' % b['thorough'])
print('\n### 9.5 Seeded changes and the checks that catch them\n')
print('| seed | caught by |')
print('|---|---|')
for d in sorted(x for x in glob.glob(os.path.join(ROOT, 'seeded', '*')) if os.path.isdir(x)):
    m = json.load(open(os.path.join(d, 'meta.json')))
    print('| %s | %s |' % (os.path.basename(d), (m.get('detected_by') or 'no check built for this property').replace('|', '/')))
kf = json.load(open(os.path.join(ROOT, 'known_findings.json')))
print('\n### 9.3 Findings\n')
print('Repaired in /repo (one `fix:` commit each):\n')
for f in kf['fixed']:
    print('- ' + f)
print('\nRecorded, not repaired (known findings; the check prints KNOWN-FINDING and exits 0):\n')
for k in kf['known']:
    print('- **%s** (%s, label `%s`, region `%s`): %s' % (k['id'], k['property'], k['label'], k['region'], k['what']))
