#!/usr/bin/env python3
"""Regenerates MANIFEST.json from harness/*.py META blocks (run with .venv python from /verif)."""
import glob, importlib, json, os, sys
ROOT = os.path.dirname(os.path.dirname(os.path.abspath(__file__)))
sys.path.insert(0, ROOT)
os.environ['SX_MODE'] = 'concrete'     # do not instrument anything just to read META
props = [json.loads(l) for l in open(os.path.join(ROOT, 'properties.jsonl'))]
NA = json.load(open(os.path.join(ROOT, 'tools', 'not_applicable.json')))
checks = []
claimed = []
for p in props:
    pid = p['id']
    f = os.path.join(ROOT, 'harness', pid.lower() + '.py')
    if not os.path.exists(f):
        continue
    h = importlib.import_module('harness.' + pid.lower())
    m = h.META
    if m.get('disabled'):
        continue
    claimed.append(pid)
    c = dict(property_id=pid,
             quick_cmd='./check %s --tier quick' % pid,
             thorough_cmd='./check %s --tier thorough' % pid,
             evidence_file='evidence/%s.json' % pid,
             replay_cmd_template='./check %s --replay {path}' % pid,
             engine='sx',
             level_claimed=dict(category=m.get('level', 'model_checking'),
                                text=m['level_text'], design_ref=m.get('design_ref', 'DESIGN.md §3 ' + pid)),
             level_note=m['level_note'],
             technique=m.get('technique', 'symbolic execution of the real Python code by proxy values; every path obligation decided by z3 (bit-vector encoding of exact Python ints); counterexamples replayed on the uninstrumented driver'))
    checks.append(c)
na = []
for p in props:
    if p['id'] in claimed:
        continue
    na.append(dict(property_id=p['id'], reason=NA.get(p['id'], 'harness not built yet (DESIGN.md §8 order of work)')))
man = dict(version=1, setup_cmd='sh ./setup.sh',
           hooks=dict(guard='CASSANDRA_DRIVER_VERIF', enable='no source hooks: every stub is harness-side (DESIGN.md §2); checks import /repo directly',
                      baseline_off_cmd='cd /repo && /venv/bin/python -m pytest -ra -q -p no:cacheprovider --timeout=900 --continue-on-collection-errors',
                      source_commits=[], add_only=True),
           engines=[dict(name='sx', path='sx/', serves_properties=claimed,
                         kind_free_text='proxy-based symbolic execution of the real Python driver (decision replay, one run per path) with AST instrumentation for C builtins; z3 decides every obligation; DESIGN.md §1.1')],
           checks=checks,
           notes='exit 0 = all discharged obligations hold (inconclusive ones are printed and counted in evidence); exit 1 = replayed VIOLATION; exit 2 = harness error. known_findings.json lists genuine defects recorded rather than repaired.',
           not_applicable=na)
json.dump(man, open(os.path.join(ROOT, 'MANIFEST.json'), 'w'), indent=1)
print('claimed', len(claimed), 'not_applicable', len(na))


# validate against the task's schema (jsonschema lives in the tooling venv)
import subprocess as _sp
_r = _sp.run(['python3-vt', '-c', "import json, jsonschema; jsonschema.validate(json.load(open('/verif/MANIFEST.json')), json.load(open('/root/.vp/MANIFEST.schema.json'))); print('MANIFEST.json validates')"],
             capture_output=True, text=True)
print((_r.stdout or _r.stderr).strip().splitlines()[-1] if (_r.stdout or _r.stderr).strip() else 'validation skipped')
if _r.returncode != 0:
    raise SystemExit('MANIFEST.json does NOT validate against /root/.vp/MANIFEST.schema.json')
