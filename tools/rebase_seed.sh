#!/bin/sh
# usage: tools/rebase_seed.sh <ID-k>  -- re-creates seeded/<ID-k>/patch.diff against /repo HEAD (3-way), re-confirms demo + suite
S=/verif/seeded/$1; W=/tmp/wt/rebase_$1
git -C /repo worktree add -q --detach $W HEAD || exit 9
cd $W
if git apply $S/patch.diff 2>/dev/null; then echo "$1: applies as is"; CH=0; else git apply --3way $S/patch.diff >/dev/null 2>&1 || { echo "$1: CANNOT REBASE"; cd /; git -C /repo worktree remove --force $W; exit 1; }; CH=1; fi
git diff HEAD -- cassandra > /tmp/rebased_$1.diff
git reset -q --hard HEAD
/venv/bin/python $S/demo.py >/dev/null 2>&1; R0=$?
git apply /tmp/rebased_$1.diff
/venv/bin/python $S/demo.py >/dev/null 2>&1; R1=$?
T=$(/venv/bin/python -m pytest -q -p no:cacheprovider --timeout=900 --continue-on-collection-errors tests 2>&1 | tail -1)
PASSED=$(echo "$T" | grep -o '[0-9]* passed' | grep -o '[0-9]*')
cd /; git -C /repo worktree remove --force $W
echo "$1: demo on HEAD rc=$R0, with rebased patch rc=$R1, suite: $T"
if [ "$R0" = 0 ] && [ "$R1" != 0 ] && [ "$PASSED" = 350 ]; then
  [ "$CH" = 1 ] && { cp $S/patch.diff $S/patch.orig.diff 2>/dev/null; cp /tmp/rebased_$1.diff $S/patch.diff; echo "$1: patch.diff rebased onto $(git -C /repo rev-parse --short HEAD)"; }
  exit 0
fi
echo "$1: REBASE NOT CONFIRMED"; exit 1
