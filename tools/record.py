"""bookkeeping helper:
  record.py fixed <ID> <commit> <text>       append a 'fixed:' line to known_findings.json
  record.py seed <ID>-<k> <text>             set seeded/<ID>-<k>/meta.json detected_by
"""
import json, sys, os
ROOT = os.path.dirname(os.path.dirname(os.path.abspath(__file__)))
cmd = sys.argv[1]
if cmd == 'fixed':
    p = os.path.join(ROOT, 'known_findings.json')
    k = json.load(open(p))
    k['fixed'].append('fixed: property=%s %s %s' % (sys.argv[2], sys.argv[3], sys.argv[4]))
    json.dump(k, open(p, 'w'), indent=1)
elif cmd == 'seed':
    p = os.path.join(ROOT, 'seeded', sys.argv[2], 'meta.json')
    m = json.load(open(p))
    m['detected_by'] = sys.argv[3]
    json.dump(m, open(p, 'w'), indent=1)
