#!/bin/sh
# regenerates section 9 of DESIGN.md: tools/design9_head.md (prose) + the tables printed by tools/gen_design_status.py;
# the "**Seeds.**" paragraph of the existing section is carried over.  Run from /verif with the overlay venv built.
cd /verif
T=$(mktemp)
SX_MODE=sym .venv/bin/python -W ignore tools/gen_design_status.py > "$T" 2>/dev/null || { echo "gen_design_status failed"; rm -f "$T"; exit 1; }
python3 - "$T" <<'EOF'
import re, sys, subprocess
tables = open(sys.argv[1]).read()
d = open('/verif/DESIGN.md').read()
i = d.index('\n## 9. As built')
old9 = d[i:]
m = re.search(r"\n\*\*Seeds\.\*\*.*?\n\n", old9, re.S)
extra = m.group(0)
d = d[:i]
p = '/verif/tools/design9_head.md'
head = open(p).read()
n = subprocess.check_output("git -C /repo log --oneline | grep -c ' fix:'", shell=True).decode().strip()
head = re.sub(r"found \d+ genuine defects", "found %s genuine defects" % n, head)
open(p, 'w').write(head)
tables = tables.replace("\n### 9.5 Seeded changes and the checks that catch them\n",
                        "\n### 9.5 Seeded changes and the checks that catch them\n" + extra.rstrip('\n') + '\n')
open('/verif/DESIGN.md', 'w').write(d.rstrip('\n') + '\n' + head + tables)
EOF
rm -f "$T"
