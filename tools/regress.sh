#!/bin/sh
# usage: tools/regress.sh [tier] [IDs...]  -- runs the claimed checks one after another, prints one line each
TIER=${1:-quick}; shift
IDS="$@"
[ -z "$IDS" ] && IDS=$(python3 -c "import json;print(' '.join(p['property_id'] for p in json.load(open('/verif/MANIFEST.json'))['checks']))")
for id in $IDS; do
  S=$(date +%s)
  OUT=$(./check $id --tier $TIER 2>&1); RC=$?
  E=$(( $(date +%s) - S ))
  echo "$id rc=$RC ${E}s $(echo "$OUT" | grep -c '^VIOLATION') viol $(echo "$OUT" | grep -c '^KNOWN-FINDING') known | $(echo "$OUT" | grep '^C[0-9]* tier' | cut -c1-160)"
  echo "$OUT" | grep "^INCONCLUSIVE\|^HARNESS" | cut -c1-300
done
