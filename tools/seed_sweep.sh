#!/bin/sh
# usage: tools/seed_sweep.sh [seed names...]  -- re-applies every seeded change to /repo (which must be clean), runs the quick
# tier of the check that is recorded as catching it, reverts, and prints one line per seed: CAUGHT / MISSED
cd /verif
SEEDS="$@"
[ -z "$SEEDS" ] && SEEDS=$(ls seeded)
for s in $SEEDS; do
  id=$(echo $s | cut -d- -f1)
  case $s in
    C10-1) chk=C44 ;;
    C45-1) chk=C12 ;;
    *) chk=$id ;;
  esac
  [ -f harness/$(echo $chk | tr A-Z a-z).py ] || { echo "$s SKIP (no check for $chk)"; continue; }
  out=$(TAIL=100000 tools/try_seed.sh /verif/seeded/$s/patch.diff $chk 2>&1)
  if echo "$out" | grep -q "^VIOLATION property=$chk"; then echo "$s CAUGHT by $chk: $(echo "$out" | grep -m1 'label=' | sed 's/inputs=.*//' | cut -c1-140)";
  elif echo "$out" | grep -q "patch does not apply"; then echo "$s PATCH-DOES-NOT-APPLY";
  else echo "$s MISSED by $chk: $(echo "$out" | grep '^C[0-9]* tier\|HARNESS' | cut -c1-160 | head -2)"; fi
done
