#!/bin/sh
# usage: tools/try_seed.sh <patch.diff> <ID> [tier]   -- applies patch to /repo, runs the check, reverts
P="$1"; ID="$2"; TIER="${3:-quick}"
cd /repo || exit 9
if [ -n "$(git status --porcelain --untracked-files=no)" ]; then echo "/repo not clean"; exit 9; fi
git apply "$P" 2>/dev/null || git apply --3way "$P" >/dev/null 2>&1 || { echo "patch does not apply"; git reset -q --hard HEAD; exit 9; }
cd /verif && ./check "$ID" --tier "$TIER" 2>&1 | grep -v "^WARNING conda" | tail -${TAIL:-12}
RC=$?
git -C /repo reset -q --hard HEAD
# the evidence file now describes the seeded tree: put back the committed one (from a run on the unchanged tree)
git -C /verif checkout -q -- "evidence/$ID.json" 2>/dev/null
echo "== reverted; /repo status: $(git -C /repo status --porcelain --untracked-files=no | wc -l) changes"
