#!/bin/sh
# usage: tools/try_seed.sh <patch.diff> <ID> [tier]   -- applies patch to /repo, runs the check, reverts
P="$1"; ID="$2"; TIER="${3:-quick}"
cd /repo || exit 9
if [ -n "$(git status --porcelain --untracked-files=no)" ]; then echo "/repo not clean"; exit 9; fi
git apply "$P" || { echo "patch does not apply"; exit 9; }
cd /verif && ./check "$ID" --tier "$TIER" 2>&1 | grep -v "^WARNING conda" | tail -${TAIL:-12}
RC=$?
git -C /repo checkout -- . 
echo "== reverted; /repo status: $(git -C /repo status --porcelain --untracked-files=no | wc -l) changes"
